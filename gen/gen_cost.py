"""Fail-closed translator Python `ast` -> Gallina for the accept/cost/PUSH0 functions of GASOL
(properties C08 and C17).  Regenerates from $GASOL_REPO (common.REPO) on every run:

   coq/Gen/Accept.v      improves_criterion, block_has_been_optimized, compare_best_block,
                         choose_best_solution, update_{gas,size,length}_count
   coq/Gen/Push0.v       is_push0, AsmBytecode.to_plain, the PUSH0 branch of build_asm_bytecode,
                         id_to_asm_bytecode, generate_push_instruction (id/disasm/gas fields)
   coq/Gen/CostTables.v  the module-level tables of opcodes.py (W*, GCOST, stack arities),
                         get_ins_cost, number_encoding_size, get_num_bytes_int, get_ins_size,
                         AsmBytecode.{bytes_required,gas_spent,gas_spent_accesses},
                         AsmBlock.{bytes_required,length}, generate_push_instruction size field

Accepted subset: see `Tr`.  ANY node outside it raises `Unsupported` with file:line:col, and the
check then reports the correspondence as broken instead of guessing.

Conventions of the translation (trusted, and tied by differential cases in harness/c08.py,c17.py):
  * Python ints -> Z, str -> string, bool -> bool, None/Optional -> option, list/tuple-of-consts -> list,
    `x in <tuple>` -> membership, `x in <str>` -> SUBSTRING test (what Python does for Whigh = ("JUMPI")),
  * the process-wide flag constants.push0_enabled becomes an explicit first parameter `push0_enabled`,
  * `for x in xs: ...` with early `return` -> an auxiliary structural Fixpoint over xs whose nil case
    is the code after the loop; `while c: ...` -> a fuelled Fixpoint (fuel expression given by a hint),
  * an `if` without `return` duplicates the continuation into both branches,
  * `raise` -> the function returns `option`, `raise` is None,
  * attribute access on a typed parameter is a record projection or (for properties computed by
    another translated method) a call, as declared in ATTRS,
  * module globals updated under `global` are threaded: extra parameters, returned as a tuple.
"""
import ast
import os
import sys

try:
    from harness import common
    REPO = common.REPO
    COQ = common.COQ
except Exception:  # stand-alone use
    REPO = os.environ.get("GASOL_REPO", "/repo")
    COQ = os.path.join(os.path.dirname(os.path.dirname(os.path.abspath(__file__))), "coq")


class Unsupported(Exception):
    pass


def OPT(t): return ("opt", t)
def LIST(t): return ("list", t)
def TUP(*ts): return ("tup",) + ts
def REC(n): return ("rec", n)


def coq_ty(t):
    if t == "Z": return "Z"
    if t == "bool": return "bool"
    if t == "string": return "string"
    if t == "nat": return "nat"
    if t[0] == "opt": return "(option %s)" % coq_ty(t[1])
    if t[0] == "list": return "(list %s)" % coq_ty(t[1])
    if t[0] == "tup": return "(" + " * ".join(coq_ty(x) for x in t[1:]) + ")"
    if t[0] == "rec": return t[1]
    raise Unsupported("type %r" % (t,))


# records of the models: name -> [(python attribute / dict key, coq field, type)]
RECORDS = {
    # a block as the accept functions and the total counters see it: the VALUES of its cost properties
    "BlockV": [("bytes_required", "b_bytes_required", "Z"), ("gas_spent", "b_gas_spent", "Z"),
               ("length", "b_length", "Z"), ("instructions", "b_instructions", LIST(REC("Item")))],
    # an assembly item as the cost functions see it
    "Item": [("disasm", "i_disasm", "string"), ("value", "i_value", OPT("string"))],
    # an instruction as compare_best_block sees it: the values of its two cost properties
    "InstrV": [("bytes_required", "v_bytes_required", "Z"), ("gas_spent", "v_gas_spent", "Z")],
    "Params": [("ub_greedy", "p_ub_greedy", "bool"), ("criteria", "p_criteria", "string")],
    # a user_instrs entry of the SFS as id_to_asm_bytecode reads it
    "UInstr": [("disasm", "u_disasm", "string"), ("value", "u_value", OPT(LIST("Z")))],
    # the fields of generate_push_instruction's result that matter for PUSH0
    "PushObj": [("id", "o_id", "string"), ("disasm", "o_disasm", "string"), ("value", "o_value", LIST("Z"))],
}
# computed properties: (record, attribute) -> translated function (called with push0 first if it needs it)
PROPS = {
    ("Item", "bytes_required"): "AsmBytecode_bytes_required",
    ("Item", "gas_spent"): "AsmBytecode_gas_spent",
}
ENUMS = {"OptimizeOutcome": ("smt_encoding/solver/solver.py", "OptimizeOutcome")}


class Fn:
    def __init__(self, file, name, params, ret, cls=None, vararg=None, p0=False, coqname=None,
                 globals_=(), locals_=None, fuel=None, fragment=None, fields=None, ignore_fields=(),
                 may_raise=False, assume_some=()):
        self.file, self.name, self.cls = file, name, cls
        self.params, self.ret, self.vararg, self.p0 = params, ret, vararg, p0
        self.coqname = coqname or ((cls + "_" + name) if cls else name)
        self.globals = list(globals_)
        self.locals = locals_ or {}
        self.fuel = fuel or {}
        self.fragment = fragment
        self.fields, self.ignore_fields = fields, set(ignore_fields)
        self.may_raise = may_raise
        self.assume_some = set(assume_some)


class Table:
    def __init__(self, file, name, kind, coqname=None):
        self.file, self.name, self.kind, self.coqname = file, name, kind, coqname or name


GA = "gasol_asm.py"
OPC = "sfs_generator/opcodes.py"
UT = "sfs_generator/utils.py"
AB = "sfs_generator/asm_bytecode.py"
ABL = "sfs_generator/asm_block.py"
IDS = "solution_generation/ids2asm.py"
GO = "sfs_generator/gasol_optimization.py"
PA = "sfs_generator/parser_asm.py"

FILES = {
    "Accept": [
        Fn(GA, "improves_criterion", [("saved_criterion", "Z")], "bool", vararg=("saved_other", "Z")),
        Fn(GA, "block_has_been_optimized",
           [("original_block", REC("BlockV")), ("optimized_block", REC("BlockV")), ("criteria", "string")], "bool"),
        Fn(GA, "compare_best_block",
           [("original_seq", LIST(REC("InstrV"))), ("optimized_superopt", LIST(REC("InstrV"))),
            ("optimized_greedy", LIST(REC("InstrV"))), ("criterion", "string")],
           TUP(LIST(REC("InstrV")), "string")),
        Fn(GA, "choose_best_solution",
           [("original_asm", LIST(REC("InstrV"))), ("optimized_asm", LIST(REC("InstrV"))),
            ("greedy_asm", OPT(LIST(REC("InstrV")))), ("optimization_outcome", "string"),
            ("params", REC("Params"))],
           TUP(LIST(REC("InstrV")), OPT("string")), locals_={"chosen_solution_tag": OPT("string")}),
        Fn(GA, "update_gas_count", [("old_block", REC("BlockV")), ("new_block", REC("BlockV"))],
           TUP("Z", "Z"), globals_=[("previous_gas", "Z"), ("new_gas", "Z")]),
        Fn(GA, "update_size_count", [("old_block", REC("BlockV")), ("new_block", REC("BlockV"))],
           TUP("Z", "Z"), globals_=[("previous_size", "Z"), ("new_size", "Z")]),
        Fn(GA, "update_length_count", [("old_block", REC("BlockV")), ("new_block", REC("BlockV"))],
           TUP("Z", "Z"), globals_=[("prev_n_instrs", "Z"), ("new_n_instrs", "Z")]),
    ],
    "Push0": [
        Fn(AB, "is_push0", [("disasm", "string"), ("value", OPT("string"))], "bool", p0=True),
        Fn(AB, "to_plain", [("self", REC("Item"))], "string", cls="AsmBytecode", p0=True),
        Fn(PA, "build_asm_bytecode", [("name", "string"), ("value", OPT("string"))], REC("Item"), p0=True,
           fragment="last_if_then_return:asm_bytecode", coqname="build_asm_bytecode_item"),
        Fn(IDS, "id_to_asm_bytecode", [("uf_instrs", ("dict", REC("UInstr"))), ("instr_id", "string")], REC("Item"),
           assume_some={"associated_instr['value']"}),
        Fn(GO, "generate_push_instruction", [("idx", "Z"), ("value", "Z"), ("out", "string")], REC("PushObj"),
           p0=True, fields=["id", "disasm", "value"],
           ignore_fields=["opcode", "inpt_sk", "push", "outpt_sk", "commutative", "storage", "size", "gas"],
           coqname="generate_push_instruction"),
    ],
    "CostTables": [
        Table(OPC, "Wzero", "strs"), Table(OPC, "Wbase", "strs"), Table(OPC, "Wverylow", "strs"),
        Table(OPC, "Wlow", "strs"), Table(OPC, "Wmid", "strs"), Table(OPC, "Whigh", "strs"),
        Table(OPC, "Wcopy", "strs"), Table(OPC, "Wcall", "strs"), Table(OPC, "Wextaccount", "strs"),
        Table(OPC, "GCOST", "dictZ"), Table(OPC, "opcodes", "arity", coqname="opcodes_arity"),
        Fn(OPC, "get_ins_cost", [("opcode", "string"), ("params", OPT("string")), ("already", "bool"),
                                 ("store_changed_original_value", "bool")], "Z"),
        Fn(UT, "number_encoding_size", [("number", "Z")], "Z",
           fuel={"while1": "S (Z.to_nat (Z.log2 number))"}),
        Fn(UT, "get_num_bytes_int", [("val", "Z")], "Z"),
        Fn(UT, "get_ins_size", [("op_name", "string"), ("val", OPT("Z")), ("address_length", "Z")], "Z",
           may_raise=True, assume_some={"val"}),
        Fn(AB, "bytes_required", [("self", REC("Item"))], "Z", cls="AsmBytecode", p0=True, may_raise=True,
           assume_some={"self.value"}, locals_={"decimal_value": OPT("Z")}),
        Fn(AB, "gas_spent", [("self", REC("Item"))], "Z", cls="AsmBytecode", p0=True),
        Fn(AB, "gas_spent_accesses", [("self", REC("Item")), ("warm_access", "bool"),
                                      ("store_changed_original_value", "bool")], "Z", cls="AsmBytecode", p0=True),
        Fn(ABL, "bytes_required", [("self", REC("BlockI"))], "Z", cls="AsmBlock", p0=True, may_raise=True),
        Fn(ABL, "length", [("self", REC("BlockI"))], "Z", cls="AsmBlock"),
        Fn(GO, "generate_push_instruction", [("idx", "Z"), ("value", "Z"), ("out", "string")], "Z", p0=True,
           fields=["gas"], coqname="generate_push_instruction_gas",
           ignore_fields=["opcode", "inpt_sk", "push", "outpt_sk", "commutative", "storage", "id", "disasm",
                          "size", "value"]),
        Fn(GO, "generate_push_instruction", [("idx", "Z"), ("value", "Z"), ("out", "string")], OPT("Z"),
           fields=["size"], coqname="generate_push_instruction_size",
           ignore_fields=["opcode", "inpt_sk", "push", "outpt_sk", "commutative", "storage", "id", "disasm",
                          "gas", "value"]),
    ],
}
# a block as AsmBlock.bytes_required/length read it: its list of items
RECORDS["BlockI"] = [("instructions", "bi_instructions", LIST(REC("Item")))]

DEFAULT_ARGS = {"get_ins_size": {2: "2"}, "get_ins_cost": {1: "None", 2: "false", 3: "false"}}
MODULE_ALIASES = {"opcodes": OPC, "utils": UT, "constants": "global_params/constants.py"}

PRELUDE = """From Coq Require Import ZArith List Bool String Ascii.
From GV Require Import Model.CostPrelude.
Import ListNotations.
Open Scope string_scope.
Open Scope Z_scope.
Open Scope bool_scope.
"""


def loc(fn, node):
    return "%s:%s:%s" % (fn.file if fn else "?", getattr(node, "lineno", "?"), getattr(node, "col_offset", "?"))


def qs(s):
    if any(ord(c) < 32 or ord(c) > 126 for c in s):
        raise Unsupported("non-printable string literal %r" % s)
    return '"' + s.replace('"', '""') + '"'


def zlit(n):
    return str(n) if n >= 0 else "(%d)" % n


_parsed = {}


def parse_file(rel):
    if rel not in _parsed:
        import warnings
        with open(os.path.join(REPO, rel)) as fh, warnings.catch_warnings():
            warnings.simplefilter("ignore")
            _parsed[rel] = ast.parse(fh.read(), filename=rel)
    return _parsed[rel]


def find_def(fn):
    mod = parse_file(fn.file)
    scope = mod.body
    if fn.cls:
        cs = [n for n in scope if isinstance(n, ast.ClassDef) and n.name == fn.cls]
        if len(cs) != 1:
            raise Unsupported("%s: class %s not found exactly once" % (fn.file, fn.cls))
        scope = cs[0].body
    ds = [n for n in scope if isinstance(n, ast.FunctionDef) and n.name == fn.name]
    # a property has getter (and maybe setter): take the getter (first definition without .setter decorator)
    ds = [d for d in ds if not any(isinstance(x, ast.Attribute) and x.attr == "setter" for x in d.decorator_list)]
    if len(ds) != 1:
        raise Unsupported("%s: def %s not found exactly once" % (fn.file, fn.name))
    return ds[0]


def find_assign(file, name):
    mod = parse_file(file)
    hits = [n for n in mod.body if isinstance(n, ast.Assign) and len(n.targets) == 1 and
            isinstance(n.targets[0], ast.Name) and n.targets[0].id == name]
    if len(hits) != 1:
        raise Unsupported("%s: module-level assignment of %s not found exactly once" % (file, name))
    return hits[0].value


class Ctx:
    """Translation of one generated file."""

    def __init__(self, fname):
        self.fname = fname
        self.funcs = {}      # (python name or Class_name) -> Fn already emitted in this or imported files
        self.tables = {}     # name -> (kind, coqname, python value)
        self.out = []
        self.used_records = []


class Tr:
    """Translation of one function."""

    def __init__(self, ctx, fn):
        self.ctx, self.fn = ctx, fn
        self.aux = []
        self.nloop = 0
        self.loops = {}
        self.enum_members = {}

    # ---------------------------------------------------------------- helpers
    def bad(self, node, why=""):
        raise Unsupported("%s: unsupported %s %s in %s" % (loc(self.fn, node), type(node).__name__, why, self.fn.coqname))

    def rec_field(self, rname, attr, node):
        for a, f, t in RECORDS[rname]:
            if a == attr:
                return f, t
        self.bad(node, "record %s has no attribute %s" % (rname, attr))

    def lookup_fn(self, name, node):
        f = self.ctx.funcs.get(name)
        if f is None:
            self.bad(node, "call of untranslated function %s" % name)
        return f

    def call(self, f, args, node):
        """args: list of (coq, type) for the positional parameters of f."""
        ps = list(f.params) + list(f.globals)
        dflt = DEFAULT_ARGS.get(f.name, {})
        coq = []
        if f.p0:
            if not self.fn.p0:
                self.bad(node, "%s reads push0_enabled but %s is not declared p0" % (f.coqname, self.fn.coqname))
            coq.append("push0_enabled")
        if f.vararg is not None:
            fixed = args[:len(f.params)]
            rest = args[len(f.params):]
            for a, (pn, pt) in zip(fixed, f.params):
                coq.append(self.fit(a, pt, node))
            coq.append("[" + "; ".join(self.fit(a, f.vararg[1], node) for a in rest) + "]")
        else:
            if len(args) > len(f.params):
                self.bad(node, "too many arguments for " + f.coqname)
            for i, (pn, pt) in enumerate(f.params):
                if i < len(args):
                    coq.append(self.fit(args[i], pt, node))
                elif i in dflt:
                    coq.append(dflt[i])
                else:
                    self.bad(node, "missing argument %s of %s" % (pn, f.coqname))
        rt = OPT(f.ret) if f.may_raise else f.ret
        return "(%s %s)" % (f.coqname, " ".join(coq)), rt

    def fit(self, a, want, node):
        """a = (coq, type[, source node, facts]): coerce, or strip an option that a guard proved Some."""
        c, t = a[0], a[1]
        if len(a) == 4 and t[0] == "opt" and t[1] == want and want[0] != "opt":
            src, facts = a[2], a[3]
            if self.key(src) in facts or self.key(src) in self.fn.assume_some:
                un = {"Z": "unopt_Z", "string": "unopt_string"}.get(want, "unopt_list" if want[0] == "list" else None)
                if un:
                    return "(%s %s)" % (un, c)
            self.bad(node, "optional value %s used where %r is required without an `is not None` guard" % (self.key(src), want))
        return self.coerce(c, t, want, node)

    def exa(self, n, env, facts):
        c, t = self.ex(n, env, facts)
        return (c, t, n, facts)

    def coerce(self, c, t, want, node):
        if t == want:
            return c
        if want[0] == "opt" and t == want[1]:
            return "(Some %s)" % c
        if t == ("opt", "?") and want[0] == "opt":
            return "None"
        if t == ("list", "?") and want[0] == "list":
            return c
        if want[0] == "tup" and t[0] == "tup" and len(t) == len(want):
            # coerce component-wise through a let
            names = ["c%d_" % i for i in range(len(t) - 1)]
            comps = [self.coerce(n, a, b, node) for n, a, b in zip(names, t[1:], want[1:])]
            return "(let '(%s) := %s in (%s))" % (", ".join(names), c, ", ".join(comps))
        self.bad(node, "type mismatch: have %r want %r" % (t, want))

    def key(self, node):
        return ast.unparse(node)

    # ---------------------------------------------------------------- expressions
    def ex(self, n, env, facts):
        """-> (coq string, type)"""
        if isinstance(n, ast.Constant):
            v = n.value
            if v is None:
                return "None", ("opt", "?")
            if isinstance(v, bool):
                return ("true" if v else "false"), "bool"
            if isinstance(v, int):
                return zlit(v), "Z"
            if isinstance(v, str):
                return qs(v), "string"
            self.bad(n, "constant")
        if isinstance(n, ast.Name):
            if n.id in env:
                return n.id, env[n.id]
            if n.id in self.ctx.tables:
                kind, cn, _ = self.ctx.tables[n.id]
                return cn, {"strs": LIST("string"), "str": "string", "dictZ": ("dict", "Z")}[kind]
            self.bad(n, "unknown name " + n.id)
        if isinstance(n, ast.Attribute):
            # module.global / Enum.member / record.field / property
            if isinstance(n.value, ast.Name) and n.value.id not in env:
                m = n.value.id
                if m == "constants" and n.attr == "push0_enabled":
                    if not self.fn.p0:
                        self.bad(n, "push0_enabled read in a function not declared p0")
                    return "push0_enabled", "bool"
                if m in ENUMS:
                    members = enum_members(m)
                    if n.attr not in members:
                        self.bad(n, "enum %s has no member %s" % (m, n.attr))
                    return qs(n.attr), "string"
                if m in MODULE_ALIASES and n.attr in self.ctx.tables:
                    kind, cn, _ = self.ctx.tables[n.attr]
                    return cn, {"strs": LIST("string"), "str": "string", "dictZ": ("dict", "Z")}[kind]
                self.bad(n, "module attribute %s.%s" % (m, n.attr))
            c, t = self.ex(n.value, env, facts)
            if t[0] != "rec":
                self.bad(n, "attribute of non-record %r" % (t,))
            if (t[1], n.attr) in PROPS:
                f = self.lookup_fn(PROPS[(t[1], n.attr)], n)
                return self.call(f, [(c, t)], n)
            f, ft = self.rec_field(t[1], n.attr, n)
            return "(%s %s)" % (f, c), ft
        if isinstance(n, ast.Subscript):
            return self.subscript(n, env, facts)
        if isinstance(n, ast.UnaryOp):
            c, t = self.ex(n.operand, env, facts)
            if isinstance(n.op, ast.Not) and t == "bool":
                return "(negb %s)" % c, "bool"
            if isinstance(n.op, ast.USub) and t == "Z":
                return "(- %s)" % c, "Z"
            self.bad(n, "unary")
        if isinstance(n, ast.BoolOp):
            # the positive facts of earlier conjuncts hold in later ones (short circuit)
            parts, f2 = [], set(facts)
            for v in n.values:
                c, t = self.ex(v, env, f2)
                if t != "bool":
                    self.bad(v, "non-bool operand of and/or (%r)" % (t,))
                parts.append(c)
                f2 = f2 | (self.pos(v) if isinstance(n.op, ast.And) else self.neg(v))
            op = " && " if isinstance(n.op, ast.And) else " || "
            return "(" + op.join(parts) + ")", "bool"
        if isinstance(n, ast.BinOp):
            a, ta = self.ex(n.left, env, facts)
            b, tb = self.ex(n.right, env, facts)
            if ta == "Z" and tb == "Z":
                ops = {ast.Add: "Z.add", ast.Sub: "Z.sub", ast.Mult: "Z.mul", ast.RShift: "Z.shiftr",
                       ast.LShift: "Z.shiftl", ast.Pow: "Z.pow", ast.FloorDiv: "Z.div", ast.Mod: "Z.modulo"}
                if type(n.op) in ops:
                    # Z.pow/shift with negative second argument differ from Python (which raises): only literals >= 0
                    if isinstance(n.op, (ast.Pow, ast.RShift, ast.LShift)) and not (
                            isinstance(n.right, ast.Constant) and isinstance(n.right.value, int) and n.right.value >= 0):
                        self.bad(n, "pow/shift by a non-literal")
                    if isinstance(n.op, (ast.FloorDiv, ast.Mod)) and not (
                            isinstance(n.right, ast.Constant) and isinstance(n.right.value, int) and n.right.value > 0):
                        self.bad(n, "division by a non-literal")
                    return "(%s %s %s)" % (ops[type(n.op)], a, b), "Z"
            if ta == "string" and tb == "string" and isinstance(n.op, ast.Add):
                return "(String.append %s %s)" % (a, b), "string"
            self.bad(n, "binop on %r, %r" % (ta, tb))
        if isinstance(n, ast.Compare):
            if len(n.ops) != 1:
                self.bad(n, "chained comparison")
            return self.compare(n, env, facts)
        if isinstance(n, ast.IfExp):
            c, tc = self.ex(n.test, env, facts)
            if tc != "bool":
                self.bad(n, "non-bool test")
            a, ta = self.ex(n.body, env, facts | self.pos(n.test))
            b, tb = self.ex(n.orelse, env, facts | self.neg(n.test))
            if ta == ("opt", "?") and tb[0] != "opt":
                a, b, ta, tb = "None", "(Some %s)" % b, OPT(tb), OPT(tb)
            elif tb == ("opt", "?") and ta[0] != "opt":
                a, b, ta, tb = "(Some %s)" % a, "None", OPT(ta), OPT(ta)
            if ta != tb:
                self.bad(n, "branches of different type %r %r" % (ta, tb))
            return "(if %s then %s else %s)" % (c, a, b), ta
        if isinstance(n, ast.Tuple):
            cs = [self.ex(e, env, facts) for e in n.elts]
            return "(" + ", ".join(c for c, _ in cs) + ")", TUP(*[t for _, t in cs])
        if isinstance(n, ast.List):
            cs = [self.ex(e, env, facts) for e in n.elts]
            if not cs:
                return "[]", ("list", "?")
            if any(t != cs[0][1] for _, t in cs):
                self.bad(n, "heterogeneous list")
            return "[" + "; ".join(c for c, _ in cs) + "]", LIST(cs[0][1])
        if isinstance(n, ast.JoinedStr):
            parts = []
            for v in n.values:
                if isinstance(v, ast.Constant) and isinstance(v.value, str):
                    parts.append(qs(v.value))
                elif isinstance(v, ast.FormattedValue) and v.conversion == -1 and v.format_spec is None:
                    c, t = self.ex(v.value, env, facts)
                    parts.append(self.to_str(c, t, v.value, facts))
                else:
                    self.bad(v, "f-string part")
            r = '""'
            for p in reversed(parts):
                r = "(String.append %s %s)" % (p, r)
            return r, "string"
        if isinstance(n, ast.Call):
            return self.callex(n, env, facts)
        self.bad(n)

    def to_str(self, c, t, node, facts):
        if t == "string":
            return c
        if t == "Z":
            return "(py_str_Z %s)" % c
        if t == OPT("string") and self.key(node) in facts:
            return "(unopt_string %s)" % c
        self.bad(node, "str() of %r (optional values need an `is not None` guard)" % (t,))

    def subscript(self, n, env, facts):
        sl = n.slice
        # s[k:] on strings
        if isinstance(sl, ast.Slice):
            if sl.upper is None and sl.step is None and isinstance(sl.lower, ast.Constant) and \
                    isinstance(sl.lower.value, int) and sl.lower.value >= 0:
                c, t = self.ex(n.value, env, facts)
                if t == "string":
                    return "(py_slice_from %d %s)" % (sl.lower.value, c), "string"
            self.bad(n, "slice")
        c, t = self.ex(n.value, env, facts)
        if t == ("dict", "Z"):
            if not (isinstance(sl, ast.Constant) and isinstance(sl.value, str)):
                self.bad(n, "dict lookup with a non-literal key")
            tb = [v for v in self.ctx.tables.values() if v[1] == c][0]
            if sl.value not in tb[2]:
                self.bad(n, "key %r not in dict literal %s (Python raises KeyError)" % (sl.value, c))
            return "(dict_get_Z %s %s)" % (c, qs(sl.value)), "Z"
        if t[0] == "dict" and t[1][0] == "rec":
            k, tk = self.ex(sl, env, facts)
            if tk != "string":
                self.bad(n, "dict key type")
            if ("in:" + self.key(sl) + ":" + self.key(n.value)) not in facts:
                self.bad(n, "dict lookup not guarded by `key in dict`")
            return "(dict_get %s %s %s)" % (c, k, default_of(t[1])), t[1]
        if t[0] == "rec":
            if not (isinstance(sl, ast.Constant) and isinstance(sl.value, str)):
                self.bad(n, "record key")
            f, ft = self.rec_field(t[1], sl.value, n)
            return "(%s %s)" % (f, c), ft
        if isinstance(sl, ast.Constant) and sl.value == 0:
            if t == LIST("Z"):
                return "(nth0_Z %s)" % c, "Z"
            guard = None
            if isinstance(n.value, ast.Subscript) and isinstance(n.value.slice, ast.Constant):
                guard = "in:" + self.key(n.value.slice) + ":" + self.key(n.value.value)
            if t == OPT(LIST("Z")) and (self.key(n.value) in facts or guard in facts or self.key(n.value) in self.fn.assume_some):
                return "(nth0_Z (unopt_list %s))" % c, "Z"
        self.bad(n, "subscript of %r" % (t,))

    def compare(self, n, env, facts):
        op, l, r = n.ops[0], n.left, n.comparators[0]
        if isinstance(op, (ast.Is, ast.IsNot)):
            if not (isinstance(r, ast.Constant) and r.value is None):
                self.bad(n, "is/is not with non-None")
            c, t = self.ex(l, env, facts)
            if t[0] != "opt":
                self.bad(n, "`is None` on a non-optional %r" % (t,))
            return ("(opt_is_none %s)" if isinstance(op, ast.Is) else "(negb (opt_is_none %s))") % c, "bool"
        if isinstance(op, (ast.In, ast.NotIn)):
            a, ta = self.ex(l, env, facts)
            wrap = "%s" if isinstance(op, ast.In) else "(negb %s)"
            if isinstance(r, (ast.Tuple, ast.List)):
                b, tb = self.ex(ast.List(elts=r.elts, ctx=ast.Load()), env, facts)
            else:
                b, tb = self.ex(r, env, facts)
            if ta == "string" and tb == LIST("string"):
                return wrap % ("(py_in_list %s %s)" % (a, b)), "bool"
            if ta == "string" and tb == "string":
                return wrap % ("(py_substr %s %s)" % (a, b)), "bool"
            if ta == "string" and tb[0] == "dict":
                return wrap % ("(dict_mem %s %s)" % (b, a)), "bool"
            if tb[0] == "rec" and isinstance(l, ast.Constant) and isinstance(l.value, str):
                # 'key' in <dict modelled as a record>: the optional field is present
                fld, ft = self.rec_field(tb[1], l.value, n)
                if ft[0] != "opt":
                    self.bad(n, "`in` on a mandatory field")
                return wrap % ("(negb (opt_is_none (%s %s)))" % (fld, b)), "bool"
            self.bad(n, "`in` on %r, %r" % (ta, tb))
        a, ta = self.ex(l, env, facts)
        b, tb = self.ex(r, env, facts)
        if ta == "Z" and tb == "Z":
            f = {ast.Eq: "(Z.eqb %s %s)", ast.NotEq: "(negb (Z.eqb %s %s))", ast.Lt: "(Z.ltb %s %s)",
                 ast.LtE: "(Z.leb %s %s)", ast.Gt: "(Z.gtb %s %s)", ast.GtE: "(Z.geb %s %s)"}.get(type(op))
            if f:
                return f % (a, b), "bool"
        if ta == "string" and tb == "string" and isinstance(op, (ast.Eq, ast.NotEq)):
            s = "(String.eqb %s %s)" % (a, b)
            return (s if isinstance(op, ast.Eq) else "(negb %s)" % s), "bool"
        if ta == OPT("string") and tb == "string" and isinstance(op, (ast.Eq, ast.NotEq)):
            s = "(opt_eqb_string %s %s)" % (a, b)
            return (s if isinstance(op, ast.Eq) else "(negb %s)" % s), "bool"
        self.bad(n, "comparison of %r and %r" % (ta, tb))

    def callex(self, n, env, facts):
        if n.keywords:
            kws = {k.arg: k.value for k in n.keywords}
        else:
            kws = {}
        f = n.func
        # methods on strings
        if isinstance(f, ast.Attribute) and f.attr == "startswith" and len(n.args) == 1 and not kws:
            c, t = self.ex(f.value, env, facts)
            a, ta = self.ex(n.args[0], env, facts)
            if t == "string" and ta == "string":
                return "(py_startswith %s %s)" % (c, a), "bool"
            self.bad(n, "startswith")
        name = None
        if isinstance(f, ast.Name):
            name = f.id
        elif isinstance(f, ast.Attribute) and isinstance(f.value, ast.Name) and f.value.id in MODULE_ALIASES:
            name = f.attr
        if name is None:
            self.bad(n, "call target")
        if name == "AsmBytecode":
            if kws or len(n.args) < 5:
                self.bad(n, "AsmBytecode constructor shape")
            d, td = self.ex(n.args[3], env, facts)
            v, tv = self.ex(n.args[4], env, facts)
            if td != "string":
                self.bad(n, "AsmBytecode disasm type")
            return "(mkItem %s %s)" % (d, self.coerce(v, tv, OPT("string"), n)), REC("Item")
        if name == "sum" and len(n.args) == 1 and isinstance(n.args[0], ast.ListComp):
            c, t = self.listcomp(n.args[0], env, facts)
            if t == LIST("Z"):
                return "(py_sum %s)" % c, "Z"
            if t == LIST(OPT("Z")):
                return "(py_sum_opt %s)" % c, OPT("Z")
            self.bad(n, "sum of %r" % (t,))
        if name == "len" and len(n.args) == 1:
            if isinstance(n.args[0], ast.ListComp):
                c, t = self.listcomp(n.args[0], env, facts)
            else:
                c, t = self.ex(n.args[0], env, facts)
            if t[0] == "list":
                return "(py_len %s)" % c, "Z"
            self.bad(n, "len of %r" % (t,))
        if name == "max" and len(n.args) == 2:
            a, ta = self.ex(n.args[0], env, facts)
            b, tb = self.ex(n.args[1], env, facts)
            if ta == "Z" and tb == "Z":
                return "(Z.max %s %s)" % (a, b), "Z"
            self.bad(n, "max")
        if name == "int":
            a, ta = self.ex(n.args[0], env, facts)
            if len(n.args) == 2 and isinstance(n.args[1], ast.Constant) and n.args[1].value == 16:
                if ta == "string":
                    return "(py_int_hex %s)" % a, "Z"
                if ta == OPT("string") and (self.key(n.args[0]) in facts or self.key(n.args[0]) in self.fn.assume_some):
                    return "(py_int_hex (unopt_string %s))" % a, "Z"
            if len(n.args) == 1:
                if ta == "string":
                    return "(py_int_dec %s)" % a, "Z"
                if ta == "Z":
                    return a, "Z"
            self.bad(n, "int() of %r" % (ta,))
        if name == "str" and len(n.args) == 1:
            a, ta = self.ex(n.args[0], env, facts)
            return self.to_str(a, ta, n.args[0], facts), "string"
        if name == "hex" and len(n.args) == 1:
            a, ta = self.ex(n.args[0], env, facts)
            if ta == "Z":
                return "(py_hex %s)" % a, "Z" and "string"
            self.bad(n, "hex")
        fn = self.ctx.funcs.get(name)
        if fn is not None:
            if kws:
                # keyword arguments: place them by parameter name
                names = [p for p, _ in fn.params]
                args = [self.exa(a, env, facts) for a in n.args]
                if len(args) > len(names):
                    self.bad(n, "arity")
                slots = {i: a for i, a in enumerate(args)}
                for k, v in kws.items():
                    if k not in names:
                        self.bad(n, "unknown keyword " + k)
                    slots[names.index(k)] = self.exa(v, env, facts)
                dfl = DEFAULT_ARGS.get(fn.name, {})
                full = []
                for i, (pn, pt) in enumerate(fn.params):
                    if i in slots:
                        full.append(slots[i])
                    elif i in dfl:
                        full.append((dfl[i], pt))
                    else:
                        self.bad(n, "missing argument " + pn)
                return self.call(fn, full, n)
            return self.call(fn, [self.exa(a, env, facts) for a in n.args], n)
        self.bad(n, "call of " + name)

    def listcomp(self, n, env, facts):
        if len(n.generators) != 1:
            self.bad(n, "comprehension with several generators")
        g = n.generators[0]
        if not isinstance(g.target, ast.Name) or g.is_async:
            self.bad(n, "comprehension target")
        it, tit = self.ex(g.iter, env, facts)
        if tit[0] != "list":
            self.bad(n, "comprehension over %r" % (tit,))
        x = g.target.id
        env2 = dict(env)
        env2[x] = tit[1]
        src = it
        for cond in g.ifs:
            c, tc = self.ex(cond, env2, facts)
            if tc != "bool":
                self.bad(cond, "filter type")
            src = "(filter (fun %s => %s) %s)" % (x, c, src)
        e, te = self.ex(n.elt, env2, facts)
        return "(map (fun %s => %s) %s)" % (x, e, src), LIST(te)

    # facts established by a condition being true / false (only `x is [not] None`, `k in d`, and/or/not)
    def pos(self, c):
        if isinstance(c, ast.Compare) and len(c.ops) == 1:
            if isinstance(c.ops[0], ast.IsNot) and isinstance(c.comparators[0], ast.Constant) and c.comparators[0].value is None:
                return {self.key(c.left)}
            if isinstance(c.ops[0], ast.In):
                return {"in:" + self.key(c.left) + ":" + self.key(c.comparators[0])}
        if isinstance(c, ast.BoolOp) and isinstance(c.op, ast.And):
            s = set()
            for v in c.values:
                s |= self.pos(v)
            return s
        if isinstance(c, ast.UnaryOp) and isinstance(c.op, ast.Not):
            return self.neg(c.operand)
        return set()

    def neg(self, c):
        if isinstance(c, ast.Compare) and len(c.ops) == 1:
            if isinstance(c.ops[0], ast.Is) and isinstance(c.comparators[0], ast.Constant) and c.comparators[0].value is None:
                return {self.key(c.left)}
            if isinstance(c.ops[0], ast.NotIn):
                return {"in:" + self.key(c.left) + ":" + self.key(c.comparators[0])}
        if isinstance(c, ast.BoolOp) and isinstance(c.op, ast.Or):
            s = set()
            for v in c.values:
                s |= self.neg(v)
            return s
        if isinstance(c, ast.UnaryOp) and isinstance(c.op, ast.Not):
            return self.pos(c.operand)
        return set()

    # ---------------------------------------------------------------- statements
    def ret_wrap(self, c, t, node):
        want = self.fn.ret
        if self.fn.may_raise:
            if t == OPT(want):
                return c
            return "(Some %s)" % self.coerce(c, t, want, node)
        return self.coerce(c, t, want, node)

    def st(self, stmts, env, facts, cont):
        """Translate a statement list; `cont(env, facts)` gives the expression for falling off its end."""
        if not stmts:
            return cont(env, facts)
        s, rest = stmts[0], stmts[1:]
        if isinstance(s, ast.Expr) and isinstance(s.value, ast.Constant) and isinstance(s.value.value, str):
            return self.st(rest, env, facts, cont)          # docstring
        if isinstance(s, ast.Pass):
            return self.st(rest, env, facts, cont)
        if isinstance(s, ast.Global):
            for g in s.names:
                if g not in [a for a, _ in self.fn.globals]:
                    self.bad(s, "global %s not declared in the spec" % g)
            return self.st(rest, env, facts, cont)
        if isinstance(s, ast.Return):
            if s.value is None:
                self.bad(s, "bare return")
            c, t = self.ex(s.value, env, facts)
            return self.ret_wrap(c, t, s)
        if isinstance(s, ast.Raise):
            if not self.fn.may_raise:
                self.bad(s, "raise in a function not declared may_raise")
            return "None"
        if isinstance(s, ast.Assign):
            if len(s.targets) != 1:
                self.bad(s, "multiple targets")
            tg = s.targets[0]
            if isinstance(tg, ast.Name):
                c, t = self.ex(s.value, env, facts)
                want = self.fn.locals.get(tg.id, env.get(tg.id, t))
                if want in (("opt", "?"), ("list", "?")):
                    self.bad(s, "cannot infer the type of %s; add a locals_ hint" % tg.id)
                c = self.coerce(c, t, want, s)
                env2 = dict(env)
                env2[tg.id] = want
                facts2 = {f for f in facts if not self.mentions(f, tg.id)}
                if isinstance(s.value, ast.Subscript) or True:
                    # facts about the new value: `x = d[k]`-style aliases carry nothing; a Some-coercion is a fact
                    if want[0] == "opt" and t == want[1]:
                        facts2 = facts2 | {tg.id}
                return "(let %s := %s in\n %s)" % (tg.id, c, self.st(rest, env2, facts2, cont))
            if isinstance(tg, ast.Tuple) and all(isinstance(e, ast.Name) for e in tg.elts) and \
                    isinstance(s.value, ast.Tuple) and len(s.value.elts) == len(tg.elts):
                # a, b = e1, e2  (right-hand sides are evaluated before any target is bound)
                names = [e.id for e in tg.elts]
                tmp = [nm + "_0" for nm in names]
                env2, facts2, lets1, lets2 = dict(env), set(facts), "", ""
                for nm, tm, e in zip(names, tmp, s.value.elts):
                    a = self.exa(e, env, facts)
                    want = self.fn.locals.get(nm, env.get(nm, a[1]))
                    lets1 += "let %s := %s in " % (tm, self.fit(a, want, s))
                    lets2 += "let %s := %s in " % (nm, tm)
                    env2[nm] = want
                    facts2 = {f for f in facts2 if not self.mentions(f, nm)}
                return "(%s%s\n %s)" % (lets1, lets2, self.st(rest, env2, facts2, cont))
            if isinstance(tg, ast.Tuple) and all(isinstance(e, ast.Name) for e in tg.elts):
                c, t = self.ex(s.value, env, facts)
                if t[0] != "tup" or len(t) - 1 != len(tg.elts):
                    self.bad(s, "tuple assignment from %r" % (t,))
                names = [e.id for e in tg.elts]
                tmp = [nm + "_0" for nm in names]
                env2 = dict(env)
                lets = ""
                facts2 = set(facts)
                for nm, tm, ty in zip(names, tmp, t[1:]):
                    want = self.fn.locals.get(nm, env.get(nm, ty))
                    lets += "let %s := %s in " % (nm, self.coerce(tm, ty, want, s))
                    env2[nm] = want
                    facts2 = {f for f in facts2 if not self.mentions(f, nm)}
                return "(let '(%s) := %s in %s\n %s)" % (", ".join(tmp), c, lets, self.st(rest, env2, facts2, cont))
            if isinstance(tg, ast.Subscript) and self.fn.fields is not None:
                return self.st_field(s, rest, env, facts, cont)
            self.bad(s, "assignment target")
        if isinstance(s, ast.AugAssign):
            if not isinstance(s.target, ast.Name) or s.target.id not in env:
                self.bad(s, "augmented assignment target")
            v = ast.BinOp(left=ast.Name(id=s.target.id, ctx=ast.Load()), op=s.op, right=s.value)
            ast.copy_location(v, s)
            a = ast.Assign(targets=[ast.Name(id=s.target.id, ctx=ast.Store())], value=v)
            ast.copy_location(a, s)
            return self.st([a] + rest, env, facts, cont)
        if isinstance(s, ast.If):
            c, t = self.ex(s.test, env, facts)
            if t != "bool":
                self.bad(s.test, "non-bool condition %r" % (t,))
            a = self.st(list(s.body) + rest, env, facts | self.pos(s.test), cont)
            b = self.st(list(s.orelse) + rest, env, facts | self.neg(s.test), cont)
            return "(if %s\n then %s\n else %s)" % (c, a, b)
        if isinstance(s, ast.For):
            return self.st_for(s, rest, env, facts, cont)
        if isinstance(s, ast.While):
            return self.st_while(s, rest, env, facts, cont)
        self.bad(s)

    def mentions(self, fact, name):
        import re
        return re.search(r"(?<![A-Za-z0-9_])%s(?![A-Za-z0-9_])" % re.escape(name), fact) is not None

    def st_field(self, s, rest, env, facts, cont):
        tg = s.targets[0]
        if not (isinstance(tg.value, ast.Name) and tg.value.id == "obj" and isinstance(tg.slice, ast.Constant)):
            self.bad(s, "field assignment shape")
        k = tg.slice.value
        if k in self.fn.ignore_fields:
            return self.st(rest, env, facts, cont)
        if k not in self.fn.fields:
            self.bad(s, "field %r is neither translated nor explicitly ignored" % k)
        c, t = self.ex(s.value, env, facts)
        env2 = dict(env)
        env2["obj_" + k] = t
        return "(let obj_%s := %s in\n %s)" % (k, c, self.st(rest, env2, facts, cont))

    def assigned(self, stmts):
        out = []
        for n in stmts:
            for x in ast.walk(n):
                if isinstance(x, (ast.Assign, ast.AugAssign)):
                    tgs = x.targets if isinstance(x, ast.Assign) else [x.target]
                    for t in tgs:
                        for y in ast.walk(t):
                            if isinstance(y, ast.Name) and y.id not in out:
                                out.append(y.id)
        return out

    def st_for(self, s, rest, env, facts, cont):
        if s.orelse or not isinstance(s.target, ast.Name):
            self.bad(s, "for-else / tuple target")
        for x in ast.walk(s):
            if isinstance(x, (ast.Break, ast.Continue)):
                self.bad(x, "break/continue")
        it, tit = self.ex(s.iter, env, facts)
        if tit[0] != "list":
            self.bad(s, "for over %r" % (tit,))
        for v in self.assigned(s.body):
            if v not in env:
                self.bad(s, "loop assigns %s which is not defined before the loop" % v)
        x = s.target.id
        names = [v for v in env if v != x]
        if id(s) in self.loops:
            aux, names0, tys0 = self.loops[id(s)]
            if names0 != names or tys0 != [env[v] for v in names]:
                self.bad(s, "loop reached with different environments")
            return "(%s %s%s)" % (aux, it, "".join(" " + v for v in names))
        self.nloop += 1
        aux = "%s_for%d" % (self.fn.coqname, self.nloop)
        self.loops[id(s)] = (aux, names, [env[v] for v in names])
        xs = "xs_%d" % self.nloop
        env_b = dict(env)
        env_b[x] = tit[1]
        call_next = lambda e, f: "(%s %s'%s)" % (aux, xs, "".join(" " + v for v in names))
        body = self.st(list(s.body), env_b, set(), call_next)
        after = self.st(rest, env, set(), cont)
        rt = coq_ty(OPT(self.fn.ret) if self.fn.may_raise else self.fn.ret)
        if self.fn.globals:
            rt = coq_ty(self.fn.ret)
        params = "".join(" (%s : %s)" % (v, coq_ty(env[v])) for v in names)
        self.aux.append("Fixpoint %s (%s : %s)%s {struct %s} : %s :=\n match %s with\n | [] => %s\n | %s :: %s' => %s\n end.\n"
                        % (aux, xs, coq_ty(tit), params, xs, rt, xs, after, x, xs, body))
        return "(%s %s%s)" % (aux, it, "".join(" " + v for v in names))

    def st_while(self, s, rest, env, facts, cont):
        if s.orelse:
            self.bad(s, "while-else")
        for x in ast.walk(s):
            if isinstance(x, (ast.Break, ast.Continue, ast.Return)):
                self.bad(x, "break/continue/return inside while")
        names = list(env)
        if id(s) in self.loops:
            aux, names0, tys0, hint = self.loops[id(s)]
            if names0 != names or tys0 != [env[v] for v in names]:
                self.bad(s, "loop reached with different environments")
            return "(%s (%s)%s)" % (aux, self.fn.fuel[hint], "".join(" " + v for v in names))
        self.nloop += 1
        hint = "while%d" % self.nloop
        if hint not in self.fn.fuel:
            self.bad(s, "while loop without a fuel hint")
        for v in self.assigned(s.body):
            if v not in env:
                self.bad(s, "loop assigns %s which is not defined before the loop" % v)
        aux = "%s_while%d" % (self.fn.coqname, self.nloop)
        self.loops[id(s)] = (aux, names, [env[v] for v in names], hint)
        c, t = self.ex(s.test, env, set())
        if t != "bool":
            self.bad(s.test, "non-bool condition")
        call_next = lambda e, f: "(%s fuel'%s)" % (aux, "".join(" " + v for v in names))
        body = self.st(list(s.body), env, set(), call_next)
        after = self.st(rest, env, set(), cont)
        rt = coq_ty(OPT(self.fn.ret) if self.fn.may_raise else self.fn.ret)
        params = "".join(" (%s : %s)" % (v, coq_ty(env[v])) for v in names)
        # out of fuel behaves like loop exit; adequacy of the fuel hint is a proved lemma (CostProofs.v)
        self.aux.append("Fixpoint %s (fuel : nat)%s {struct fuel} : %s :=\n match fuel with\n | O => %s\n | S fuel' => if %s then %s else %s\n end.\n"
                        % (aux, params, rt, after, c, body, after))
        return "(%s (%s)%s)" % (aux, self.fn.fuel[hint], "".join(" " + v for v in names))

    # ---------------------------------------------------------------- whole function
    def run(self):
        fn = self.fn
        d = find_def(fn)
        a = d.args
        if a.kwonlyargs or a.kwarg or a.posonlyargs:
            self.bad(d, "argument kinds")
        body = list(d.body)
        env = {}
        if fn.fragment:
            kind, var = fn.fragment.split(":")
            ifs = [s for s in body if isinstance(s, ast.If)]
            if kind != "last_if_then_return" or not ifs or not isinstance(body[-1], ast.Return) or \
                    not isinstance(body[-1].value, ast.Name) or body[-1].value.id != var or body[-2] is not ifs[-1]:
                self.bad(d, "fragment hint does not match the source")
            body = [ifs[-1], body[-1]]
            # names the fragment reads but which the model does not carry: declared opaque (only passed to the
            # AsmBytecode constructor in positions the Item record drops)
            for nm in ("begin", "end", "source", "jump_type", "modifier_depth", "real_value"):
                env[nm] = "Z"
        else:
            pyparams = [x.arg for x in a.args]
            want = [p for p, _ in fn.params]
            if fn.name == "id_to_asm_bytecode":
                pass
            if pyparams != want:
                self.bad(d, "parameters %r differ from the spec %r" % (pyparams, want))
            if (a.vararg.arg if a.vararg else None) != (fn.vararg[0] if fn.vararg else None):
                self.bad(d, "vararg differs from the spec")
        for p, t in fn.params:
            env[p] = t
        if fn.vararg:
            env[fn.vararg[0]] = LIST(fn.vararg[1])
        for g, t in fn.globals:
            env[g] = t
        if fn.fields is not None:
            # `obj = {}` ... `obj[k] = e` ... `return obj`
            def cont(e, f):
                self.bad(d, "falls off the end")
            body2 = []
            for s in body:
                if isinstance(s, ast.Assign) and isinstance(s.targets[0], ast.Name) and s.targets[0].id in ("obj", "disasm_list"):
                    if not isinstance(s.value, (ast.Dict, ast.List)):
                        self.bad(s, "obj initialisation")
                    continue
                if isinstance(s, ast.Return):
                    if not (isinstance(s.value, ast.Name) and s.value.id == "obj"):
                        self.bad(s, "return shape")
                    continue
                body2.append(s)

            def final(e, f):
                missing = [k for k in fn.fields if "obj_" + k not in e]
                if missing:
                    self.bad(d, "fields never assigned: %r" % missing)
                if fn.ret[0] == "rec":
                    args = []
                    for k, fld, ty in RECORDS[fn.ret[1]]:
                        args.append(self.coerce("obj_" + k, e["obj_" + k], ty, d))
                    return "(mk%s %s)" % (fn.ret[1], " ".join(args))
                k = fn.fields[0]
                return self.coerce("obj_" + k, e["obj_" + k], fn.ret, d)
            expr = self.st(body2, env, set(), final)
        elif fn.globals:
            def final(e, f):
                return "(" + ", ".join(g for g, _ in fn.globals) + ")"
            expr = self.st(body, env, set(), final)
        else:
            def final(e, f):
                self.bad(d, "control can fall off the end of the function (implicit None)")
            expr = self.st(body, env, set(), final)
        ps = ""
        if fn.p0:
            ps += " (push0_enabled : bool)"
        for p, t in fn.params:
            ps += " (%s : %s)" % (p, coq_ty(t) if t[0] != "dict" else "(list (string * %s))" % coq_ty(t[1]))
        if fn.vararg:
            ps += " (%s : %s)" % (fn.vararg[0], coq_ty(LIST(fn.vararg[1])))
        for g, t in fn.globals:
            ps += " (%s : %s)" % (g, coq_ty(t))
        rt = coq_ty(OPT(fn.ret) if fn.may_raise else fn.ret)
        hdr = "(* %s:%d  %s%s *)\n" % (fn.file, d.lineno, (fn.cls + "." if fn.cls else ""), fn.name)
        return hdr + "".join(self.aux) + "Definition %s%s : %s :=\n %s.\n" % (fn.coqname, ps, rt, expr)


def default_of(t):
    if t == "Z": return "0"
    if t == "string": return '""'
    if t == "bool": return "false"
    if t[0] == "opt": return "None"
    if t[0] == "list": return "[]"
    if t[0] == "rec":
        return "(mk%s %s)" % (t[1], " ".join(default_of(ft) for _, _, ft in RECORDS[t[1]]))
    raise Unsupported("no default for %r" % (t,))


_enum_cache = {}


def enum_members(name):
    if name not in _enum_cache:
        file, cls = ENUMS[name]
        mod = parse_file(file)
        cs = [n for n in mod.body if isinstance(n, ast.ClassDef) and n.name == cls]
        if len(cs) != 1:
            raise Unsupported("enum %s not found" % name)
        ms = []
        for s in cs[0].body:
            if isinstance(s, ast.Assign) and isinstance(s.targets[0], ast.Name):
                ms.append(s.targets[0].id)
        _enum_cache[name] = ms
    return _enum_cache[name]


def gen_table(tb):
    v = find_assign(tb.file, tb.name)
    if tb.kind == "strs":
        if isinstance(v, ast.Tuple) and all(isinstance(e, ast.Constant) and isinstance(e.value, str) for e in v.elts):
            vals = [e.value for e in v.elts]
            return "strs", vals, "Definition %s : list string :=\n [%s].\n" % (tb.coqname, "; ".join(qs(x) for x in vals))
        if isinstance(v, ast.Constant) and isinstance(v.value, str):
            # ("JUMPI") is a str, not a tuple: `x in W` is then a substring test
            return "str", v.value, "Definition %s : string := %s. (* a str, not a tuple: `in` is a substring test *)\n" % (tb.coqname, qs(v.value))
        raise Unsupported("%s:%d: table %s is not a tuple of string constants" % (tb.file, v.lineno, tb.name))
    if tb.kind == "dictZ":
        if not isinstance(v, ast.Dict):
            raise Unsupported("%s: %s is not a dict literal" % (tb.file, tb.name))
        items = {}
        for k, x in zip(v.keys, v.values):
            if not (isinstance(k, ast.Constant) and isinstance(k.value, str) and isinstance(x, ast.Constant)
                    and isinstance(x.value, int) and not isinstance(x.value, bool)):
                raise Unsupported("%s:%d: dict entry of %s is not str -> int" % (tb.file, getattr(k, "lineno", 0), tb.name))
            if k.value in items:
                raise Unsupported("%s: duplicate key %s in %s" % (tb.file, k.value, tb.name))
            items[k.value] = x.value
        body = "; ".join("(%s, %s)" % (qs(k), zlit(x)) for k, x in items.items())
        return "dictZ", items, "Definition %s : list (string * Z) :=\n [%s].\n" % (tb.coqname, body)
    if tb.kind == "arity":
        # opcodes = { name: [code, consumed, produced] }: keep (consumed, produced); later duplicates of a key
        # override earlier ones as in a Python dict literal
        if not isinstance(v, ast.Dict):
            raise Unsupported("%s: %s is not a dict literal" % (tb.file, tb.name))
        items = {}
        for k, x in zip(v.keys, v.values):
            ok = isinstance(k, ast.Constant) and isinstance(k.value, str) and isinstance(x, ast.List) and len(x.elts) == 3 \
                and all(isinstance(e, ast.Constant) and isinstance(e.value, int) for e in x.elts)
            if not ok:
                raise Unsupported("%s:%d: entry of %s is not str -> [int,int,int]" % (tb.file, getattr(k, "lineno", 0), tb.name))
            items[k.value] = (x.elts[1].value, x.elts[2].value)
        body = ";\n  ".join("(%s, (%s, %s))" % (qs(k), zlit(a), zlit(b)) for k, (a, b) in items.items())
        return "arity", items, "Definition %s : list (string * (Z * Z)) :=\n [%s].\n" % (tb.coqname, body)
    raise Unsupported("table kind " + tb.kind)


def gen_record(name):
    flds = RECORDS[name]
    return "Record %s := mk%s { %s }.\n" % (name, name, "; ".join("%s : %s" % (f, coq_ty(t)) for _, f, t in flds))


RECORD_HOME = {"BlockV": "Accept", "InstrV": "Accept", "Params": "Accept", "Item": "Push0", "UInstr": "Push0",
               "PushObj": "Push0", "BlockI": "CostTables"}
IMPORTS = {"Accept": [], "Push0": [], "CostTables": ["Push0"]}
# Accept's BlockV mentions Item: Accept imports Push0
IMPORTS["Accept"] = ["Push0"]
ORDER = ["Push0", "CostTables", "Accept"]

EXTRA = {
    "CostTables": "Fixpoint py_sum_opt (l : list (option Z)) : option Z :=\n"
                  "  match l with\n  | [] => Some 0\n  | None :: _ => None\n"
                  "  | Some x :: l' => match py_sum_opt l' with Some s => Some (x + s) | None => None end\n  end.\n"
                  "(* sum([...]) over values of which one raised: the first raise wins; the value is the sum *)\n",
}


# ---------------------------------------------------------------------------------------------
# Hand-written models (coq/Model/Cost.v) are pinned to the source they were written from: the sha1 of
# `ast.dump` of each function must be one of the recorded ones, otherwise generation fails closed
# ("hand model may be stale").  execute_asm has two recorded shapes: the shipped one, and the shipped
# one plus the repair proposed in proposals/C17/1.patch (an `elif instr_name == "PUSH0"` branch pushing
# "0"); which of the two is present is emitted as the constant execute_asm_push0_as_zero.
PINNED = [
    (ABL, None, "execute_asm"), (ABL, "AsmBlock", "gas_spent"), (UT, None, "compute_stack_size"),
    (OPC, None, "get_opcode"), (GA, None, "optimize_asm_in_asm_format"),
]
PINS = {     # name -> {sha1 of ast.dump (Python 3.12): variant}
    "execute_asm": {"e79c27022bcbc49c6add0e2db486cb1988bcce86": "shipped",
                    "81315e36fa1cd4efc705d0d2edc17e4b68f0868e": "push0-zero"},
    "AsmBlock.gas_spent": {"9d420a1794481b1faf12e9afa74f019abf68cf3d": "shipped"},
    "compute_stack_size": {"129fa3019ce43203119f9037999b82891ab8dc49": "shipped"},
    "get_opcode": {"058100ff7d4073b0b9d33d0113fce933ec143543": "shipped"},
    "optimize_asm_in_asm_format": {"30c1e4bb1a3fe2e94adb0cfa9184c4bac27cdca2": "shipped"},
}


def ast_sha(file, cls, name):
    import hashlib
    fn = Fn(file, name, [], "Z", cls=cls)
    return hashlib.sha1(ast.dump(find_def(fn)).encode()).hexdigest()


def pinned_flags():
    flags = {}
    for file, cls, name in PINNED:
        h = ast_sha(file, cls, name)
        key = (cls + "." if cls else "") + name
        known = PINS.get(key, {})
        if h not in known:
            raise Unsupported("%s: %s changed (ast sha1 %s is not a recorded shape): the hand-written model in "
                              "coq/Model/Cost.v may be stale" % (file, key, h))
        flags[key] = known[h]
    return flags


def generate(run=None, outdir=None):
    """Regenerate coq/Gen/{Push0,CostTables,Accept}.v from the working tree of REPO."""
    _parsed.clear()
    _enum_cache.clear()
    outdir = outdir or os.path.join(COQ, "Gen")
    os.makedirs(outdir, exist_ok=True)
    allfuncs = {}
    texts = {}
    for fname in ORDER:
        ctx = Ctx(fname)
        ctx.funcs = allfuncs
        out = ["(* GENERATED by gen/gen_cost.py from the working tree of the GASOL checkout -- do not edit.\n"
               "   Regenerated by every run of ./check C08 / ./check C17. *)\n", PRELUDE]
        for imp in IMPORTS[fname]:
            out.append("From GV Require Import Gen.%s.\n" % imp)
        for r, home in RECORD_HOME.items():
            if home == fname:
                out.append(gen_record(r))
        if fname in EXTRA:
            out.append(EXTRA[fname])
        if fname == "CostTables":
            fl = pinned_flags()
            out.append("(* which recorded shape of asm_block.execute_asm the checkout has (see gen_cost.PINNED) *)\n"
                       "Definition execute_asm_push0_as_zero : bool := %s.\n" % ("true" if fl["execute_asm"] == "push0-zero" else "false"))
        for item in FILES[fname]:
            if isinstance(item, Table):
                kind, val, txt = gen_table(item)
                ctx.tables[item.name] = (kind, item.coqname, val)
                out.append("(* %s: %s *)\n" % (item.file, item.name) + txt)
            else:
                tr = Tr(ctx, item)
                tr.ctx.tables = ctx.tables
                out.append(tr.run())
                allfuncs[item.coqname] = item
                if not item.cls and item.fields is None and not item.fragment:
                    allfuncs[item.name] = item
        texts[fname] = "\n".join(out)
    for fname, txt in texts.items():
        path = os.path.join(outdir, fname + ".v")
        old = open(path).read() if os.path.exists(path) else None
        if old != txt:
            with open(path, "w") as fh:
                fh.write(txt)
    if run is not None:
        run.log("generated Gen/{Push0,CostTables,Accept}.v from %s" % REPO)
    return texts


if __name__ == "__main__":
    try:
        generate(outdir=sys.argv[1] if len(sys.argv) > 1 else None)
    except Unsupported as e:
        print("GENERATION FAILED (fail closed):", e)
        sys.exit(1)
