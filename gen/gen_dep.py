"""Fail-closed translator for the constant-offset decision of `are_dependent`
(sfs_generator/gasol_optimization.py), property C02.

`are_dependent(t1, t2, idx1, idx2, location)` decides whether two memory/storage accesses of a block must
keep their order.  For accesses whose offsets are integer constants the answer is a pure function of the two
instruction names, the two offsets and (for KECCAK256) the length operand.  generate() re-reads the function on
every run and writes coq/Gen/DepConst.v:

    Definition are_dependent_const (ins1 ins2 : string) (a1 a2 : Z) (len1_sym len2_sym : bool) (len1 len2 : Z) : bool

obtained from the statements that follow `ins2 = t2[0][-1]` under the assumptions recorded below; the theorem
about it is in Model/DepConstProofs.v (hand-written, re-checked against the regenerated definition).

Assumptions (the part of the function that is NOT modelled):
  * `extra_dep_info == {}` (no result of the external non-aliasing analysis is supplied): the first `if` of the
    function, which may answer from that analysis, is skipped.  The translator checks that this `if` has exactly
    the guard `extra_dep_info != {} and not non_aliasing_disabled`.
  * both offsets are integer constants: `str(var1).startswith("s")`, `var1_str.startswith("s")` (and for var2) are
    False; branches guarded by them are dead and are not translated.
Accepted subset: If/elif/else chains whose leaves assign `dep`; and/or/not; comparisons < <= > >= == !=;
int(var1|var2|t1[0][1]|t2[0][1]); str(var1) == str(var2); str(t[0][1]).startswith("s"); insN.find("lit") != -1 / == -1;
abs(); + and - ; integer literals; the local names var1_int/var2_int/var1_str/var2_str and boolean locals altN.
Anything else raises.
"""
import ast
import os

VERIF = os.path.dirname(os.path.dirname(os.path.abspath(__file__)))
COQ = os.path.join(VERIF, "coq")


class Unsupported(Exception):
    pass


def repo():
    return os.environ.get("GASOL_REPO", "/repo")


TRUE, FALSE = ("const", True), ("const", False)


def fail(node, msg):
    raise Unsupported("are_dependent:%s: %s: %s" % (getattr(node, "lineno", "?"), msg, ast.dump(node)[:200]))


def is_name(n, s):
    return isinstance(n, ast.Name) and n.id == s


def sub_t(n):
    """t1[0][1] / t2[0][1] -> 1 / 2 ; else None"""
    if (isinstance(n, ast.Subscript) and isinstance(n.value, ast.Subscript) and isinstance(n.value.value, ast.Name)
            and n.value.value.id in ("t1", "t2") and isinstance(n.value.slice, ast.Constant) and n.value.slice.value == 0
            and isinstance(n.slice, ast.Constant) and n.slice.value == 1):
        return 1 if n.value.value.id == "t1" else 2
    return None


def zexpr(n):
    """integer expression -> Gallina text"""
    if isinstance(n, ast.Constant) and type(n.value) is int:
        return "%d" % n.value if n.value >= 0 else "(%d)" % n.value
    if isinstance(n, ast.Name) and n.id in ("var1_int", "var2_int"):
        return "a1" if n.id == "var1_int" else "a2"
    if isinstance(n, ast.Call) and is_name(n.func, "int") and len(n.args) == 1 and not n.keywords:
        a = n.args[0]
        if is_name(a, "var1"):
            return "a1"
        if is_name(a, "var2"):
            return "a2"
        k = sub_t(a)
        if k:
            return "len%d" % k
        fail(n, "int() of an unknown operand")
    if isinstance(n, ast.Call) and is_name(n.func, "abs") and len(n.args) == 1:
        return "(Z.abs %s)" % zexpr(n.args[0])
    if isinstance(n, ast.BinOp) and isinstance(n.op, (ast.Add, ast.Sub)):
        return "(%s %s %s)" % (zexpr(n.left), "+" if isinstance(n.op, ast.Add) else "-", zexpr(n.right))
    fail(n, "integer expression outside the accepted subset")


def is_str_of(n, var):
    return (isinstance(n, ast.Call) and is_name(n.func, "str") and len(n.args) == 1 and is_name(n.args[0], var)) or \
        is_name(n, var + "_str")


def bexpr(n, env=None):
    """boolean expression -> ('const', b) | ('g', gallina text); env: local boolean names"""
    env = env if env is not None else {}
    if isinstance(n, ast.Name) and n.id in env:
        return env[n.id]
    if isinstance(n, ast.BoolOp):
        parts = [bexpr(v, env) for v in n.values]
        if isinstance(n.op, ast.And):
            if FALSE in parts:
                return FALSE
            parts = [p for p in parts if p != TRUE]
            if not parts:
                return TRUE
            return ("g", "(" + " && ".join(p[1] for p in parts) + ")")
        if TRUE in parts:
            return TRUE
        parts = [p for p in parts if p != FALSE]
        if not parts:
            return FALSE
        return ("g", "(" + " || ".join(p[1] for p in parts) + ")")
    if isinstance(n, ast.UnaryOp) and isinstance(n.op, ast.Not):
        p = bexpr(n.operand, env)
        return ("const", not p[1]) if p[0] == "const" else ("g", "(negb %s)" % p[1])
    if isinstance(n, ast.Call) and isinstance(n.func, ast.Attribute) and n.func.attr == "startswith":
        if len(n.args) == 1 and isinstance(n.args[0], ast.Constant) and n.args[0].value == "s":
            tgt = n.func.value
            for v in ("var1", "var2"):
                if is_str_of(tgt, v):
                    return FALSE                       # constant offsets
            if isinstance(tgt, ast.Call) and is_name(tgt.func, "str") and len(tgt.args) == 1 and sub_t(tgt.args[0]):
                return ("g", "len%d_sym" % sub_t(tgt.args[0]))
        fail(n, "startswith on an unknown operand")
    if isinstance(n, ast.Compare) and len(n.ops) == 1:
        l, r, op = n.left, n.comparators[0], n.ops[0]
        # insN.find("lit") != -1   /   == -1
        if (isinstance(l, ast.Call) and isinstance(l.func, ast.Attribute) and l.func.attr == "find"
                and isinstance(l.func.value, ast.Name) and l.func.value.id in ("ins1", "ins2") and len(l.args) == 1
                and isinstance(l.args[0], ast.Constant) and isinstance(l.args[0].value, str)
                and isinstance(r, ast.UnaryOp) and isinstance(r.op, ast.USub) and isinstance(r.operand, ast.Constant)
                and r.operand.value == 1 and isinstance(op, (ast.NotEq, ast.Eq))):
            g = '(contains %s "%s"%%string)' % (l.func.value.id, l.args[0].value)
            return ("g", g if isinstance(op, ast.NotEq) else "(negb %s)" % g)
        # str(var1) == str(var2)
        if isinstance(op, ast.Eq) and is_str_of(l, "var1") and is_str_of(r, "var2"):
            return ("g", "(Z.eqb a1 a2)")
        # var1_str == "64" style tests only occur in dead (symbolic) branches
        ops = {ast.Lt: "Z.ltb", ast.LtE: "Z.leb", ast.Gt: "Z.gtb", ast.GtE: "Z.geb", ast.Eq: "Z.eqb"}
        for k, sym in ops.items():
            if isinstance(op, k):
                return ("g", "(%s %s %s)" % (sym, zexpr(l), zexpr(r)))
        if isinstance(op, ast.NotEq):
            return ("g", "(negb (Z.eqb %s %s))" % (zexpr(l), zexpr(r)))
    fail(n, "boolean expression outside the accepted subset")


def stmts(body, dep, env=None):
    """value of `dep` after the statement list, given its value before; env: local boolean names (alt1, alt2, ...)"""
    env = dict(env or {})
    for s in body:
        if isinstance(s, ast.Assign) and len(s.targets) == 1 and is_name(s.targets[0], "dep"):
            v = s.value
            if isinstance(v, ast.Constant) and isinstance(v.value, bool):
                dep = "true" if v.value else "false"
            else:
                p = bexpr(v, env)
                dep = ("true" if p[1] else "false") if p[0] == "const" else p[1]
        elif isinstance(s, ast.Assign):
            # local names of the integer case
            t = s.targets[0]
            txt = ast.unparse(s)
            if txt in ("var1_str = str(var1)", "var2_str = str(var2)", "var1_int, var2_int = (int(var1), int(var2))"):
                continue
            if len(s.targets) == 1 and isinstance(t, ast.Name) and t.id.startswith("alt"):
                env[t.id] = bexpr(s.value, env)
                continue
            fail(s, "assignment outside the accepted subset")
        elif isinstance(s, ast.If):
            t = bexpr(s.test, env)
            if t == TRUE:
                dep = stmts(s.body, dep, env)
            elif t == FALSE:
                dep = stmts(s.orelse, dep, env)
            else:
                dep = "(if %s\n   then %s\n   else %s)" % (t[1], stmts(s.body, dep, env), stmts(s.orelse, dep, env))
        elif isinstance(s, ast.Expr) and isinstance(s.value, ast.Constant) and isinstance(s.value.value, str):
            continue
        else:
            fail(s, "statement outside the accepted subset")
    return dep


def generate(run=None):
    path = os.path.join(repo(), "sfs_generator", "gasol_optimization.py")
    with open(path) as fh:
        mod = ast.parse(fh.read())
    fn = [n for n in mod.body if isinstance(n, ast.FunctionDef) and n.name == "are_dependent"]
    if len(fn) != 1:
        raise Unsupported("are_dependent: expected exactly one definition")
    fn = fn[0]
    if [a.arg for a in fn.args.args] != ["t1", "t2", "idx1", "idx2", "location"]:
        raise Unsupported("are_dependent: signature changed: %s" % [a.arg for a in fn.args.args])
    body = list(fn.body)
    # 1. dep = False
    if not (isinstance(body[0], ast.Assign) and ast.unparse(body[0]) == "dep = False"):
        fail(body[0], "first statement is not `dep = False`")
    # 2. the external-analysis block
    if not (isinstance(body[1], ast.If) and ast.unparse(body[1].test) == "extra_dep_info != {} and (not non_aliasing_disabled)"
            and not body[1].orelse):
        fail(body[1], "the guard of the external non-aliasing analysis changed")
    # 3. var1/ins1/var2/ins2
    want = ["var1 = t1[0][0]", "ins1 = t1[0][-1]", "var2 = t2[0][0]", "ins2 = t2[0][-1]"]
    got = [ast.unparse(s) for s in body[2:6]]
    if got != want:
        raise Unsupported("are_dependent: operand extraction changed: %s" % got)
    rest = body[6:]
    if not (isinstance(rest[-1], ast.Return) and is_name(rest[-1].value, "dep")):
        fail(rest[-1], "last statement is not `return dep`")
    dep = stmts(rest[:-1], "false")
    src = ast.unparse(fn)
    out = '''(* GENERATED by gen/gen_dep.py from sfs_generator/gasol_optimization.py:are_dependent (line %d). Do not edit.
   The decision for two accesses with integer-constant offsets, without information from the external analysis. *)
From Coq Require Import ZArith Bool String.
From GV Require Import Model.DepPrelude.
Local Open Scope Z_scope.

Definition are_dependent_const (ins1 ins2 : string) (a1 a2 : Z) (len1_sym len2_sym : bool) (len1 len2 : Z) : bool :=
  %s.
''' % (fn.lineno, dep)
    os.makedirs(os.path.join(COQ, "Gen"), exist_ok=True)
    p = os.path.join(COQ, "Gen", "DepConst.v")
    old = open(p).read() if os.path.exists(p) else None
    if old != out:
        with open(p, "w") as fh:
            fh.write(out)
    return {"lines": len(src.splitlines()), "file": p}


if __name__ == "__main__":
    print(generate())
    print(open(os.path.join(COQ, "Gen", "DepConst.v")).read())
