"""Fail-closed translator Python `ast` -> Gallina for the constant-folding and local-rule code of
GASOL (property C03).

    generate()  parses  $GASOL_REPO/sfs_generator/{gasol_optimization,utils}.py  and writes
        coq/Gen/CheckSize.v            get_num_bytes_int, check_size
        coq/Gen/Fold.v                 evaluate_expression, evaluate_expression_ter, unary folding
        coq/Gen/LocalRules.v           apply_transform: one definition per (opcode group, branch)
        coq/Gen/FoldObligations.v      one lemma per folded operator       (see gen_obligations)
        coq/Gen/LocalRulesObligations.v one lemma per (opcode, branch)

Anything outside the accepted subset raises `Unsupported` with the source location.  Idiom hints
are per function; a hint that is not used (does not match the AST) raises as well.
Python semantics are those of coq/Ref/PyInt.v.
"""
import ast
import hashlib
import json
import os

VERIF = os.path.dirname(os.path.dirname(os.path.abspath(__file__)))
COQ = os.path.join(VERIF, "coq")


def repo():
    return os.environ.get("GASOL_REPO", "/repo")


class Unsupported(Exception):
    pass


class Ctx:
    """Per-function translation context."""

    def __init__(self, fname, path, env, hints=None, globals_read=None, lim=False, funcs=None):
        self.fname, self.path = fname, path
        self.env = dict(env)                    # name -> type in {Z,bool,str,op,oplist}
        self.hints = dict(hints or {})          # ast.dump(expr) -> (gallina, type)
        self.used_hints = set()
        self.globals_read = dict(globals_read or {})   # global name -> (gallina, type)
        self.effect_globals = set()             # names declared `global` (may be += / assigned)
        self.lim = lim                          # function takes the resource bound `lim`
        self.funcs = dict(funcs or {})          # callable name -> (gallina name, [arg types], ret type, impure)
        self.tmp = 0

    def fail(self, node, msg):
        raise Unsupported("%s:%s:%s: in %s: %s: %s" % (
            self.path, getattr(node, "lineno", "?"), getattr(node, "col_offset", "?"), self.fname, msg,
            ast.dump(node)[:160]))

    def fresh(self):
        self.tmp += 1
        return "t%d" % self.tmp

    def check_hints_used(self):
        unused = set(self.hints) - self.used_hints
        if unused:
            raise Unsupported("%s: in %s: idiom hint does not match the AST any more: %s" % (
                self.path, self.fname, sorted(unused)[0][:200]))


def zlit(n):
    if abs(n) >= 2 ** 64:
        return "0x%x" % n if n >= 0 else "(-0x%x)" % -n
    return "%d" % n if n >= 0 else "(%d)" % n


def slit(s):
    if any(ord(c) < 32 or ord(c) > 126 for c in s):
        raise Unsupported("non-printable string literal %r" % s)
    return '"' + s.replace('"', '""') + '"%string'


def const_eval(node):
    """Value of a closed int expression made of literals and + - * ** ~ unary-, or None."""
    if isinstance(node, ast.Constant) and type(node.value) is int:
        return node.value
    if isinstance(node, ast.UnaryOp) and isinstance(node.op, (ast.USub, ast.Invert)):
        v = const_eval(node.operand)
        if v is None:
            return None
        return -v if isinstance(node.op, ast.USub) else ~v
    if isinstance(node, ast.BinOp) and isinstance(node.op, (ast.Add, ast.Sub, ast.Mult, ast.Pow)):
        a, b = const_eval(node.left), const_eval(node.right)
        if a is None or b is None:
            return None
        if isinstance(node.op, ast.Pow):
            if b < 0 or b > 4096 or abs(a) > 2 ** 64:
                return None
            return a ** b
        return {ast.Add: a + b, ast.Sub: a - b, ast.Mult: a * b}[type(node.op)]
    return None


# --------------------------------------------------------------------------------------
# expressions.  expr() returns (binders, code, type): `binders` is a list of (var, pyres-code)
# that must be bound (pybind, left to right = Python's evaluation order) around `code`.

PURE_BIN = {ast.Add: "+", ast.Sub: "-", ast.Mult: "*"}
BIT_BIN = {ast.BitAnd: "Z.land", ast.BitOr: "Z.lor", ast.BitXor: "Z.lxor"}
ZCMP = {ast.Eq: "=?", ast.Lt: "<?", ast.LtE: "<=?"}


def expr(cx, n):
    d = ast.dump(n)
    if d in cx.hints:
        cx.used_hints.add(d)
        code, ty = cx.hints[d]
        return [], code, ty
    if isinstance(n, ast.Constant):
        if type(n.value) is bool:
            return [], "true" if n.value else "false", "bool"
        if type(n.value) is int:
            return [], zlit(n.value), "Z"
        if type(n.value) is str:
            return [], slit(n.value), "str"
        cx.fail(n, "constant of unsupported type")
    if isinstance(n, ast.Name):
        if n.id in cx.env:
            return [], n.id, cx.env[n.id]
        if n.id in cx.globals_read:
            code, ty = cx.globals_read[n.id]
            return [], code, ty
        cx.fail(n, "unknown name (undeclared global read?)")
    if isinstance(n, ast.Subscript):
        b, code, ty = expr(cx, n.value)
        if ty == "oplist" and isinstance(n.slice, ast.Constant) and type(n.slice.value) is int and n.slice.value >= 0:
            return b, "(op_nth %d %s)" % (n.slice.value, code), "op"
        cx.fail(n, "subscript")
    if isinstance(n, ast.UnaryOp):
        b, code, ty = expr(cx, n.operand)
        if isinstance(n.op, ast.Not) and ty == "bool":
            return b, "(negb %s)" % code, "bool"
        if isinstance(n.op, ast.USub) and ty == "Z":
            return b, "(- %s)" % code, "Z"
        if isinstance(n.op, ast.Invert) and ty == "Z":
            return b, "(Z.lnot %s)" % code, "Z"
        cx.fail(n, "unary operator")
    if isinstance(n, ast.BoolOp):
        parts = [expr(cx, v) for v in n.values]
        if any(p[0] for p in parts) or any(p[2] != "bool" for p in parts):
            cx.fail(n, "and/or over non-boolean or raising operands")
        op = " && " if isinstance(n.op, ast.And) else " || "
        return [], "(" + op.join(p[1] for p in parts) + ")", "bool"
    if isinstance(n, ast.IfExp):
        bc, c, tc = expr(cx, n.test)
        ba, a, ta = expr(cx, n.body)
        bb, b, tb = expr(cx, n.orelse)
        if bc or ba or bb or tc != "bool":
            cx.fail(n, "conditional expression with raising parts")
        if ta != tb:
            if {ta, tb} == {"Z", "op"}:
                a, b = as_operand(a, ta), as_operand(b, tb)
                ta = "op"
            else:
                cx.fail(n, "conditional expression with branches of different type")
        return [], "(if %s then %s else %s)" % (c, a, b), ta
    if isinstance(n, ast.Compare):
        return compare(cx, n)
    if isinstance(n, ast.BinOp):
        return binop(cx, n)
    if isinstance(n, ast.Call):
        return call(cx, n)
    if isinstance(n, ast.JoinedStr):
        parts = []
        for v in n.values:
            if isinstance(v, ast.Constant) and type(v.value) is str:
                parts.append(slit(v.value))
            elif isinstance(v, ast.FormattedValue) and v.conversion == -1 and v.format_spec is None:
                b, code, ty = expr(cx, v.value)
                if b or ty != "str":
                    cx.fail(n, "f-string over a non-string value")
                parts.append(code)
            else:
                cx.fail(n, "f-string part")
        return [], sappend(parts), "str"
    if isinstance(n, (ast.List, ast.Tuple)):
        parts = [expr(cx, e) for e in n.elts]
        if parts and all(not p[0] and p[2] == "str" for p in parts):
            return [], "[" + "; ".join(p[1] for p in parts) + "]", "strlist"
        cx.fail(n, "list/tuple literal")
    cx.fail(n, "unsupported expression")


def sappend(parts):
    if not parts:
        return '""'
    code = parts[-1]
    for p in reversed(parts[:-1]):
        code = "(String.append %s %s)" % (p, code)
    return code


def as_operand(code, ty):
    if ty == "op":
        return code
    if ty == "Z":
        return "(OInt %s)" % code
    raise Unsupported("cannot use a value of type %s as an operand: %s" % (ty, code))


def compare(cx, n):
    if len(n.ops) != 1:
        cx.fail(n, "chained comparison")
    op = n.ops[0]
    bl, l, tl = expr(cx, n.left)
    br, r, tr = expr(cx, n.comparators[0])
    b = bl + br
    if isinstance(op, ast.In):
        if tr == "oplist" and tl in ("Z", "op"):
            return b, "(op_in %s %s)" % (as_operand(l, tl), r), "bool"
        if tr == "strlist" and tl == "str":
            return b, "(str_in %s %s)" % (l, r), "bool"
        cx.fail(n, "`in` over these types")
    neg = False
    if isinstance(op, ast.NotEq):
        op, neg = ast.Eq(), True
    if isinstance(op, ast.Gt):
        op, l, r, tl, tr = ast.Lt(), r, l, tr, tl
    elif isinstance(op, ast.GtE):
        op, l, r, tl, tr = ast.LtE(), r, l, tr, tl
    if type(op) not in ZCMP:
        cx.fail(n, "comparison operator")
    if tl == "Z" and tr == "Z":
        code = "(%s %s %s)" % (l, ZCMP[type(op)], r)
    elif isinstance(op, ast.Eq) and tl == "str" and tr == "str":
        code = "(String.eqb %s %s)" % (l, r)
    elif isinstance(op, ast.Eq) and "op" in (tl, tr) and {tl, tr} <= {"op", "Z"}:
        code = "(op_eq %s %s)" % (as_operand(l, tl), as_operand(r, tr))
    else:
        cx.fail(n, "comparison between %s and %s" % (tl, tr))
    return b, ("(negb %s)" % code) if neg else code, "bool"


def raising(cx, binders, code):
    """Bind the outcome of a possibly raising operation to a fresh variable."""
    v = cx.fresh()
    return binders + [(v, code)], v, "Z"


def need_lim(cx, n):
    if not cx.lim:
        cx.fail(n, "operation with unbounded result in a function translated without resource bound")


def binop(cx, n):
    bl, l, tl = expr(cx, n.left)
    br, r, tr = expr(cx, n.right)
    b = bl + br
    t = type(n.op)
    if tl == "str" and tr == "str" and t is ast.Add:
        return b, sappend([l, r]), "str"
    if tl != "Z" or tr != "Z":
        cx.fail(n, "arithmetic on %s and %s" % (tl, tr))
    if t in PURE_BIN:
        return b, "(%s %s %s)" % (l, PURE_BIN[t], r), "Z"
    if t in BIT_BIN:
        return b, "(%s %s %s)" % (BIT_BIN[t], l, r), "Z"
    cr = const_eval(n.right)
    if t is ast.Pow:
        cl = const_eval(n.left)
        if cl is not None and cr is not None and const_eval(n) is not None:
            return b, "(%s ^ %s)" % (l, r), "Z"
        need_lim(cx, n)
        return raising(cx, b, "py_pow lim %s %s" % (l, r))
    if t is ast.Mod:
        if cr is not None and cr != 0:
            return b, "(%s mod %s)" % (l, r), "Z"
        return raising(cx, b, "py_mod %s %s" % (l, r))
    if t is ast.FloorDiv:
        if cr is not None and cr != 0:
            return b, "(%s / %s)" % (l, r), "Z"
        return raising(cx, b, "py_floordiv %s %s" % (l, r))
    if t is ast.RShift:
        return raising(cx, b, "py_rshift %s %s" % (l, r))
    if t is ast.LShift:
        need_lim(cx, n)
        return raising(cx, b, "py_lshift lim %s %s" % (l, r))
    cx.fail(n, "binary operator (a bare `/` is accepted only directly under math.floor)")


def call(cx, n):
    if n.keywords:
        cx.fail(n, "keyword arguments")
    f = n.func
    # math.floor(a / b)
    if isinstance(f, ast.Attribute) and isinstance(f.value, ast.Name) and f.value.id == "math" and f.attr == "floor":
        a = n.args[0] if len(n.args) == 1 else None
        if isinstance(a, ast.BinOp) and isinstance(a.op, ast.Div):
            bl, l, tl = expr(cx, a.left)
            br, r, tr = expr(cx, a.right)
            if tl == "Z" and tr == "Z":
                return raising(cx, bl + br, "py_truediv_floor %s %s" % (l, r))
        cx.fail(n, "math.floor of something else than int/int")
    if not isinstance(f, ast.Name):
        cx.fail(n, "call of a non-name")
    if f.id == "isinstance" and len(n.args) == 2 and isinstance(n.args[1], ast.Name) and n.args[1].id == "int":
        args = [expr(cx, n.args[0]), ([], "int", "type")]
    else:
        args = [expr(cx, a) for a in n.args]
    b = [x for a in args for x in a[0]]
    tys = [a[2] for a in args]
    cs = [a[1] for a in args]
    if f.id == "int" and tys == ["Z"]:
        return b, cs[0], "Z"
    if f.id == "int" and tys == ["op"]:
        return b, "(as_int %s)" % cs[0], "Z"
    if f.id == "isinstance" and tys == ["op", "type"]:
        return b, "(is_int %s)" % cs[0], "bool"
    if f.id in ("max", "min") and tys == ["Z", "Z"]:
        return b, "(Z.%s %s %s)" % (f.id, cs[0], cs[1]), "Z"
    if f.id == "pow" and tys == ["Z", "Z", "Z"]:
        return raising(cx, b, "py_powmod %s %s %s" % tuple(cs))
    if f.id in cx.funcs:
        g, atys, rty, impure = cx.funcs[f.id]
        if tys != atys:
            cx.fail(n, "call of %s with argument types %s" % (f.id, tys))
        code = "(%s %s)" % (g, " ".join(cs))
        if impure:
            return raising(cx, b, code[1:-1])
        return b, code, rty
    cx.fail(n, "call of an untranslated function")


def wrap_pyres(binders, code, ty):
    """pyres-typed term for `return <expr>` of an int."""
    if ty == "bool":
        raise Unsupported("returning a bool from an int function")
    if binders and code == binders[-1][0]:
        term = binders[-1][1]
        binders = binders[:-1]
    else:
        term = "PyOk %s" % code
    for v, c in reversed(binders):
        term = "pybind (%s) (fun %s => %s)" % (c, v, term)
    return term


# --------------------------------------------------------------------------------------
# statements.  `H` supplies: H.ret(cx, stmt, st) -> term for a return, H.none -> term for falling
# off the end, H.other(cx, stmt, st) -> new state or None for statements it handles itself
# (effects on globals); `st` is an immutable per-path state threaded through.

class PyresH:
    """int-returning functions (evaluate_expression & co): result type pyres"""
    none = "PyNone"

    def ret(self, cx, s, st):
        if s.value is None:
            return "PyNone"
        b, code, ty = expr(cx, s.value)
        if ty != "Z":
            cx.fail(s, "return of a non-int")
        return wrap_pyres(b, code, ty)

    def other(self, cx, s, st):
        return None

    def bind(self, binders, term, ind):
        for v, c in reversed(binders):
            term = "pybind (%s) (fun %s =>\n%s%s)" % (c, v, ind, term)
        return term


def stmts(cx, body, H, st=None, ind="  "):
    if not body:
        return H.none
    s, rest = body[0], body[1:]
    if isinstance(s, ast.Return):
        return H.ret(cx, s, st)
    st2 = H.other(cx, s, st)
    if st2 is not None:
        return stmts(cx, rest, H, st2, ind)
    if (isinstance(s, ast.Assign) and len(s.targets) == 1 and isinstance(s.targets[0], ast.Tuple)
            and isinstance(s.value, ast.Call) and isinstance(s.value.func, ast.Name)
            and s.value.func.id == "all_integers" and "all_integers" in cx.funcs):
        # r, val = all_integers(l): (True, [int(v) for v in l]) when every element converts, else (False, l)
        tg = s.targets[0].elts
        if len(tg) != 2 or not all(isinstance(t, ast.Name) for t in tg) or len(s.value.args) != 1:
            cx.fail(s, "all_integers idiom")
        b, code, ty = expr(cx, s.value.args[0])
        if b or ty != "oplist":
            cx.fail(s, "all_integers over something else than an operand list")
        cx.env[tg[0].id], cx.env[tg[1].id] = "bool", "oplist"
        return "let %s := all_integers %s in\n%slet %s := %s in\n%s%s" % (
            tg[0].id, code, ind, tg[1].id, code, ind, stmts(cx, rest, H, st, ind))
    if isinstance(s, ast.Assign) and len(s.targets) == 1 and isinstance(s.targets[0], ast.Name):
        name = s.targets[0].id
        if name in cx.effect_globals or name in cx.globals_read:
            cx.fail(s, "assignment to a global")
        b, code, ty = expr(cx, s.value)
        if ty not in ("Z", "bool", "str", "op", "oplist"):
            cx.fail(s, "assignment of a value of type %s" % ty)
        cx.env[name] = ty
        term = "let %s := %s in\n%s%s" % (name, code, ind, stmts(cx, rest, H, st, ind))
        return H.bind(b, term, ind)
    if isinstance(s, ast.If):
        bc, c, tc = expr(cx, s.test)
        if bc or tc != "bool":
            cx.fail(s, "if-test that can raise or is not boolean")
        if rest and not always_returns(s.body):
            cx.fail(s, "statements after an if whose body may fall through")
        saved = dict(cx.env)
        a = stmts(cx, s.body, H, st, ind + "  ")
        cx.env = dict(saved)
        e = stmts(cx, list(s.orelse) + list(rest), H, st, ind + "  ")
        cx.env = saved
        return "if %s then\n%s  %s\n%selse\n%s  %s" % (c, ind, a, ind, ind, e)
    cx.fail(s, "unsupported statement")


def always_returns(body):
    if not body:
        return False
    s = body[-1]
    if isinstance(s, ast.Return):
        return True
    if isinstance(s, ast.If):
        return always_returns(s.body) and always_returns(s.orelse)
    return False


def dispatch_chain(cx, node, param):
    """Top-level `if param == "a" [or param == "b"]: ... elif ...` chain.
    Returns list of ([literals], body) and the final else body (or None)."""
    out = []
    while True:
        lits = []
        tests = node.test.values if isinstance(node.test, ast.BoolOp) and isinstance(node.test.op, ast.Or) else [node.test]
        for t in tests:
            if (isinstance(t, ast.Compare) and len(t.ops) == 1 and isinstance(t.ops[0], ast.Eq)
                    and isinstance(t.left, ast.Name) and t.left.id == param
                    and isinstance(t.comparators[0], ast.Constant) and type(t.comparators[0].value) is str):
                lits.append(t.comparators[0].value)
            else:
                cx.fail(t, "dispatch test is not `%s == <string literal>`" % param)
        out.append((lits, node.body))
        if len(node.orelse) == 1 and isinstance(node.orelse[0], ast.If):
            node = node.orelse[0]
        elif not node.orelse:
            return out, None
        else:
            return out, node.orelse


def lit_test(param, lits):
    return " || ".join("String.eqb %s %s" % (param, slit(l)) for l in lits)


# --------------------------------------------------------------------------------------
# source access

class Source:
    def __init__(self, relpath):
        self.path = os.path.join(repo(), relpath)
        with open(self.path) as fh:
            self.text = fh.read()
        self.tree = ast.parse(self.text, self.path)
        self.funcs = {}
        for n in self.tree.body:
            if isinstance(n, ast.FunctionDef):
                if n.name in self.funcs:
                    raise Unsupported("%s: function %s defined twice" % (self.path, n.name))
                self.funcs[n.name] = n

    def func(self, name, params=None):
        if name not in self.funcs:
            raise Unsupported("%s: function %s not found" % (self.path, name))
        f = self.funcs[name]
        a = f.args
        if a.vararg or a.kwarg or a.kwonlyargs or a.posonlyargs or f.decorator_list:
            raise Unsupported("%s:%d: %s: unsupported signature" % (self.path, f.lineno, name))
        got = [x.arg for x in a.args]
        if params is not None and got != params:
            raise Unsupported("%s:%d: %s: parameters are %s, expected %s" % (self.path, f.lineno, name, got, params))
        return f

    def fingerprint(self, name):
        return hashlib.sha256(ast.dump(self.func(name)).encode()).hexdigest()[:16]


def body_without_docstring_and_globals(cx, f):
    body = list(f.body)
    if body and isinstance(body[0], ast.Expr) and isinstance(body[0].value, ast.Constant) and type(body[0].value.value) is str:
        body = body[1:]
    while body and isinstance(body[0], ast.Global):
        cx.effect_globals |= set(body[0].names)
        body = body[1:]
    for s in ast.walk(f):
        if isinstance(s, ast.Global) and s not in f.body:
            cx.fail(s, "nested global declaration")
    return body


HEADER = """(* GENERATED by gen/gen_fold.py from %s -- do not edit.
   Regenerated on every run of ./check C03; the committed copy is a snapshot. *)
From Coq Require Import ZArith Bool String List.
Import ListNotations.
From GV Require Import Ref.PyInt.
%sLocal Open Scope Z_scope.
Local Open Scope bool_scope.

"""

# fingerprints of functions used through an idiom hint (Ref/PyInt.v gives their model)
FINGERPRINTS = {
    "number_encoding_size": "PyInt.number_encoding_size",
    "all_integers": "PyInt.all_integers",
}
FINGERPRINT_VALUES = {
    # sha256(ast.dump(def))[:16] of the functions whose model is hand-written in Ref/PyInt.v
    "number_encoding_size": "361e473d8943af5d",
    "all_integers": "fe5dc88a0813017b",
}

MANGLE = {"+": "add", "-": "sub", "*": "mul", "/": "div", "^": "exp", "%": "mod"}


def mangle(op):
    if op in MANGLE:
        return MANGLE[op]
    if op.isalnum():
        return op
    return "x" + op.encode().hex()


def check_fingerprints(utils):
    for name, want in FINGERPRINT_VALUES.items():
        got = utils.fingerprint(name)
        if got != want:
            raise Unsupported("%s: %s changed (AST fingerprint %s, hint was written for %s): its hand-written "
                              "model %s must be reviewed" % (utils.path, name, got, want, FINGERPRINTS[name]))


def find_assign_const_global(src, fname, gname):
    """The closed int-list value assigned to global `gname` inside function `fname`
    (e.g. int_not0 = [-1+2**256] in smt_translate_block); exactly one assignment in the module
    besides the module-level initialisation to []."""
    found = []
    for n in ast.walk(src.tree):
        if isinstance(n, ast.Assign) and len(n.targets) == 1 and isinstance(n.targets[0], ast.Name) and n.targets[0].id == gname:
            found.append(n)
        elif isinstance(n, (ast.AugAssign, ast.AnnAssign)) and isinstance(n.target, ast.Name) and n.target.id == gname:
            raise Unsupported("%s:%d: %s is updated in place" % (src.path, n.lineno, gname))
    inside = [n for n in ast.walk(src.func(fname)) if n in found]
    outside = [n for n in found if n not in inside]
    for n in outside:
        if not (isinstance(n.value, ast.List) and not n.value.elts):
            raise Unsupported("%s:%d: unexpected assignment to %s" % (src.path, n.lineno, gname))
    if len(inside) != 1 or not isinstance(inside[0].value, ast.List):
        raise Unsupported("%s: expected exactly one list assignment to %s in %s" % (src.path, gname, fname))
    vals = [const_eval(e) for e in inside[0].value.elts]
    if any(v is None for v in vals):
        raise Unsupported("%s:%d: %s is not a list of closed int expressions" % (src.path, inside[0].lineno, gname))
    for n in ast.walk(src.tree):   # no .append / mutation through methods
        if isinstance(n, ast.Attribute) and isinstance(n.value, ast.Name) and n.value.id == gname:
            raise Unsupported("%s:%d: method call on %s" % (src.path, n.lineno, gname))
    return vals


# --------------------------------------------------------------------------------------
# Gen/CheckSize.v

class CheckSizeH(PyresH):
    none = "(false, CSNone)"

    def ret(self, cx, s, st):
        v = s.value
        if (isinstance(v, ast.Tuple) and len(v.elts) == 2 and isinstance(v.elts[0], ast.Constant)
                and type(v.elts[0].value) is bool and isinstance(v.elts[1], ast.Name)):
            second = {"expression": "CSNew expression", "exp_without": "CSOld"}.get(v.elts[1].id)
            if second:
                return "(%s, %s)" % ("true" if v.elts[0].value else "false", second)
        cx.fail(s, "check_size: return is not (True|False, expression|exp_without)")

    def bind(self, binders, term, ind):
        if binders:
            raise Unsupported("check_size: raising operation")
        return term


def gen_checksize(opt, utils):
    check_fingerprints(utils)
    out = [HEADER % ("sfs_generator/utils.py (get_num_bytes_int) and sfs_generator/gasol_optimization.py (check_size)", "")]
    f = utils.func("get_num_bytes_int", ["val"])
    cx = Ctx("get_num_bytes_int", utils.path, {"val": "Z"},
             funcs={"number_encoding_size": ("number_encoding_size", ["Z"], "Z", False)})
    body = body_without_docstring_and_globals(cx, f)
    if len(body) != 1 or not isinstance(body[0], ast.Return):
        cx.fail(f, "expected a single return")
    b, code, ty = expr(cx, body[0].value)
    if b or ty != "Z":
        cx.fail(f, "expected a pure int expression")
    out.append("Definition get_num_bytes_int (val : Z) : Z :=\n  %s.\n\n" % code)

    f = opt.func("check_size", ["exp_without", "expression"])
    sub = lambda k: ast.dump(ast.parse("exp_without[%d]" % k, mode="eval").body)
    cx = Ctx("check_size", opt.path, {"expression": "Z"},
             hints={ast.dump(ast.parse("exp_without != expression", mode="eval").body): ("true", "bool"),
                    sub(0): ("exp_without_0", "Z"), sub(1): ("exp_without_1", "Z")},
             funcs={"get_num_bytes_int": ("get_num_bytes_int", ["Z"], "Z", False)})
    body = body_without_docstring_and_globals(cx, f)
    term = stmts(cx, body, CheckSizeH())
    cx.check_hints_used()
    out.append("(* exp_without is the triple (v0, v1, funct) and expression an int, so the Python test\n"
               "   `exp_without != expression` (tuple vs int) is always True; the second component of the\n"
               "   result is either the new int (CSNew) or the untouched triple (CSOld). *)\n"
               "Inductive cs_expr : Type := CSNew (z : Z) | CSOld | CSNone.\n\n"
               "Definition check_size (exp_without_0 exp_without_1 : Z) (expression : Z) : bool * cs_expr :=\n  %s.\n\n"
               "#[export] Hint Unfold get_num_bytes_int check_size : gen_size.\n" % term)
    return "".join(out)


# --------------------------------------------------------------------------------------
# Gen/Fold.v

def gen_dispatch_pyres(src, fname, params, out, info):
    """int function that is one if-chain over its first parameter (a string)."""
    f = src.func(fname, params)
    cx = Ctx(fname, src.path, {params[0]: "str", **{p: "Z" for p in params[1:]}}, lim=True)
    body = body_without_docstring_and_globals(cx, f)
    if cx.effect_globals:
        cx.fail(f, "global declaration in a pure function")
    if len(body) != 1 or not isinstance(body[0], ast.If):
        cx.fail(f, "body is not a single if-chain")
    chain, final = dispatch_chain(cx, body[0], params[0])
    zs = " ".join(params[1:])
    sig = "(lim : Z) (%s : Z)" % zs
    seen = set()
    disp = []
    for k, (lits, bbody) in enumerate(chain, 1):
        bx = Ctx(fname, src.path, {p: "Z" for p in params[1:]}, lim=True)
        term = stmts(bx, bbody, PyresH())
        out.append("(* %s:%d  %s *)\nDefinition %s_%d %s : pyres :=\n  %s.\n\n" % (
            os.path.basename(src.path), bbody[0].lineno, " or ".join("%s == %r" % (params[0], l) for l in lits),
            fname, k, sig, term))
        disp.append("if %s then %s_%d lim %s" % (lit_test(params[0], lits), fname, k, zs))
        for l in lits:
            if l not in seen:     # a later branch with the same literal is dead code
                seen.add(l)
                info.append({"fn": fname, "op": l, "k": k, "arity": len(params) - 1, "line": bbody[0].lineno})
    if final is not None:
        bx = Ctx(fname, src.path, {p: "Z" for p in params}, lim=True)
        bx.env[params[0]] = "str"
        last = stmts(bx, final, PyresH())
    else:
        last = "PyNone"
    out.append("Definition %s (lim : Z) (%s : string) (%s : Z) : pyres :=\n  %s\n  else %s.\n\n" % (
        fname, params[0], zs, "\n  else ".join(disp), last))
    out.append("#[export] Hint Unfold %s %s : gen_fold.\n\n" % (fname, " ".join("%s_%d" % (fname, k) for k in range(1, len(chain) + 1))))


def find_ifs(node, pred):
    return [n for n in ast.walk(node) if isinstance(n, ast.If) and pred(n.test)]


def is_name_eq_lit(name, lit):
    want = ast.dump(ast.parse("%s == %r" % (name, lit), mode="eval").body)
    return lambda t: ast.dump(t) == want


def gen_unary(opt, out):
    """update_unary_func: the folding of `not` and `iszero` on an int argument.  The function is a
    state-updating routine; only the arithmetic is translated, located by shape:
      if func == "not":   val_end = <e>   [ if size_flag: <assignments>; if <test>: ... ]
      elif func == "iszero": aux = int(val); val_end = <e>"""
    f = opt.func("update_unary_func", ["func", "var", "val", "evaluate"])
    nots = find_ifs(f, is_name_eq_lit("func", "not"))
    nots = [n for n in nots if n.body and isinstance(n.body[0], ast.Assign)]
    if len(nots) != 1:
        raise Unsupported("%s:%d: update_unary_func: expected one `if func == \"not\":` starting with an assignment" % (opt.path, f.lineno))
    n = nots[0]
    funcs = {"get_num_bytes_int": ("get_num_bytes_int", ["Z"], "Z", False)}
    cx = Ctx("update_unary_func", opt.path, {"val": "Z"}, funcs=funcs)

    def assign(s, want=None):
        if not (isinstance(s, ast.Assign) and len(s.targets) == 1 and isinstance(s.targets[0], ast.Name)):
            cx.fail(s, "expected a simple assignment")
        if want and s.targets[0].id != want:
            cx.fail(s, "expected an assignment to %s" % want)
        b, code, ty = expr(cx, s.value)
        if b or ty != "Z":
            cx.fail(s, "expected a pure int expression")
        cx.env[s.targets[0].id] = "Z"
        return s.targets[0].id, code
    _, code = assign(n.body[0], "val_end")
    out.append("(* %s:%d  func == \"not\" *)\nDefinition fold_not (val : Z) : Z :=\n  %s.\n\n" % (
        os.path.basename(opt.path), n.body[0].lineno, code))
    if not (len(n.body) == 2 and isinstance(n.body[1], ast.If) and ast.dump(n.body[1].test) == ast.dump(ast.Name("size_flag", ast.Load()))):
        cx.fail(n, "expected `if size_flag:` after the assignment of val_end")
    lets = []
    gate = None
    for s in n.body[1].body:
        if isinstance(s, ast.Assign):
            lets.append(assign(s))
        elif isinstance(s, ast.If) and gate is None:
            b, c, ty = expr(cx, s.test)
            if b or ty != "bool":
                cx.fail(s, "size test")
            gate = c
            if not any(isinstance(x, ast.Assign) and ast.dump(x.value) == ast.dump(ast.Name("val_end", ast.Load())) for x in s.body):
                cx.fail(s, "the accepting branch of the size test does not store val_end")
        else:
            cx.fail(s, "unexpected statement in the size gate")
    if gate is None:
        cx.fail(n, "no size test")
    out.append("(* size mode: the folded NOT is used only when this holds *)\n"
               "Definition fold_not_size_ok (val : Z) : bool :=\n  let val_end := fold_not val in\n  %s%s.\n\n" % (
                   "".join("let %s := %s in\n  " % l for l in lets), gate))
    # the else branch of `if size_flag` must store val_end unconditionally
    if not any(isinstance(x, ast.Assign) and ast.dump(x.value) == ast.dump(ast.Name("val_end", ast.Load())) for x in n.body[1].orelse):
        cx.fail(n, "without size_flag the folded value is not stored")
    isz = [m for m in find_ifs(f, is_name_eq_lit("func", "iszero")) if m.body and isinstance(m.body[0], ast.Assign)]
    if len(isz) != 1:
        raise Unsupported("%s:%d: update_unary_func: expected one `func == \"iszero\"` branch" % (opt.path, f.lineno))
    m = isz[0]
    cx = Ctx("update_unary_func", opt.path, {"val": "Z"}, funcs=funcs)
    name, c1 = assign(m.body[0])
    _, c2 = assign(m.body[1], "val_end")
    out.append("(* %s:%d  func == \"iszero\" *)\nDefinition fold_iszero (val : Z) : Z :=\n  let %s := %s in\n  %s.\n\n" % (
        os.path.basename(opt.path), m.body[0].lineno, name, c1, c2))


def call_shape(fn, *args):
    return ast.dump(ast.parse("%s(%s)" % (fn, ", ".join(args)), mode="eval").body)


def check_callers(opt):
    """Structural assertions about compute_binary / compute_ternary (not translated: they update
    a dozen globals): which operands reach evaluate_expression and in which order, that the result
    is used unreduced (`str(val)`), and how check_size gates it.  Any change raises."""
    cb = opt.func("compute_binary", ["expression", "level"])
    dumps = [ast.dump(n) for n in ast.walk(cb)]
    want = {
        "v0 = expression[0]": ast.dump(ast.parse("v0 = expression[0]").body[0]),
        "v1 = expression[1]": ast.dump(ast.parse("v1 = expression[1]").body[0]),
        "r, vals = all_integers([v0,v1])": ast.dump(ast.parse("r, vals = all_integers([v0,v1])").body[0]),
        "val = evaluate_expression(funct,vals[0],vals[1])": ast.dump(ast.parse("val = evaluate_expression(funct,vals[0],vals[1])").body[0]),
        "r, exp = check_size(expression,val)": ast.dump(ast.parse("r, exp = check_size(expression,val)").body[0]),
        "return True, str(val)": ast.dump(ast.parse("return True, str(val)").body[0]),
    }
    for k, d in want.items():
        if dumps.count(d) != 1:
            raise Unsupported("%s:%d: compute_binary: expected exactly one `%s`" % (opt.path, cb.lineno, k))
    folded = None
    for n in ast.walk(cb):
        if (isinstance(n, ast.Compare) and isinstance(n.ops[0], ast.In) and isinstance(n.left, ast.Name)
                and n.left.id == "funct" and isinstance(n.comparators[0], ast.List) and len(n.comparators[0].elts) > 9):
            folded = [e.value for e in n.comparators[0].elts]
    if folded is None:
        raise Unsupported("%s:%d: compute_binary: list of folded operators not found" % (opt.path, cb.lineno))
    ct = opt.func("compute_ternary", ["expression"])
    dumps = [ast.dump(n) for n in ast.walk(ct)]
    want = {
        "val = evaluate_expression_ter(funct,vals[0],vals[1],vals[2])": ast.dump(ast.parse("val = evaluate_expression_ter(funct,vals[0],vals[1],vals[2])").body[0]),
        "r, vals = all_integers([v0,v1,v2])": ast.dump(ast.parse("r, vals = all_integers([v0,v1,v2])").body[0]),
        "return True, str(val)": ast.dump(ast.parse("return True, str(val)").body[0]),
    }
    for k, d in want.items():
        if dumps.count(d) != 1:
            raise Unsupported("%s:%d: compute_ternary: expected exactly one `%s`" % (opt.path, ct.lineno, k))
    folded3 = None
    for n in ast.walk(ct):
        if (isinstance(n, ast.Compare) and isinstance(n.ops[0], ast.In) and isinstance(n.left, ast.Name)
                and n.left.id == "funct" and isinstance(n.comparators[0], ast.List)):
            folded3 = [e.value for e in n.comparators[0].elts]
    if folded3 is None:
        raise Unsupported("%s:%d: compute_ternary: list of folded operators not found" % (opt.path, ct.lineno))
    return folded, folded3


def gen_fold(opt, info):
    out = [HEADER % ("sfs_generator/gasol_optimization.py (evaluate_expression, evaluate_expression_ter, update_unary_func)",
                     "From GV Require Import Gen.CheckSize.\n")]
    gen_dispatch_pyres(opt, "evaluate_expression", ["funct", "val0", "val1"], out, info)
    gen_dispatch_pyres(opt, "evaluate_expression_ter", ["funct", "val0", "val1", "val2"], out, info)
    gen_unary(opt, out)
    folded2, folded3 = check_callers(opt)
    out.append("(* operators that compute_binary / compute_ternary fold (the `funct in [...]` guards);\n"
               "   compute_binary calls evaluate_expression(funct, vals[0], vals[1]) with vals[0] the top of the\n"
               "   stack, and uses the result unreduced (`str(val)`). *)\n")
    out.append("Definition folded_binary : list string := [%s].\n" % "; ".join(slit(x) for x in folded2))
    out.append("Definition folded_ternary : list string := [%s].\n\n" % "; ".join(slit(x) for x in folded3))
    out.append("Definition fold2 (lim : Z) (funct : string) (val0 val1 : Z) : pyres :=\n"
               "  if str_in funct folded_binary then evaluate_expression lim funct val0 val1 else PyNone.\n"
               "Definition fold3 (lim : Z) (funct : string) (val0 val1 val2 : Z) : pyres :=\n"
               "  if str_in funct folded_ternary then evaluate_expression_ter lim funct val0 val1 val2 else PyNone.\n"
               "#[export] Hint Unfold fold2 fold3 folded_binary folded_ternary fold_not fold_not_size_ok fold_iszero : gen_fold.\n")
    return "".join(out), folded2, folded3


# --------------------------------------------------------------------------------------
# Gen/LocalRules.v

EFFECT_FIELDS = ["discount_op", "saved_push", "gas_saved_op"]


class RuleH:
    """apply_transform: result type rule_res; `only` selects one return (leaf) and turns the
    others into NoRule."""
    none = "RuleNone"

    def __init__(self, only=None):
        self.only = only
        self.leaves = []          # (k, lineno, source of the returned expression)

    def other(self, cx, s, st):
        st = st or ((0, 0, 0), '""')
        if isinstance(s, ast.AugAssign) and isinstance(s.target, ast.Name) and s.target.id in cx.effect_globals:
            if s.target.id not in EFFECT_FIELDS or not isinstance(s.op, ast.Add) or const_eval(s.value) is None:
                cx.fail(s, "update of a global other than `discount_op|saved_push|gas_saved_op += <int literal>`")
            inc = list(st[0])
            inc[EFFECT_FIELDS.index(s.target.id)] += const_eval(s.value)
            return (tuple(inc), st[1])
        if isinstance(s, ast.Assign) and len(s.targets) == 1 and isinstance(s.targets[0], ast.Name) \
                and s.targets[0].id in cx.effect_globals:
            if s.targets[0].id != "rule":
                cx.fail(s, "assignment to a global other than `rule`")
            b, code, ty = expr(cx, s.value)
            if b or ty != "str":
                cx.fail(s, "rule name is not a string expression")
            return (st[0], code)
        if isinstance(s, (ast.AugAssign, ast.AnnAssign)):
            cx.fail(s, "augmented assignment to a non-global")
        return None

    def ret(self, cx, s, st):
        st = st or ((0, 0, 0), '""')
        if s.value is None:
            return "RuleNone"
        if const_eval(s.value) == -1:
            return "NoRule"
        b, code, ty = expr(cx, s.value)
        if b or ty not in ("Z", "op"):
            cx.fail(s, "returned value is not an operand")
        k = len(self.leaves) + 1
        self.leaves.append((k, s.lineno, ast.unparse(s.value), st))
        if self.only is not None and self.only != k:
            return "NoRule"
        return "Replace %s (mkEff %s %s %s %s)" % (as_operand(code, ty), zlit(st[0][0]), zlit(st[0][1]), zlit(st[0][2]), st[1])

    def bind(self, binders, term, ind):
        if binders:
            raise Unsupported("apply_transform: operation that can raise")
        return term


def cmt(s):
    return s.replace("(*", "( *").replace("*)", "* )").replace('"', "'")


def gen_localrules(opt, utils, groups_info):
    check_fingerprints(utils)
    f = opt.func("apply_transform", ["instr"])
    int_not0 = find_assign_const_global(opt, "smt_translate_block", "int_not0")
    sub = lambda k: ast.dump(ast.parse('instr["%s"]' % k, mode="eval").body)
    hints = {sub("disasm"): ("opcode_in", "str"), sub("inpt_sk"): ("inpt_sk", "oplist")}

    def mk(env):
        cx = Ctx("apply_transform", opt.path, env, hints=hints,
                 globals_read={"size_flag": ("size_flag", "bool"), "int_not0": ("int_not0", "oplist")},
                 funcs={"get_num_bytes_int": ("get_num_bytes_int", ["Z"], "Z", False), "all_integers": None})
        return cx
    cx = mk({})
    body = body_without_docstring_and_globals(cx, f)
    globs = set(cx.effect_globals)
    if not globs <= set(EFFECT_FIELDS + ["rule"]):
        cx.fail(f, "unexpected global declarations %s" % sorted(globs))
    if not (len(body) == 2 and isinstance(body[0], ast.Assign) and ast.dump(body[0]) == ast.dump(ast.parse('opcode = instr["disasm"]').body[0])
            and isinstance(body[1], ast.If)):
        cx.fail(f, "expected `opcode = instr[\"disasm\"]` followed by one if-chain")
    chain, final = dispatch_chain(cx, body[1], "opcode")
    if final is not None:
        cx.fail(body[1], "final else of the opcode dispatch")
    out = [HEADER % ("sfs_generator/gasol_optimization.py (apply_transform; int_not0 from smt_translate_block)",
                     "From GV Require Import Gen.CheckSize.\n")]
    out.append("(* module global int_not0, assigned once in smt_translate_block *)\n"
               "Definition int_not0 : list operand := [%s].\n\n" % "; ".join("OInt %s" % zlit(v) for v in int_not0))
    sig = "(size_flag : bool) (opcode : string) (inpt_sk : list operand) : rule_res"
    disp, seen, used = [], set(), set()
    for lits, gbody in chain:
        gname = "_".join(lits)
        H = RuleH()
        gx = mk({"opcode": "str"})
        gx.effect_globals = globs
        full = stmts(gx, gbody, H)
        used |= gx.used_hints
        out.append("(* ---- opcode in %s (line %d) ---- *)\n" % (cmt(str(lits)), gbody[0].lineno))
        for k, line, src, st in H.leaves:
            Hk = RuleH(only=k)
            kx = mk({"opcode": "str"})
            kx.effect_globals = globs
            term = stmts(kx, gbody, Hk)
            out.append("(* line %d: return %s *)\nDefinition at_%s_only_%d %s :=\n  %s.\n\n" % (line, cmt(src), gname, k, sig, term))
        out.append("Definition at_%s %s :=\n  %s.\n\n" % (gname, sig, full))
        out.append("#[export] Hint Unfold at_%s %s : gen_rules.\n\n" % (gname, " ".join("at_%s_only_%d" % (gname, k) for k, _, _, _ in H.leaves)))
        disp.append("if %s then at_%s size_flag opcode inpt_sk" % (lit_test("opcode", lits), gname))
        fresh = [l for l in lits if l not in seen]
        seen |= set(lits)
        groups_info.append({"group": gname, "opcodes": fresh, "line": gbody[0].lineno,
                            "leaves": [{"k": k, "line": line, "returns": src, "effects": list(st[0]), "rule": st[1]} for k, line, src, st in H.leaves]})
    if used != set(hints) - {sub("disasm")}:
        raise Unsupported("%s: apply_transform: idiom hint for instr[...] not used" % opt.path)
    out.append("(* apply_transform(instr) with opcode = instr[\"disasm\"], inpt_sk = instr[\"inpt_sk\"]; the globals\n"
               "   size_flag is read, discount_op / saved_push / gas_saved_op / rule are returned as effects *)\n"
               "Definition apply_transform (size_flag : bool) (opcode : string) (inpt_sk : list operand) : rule_res :=\n  %s\n  else RuleNone.\n\n" % "\n  else ".join(disp))
    # apply_transform_rules: which opcodes are submitted to apply_transform
    atr = opt.func("apply_transform_rules")
    lists = [n for n in ast.walk(atr) if isinstance(n, ast.Compare) and isinstance(n.ops[0], ast.In)
             and ast.dump(n.left) == sub("disasm") and isinstance(n.comparators[0], ast.List)]
    if len(lists) != 1:
        raise Unsupported("%s:%d: apply_transform_rules: opcode list not found" % (opt.path, atr.lineno))
    submitted = [e.value for e in lists[0].comparators[0].elts]
    want = ast.dump(ast.parse("r = apply_transform(instr)").body[0])
    if [ast.dump(n) for n in ast.walk(atr)].count(want) != 1:
        raise Unsupported("%s:%d: apply_transform_rules: call of apply_transform not found" % (opt.path, atr.lineno))
    out.append("(* opcodes apply_transform_rules submits to apply_transform; a result r != -1 replaces the\n"
               "   instruction's output variable everywhere *)\n"
               "Definition submitted_opcodes : list string := [%s].\n" % "; ".join(slit(x) for x in submitted))
    out.append("Definition local_rule (size_flag : bool) (opcode : string) (inpt_sk : list operand) : rule_res :=\n"
               "  if str_in opcode submitted_opcodes then apply_transform size_flag opcode inpt_sk else NoRule.\n"
               "#[export] Hint Unfold int_not0 : gen_rules.\n")
    return "".join(out), submitted


# --------------------------------------------------------------------------------------
# obligations: one lemma per folded operator and per (opcode, branch).
#
# gen/known_unsound.json (committed, reviewed, never written at run time) lists the obligations
# that are FALSE on the current tree, each with a witness; for those the file contains the
# refutation (`exists ... , <>`, proved by vm_compute on the witness) instead of the lemma.
# An obligation that is not listed and does not prove breaks the build.

OB_PRELUDE = """From Coq Require Import ZArith Bool Lia String List.
Import ListNotations.
From GV Require Import Ref.Word Ref.WordLemmas Ref.WordAlgebra Ref.PyInt.
From GV Require Import Gen.CheckSize Gen.Fold Gen.LocalRules.
From GV Require Import Model.FoldProofs Model.LocalRulesTactics.
Local Open Scope Z_scope.

"""

OPCODE_ARITY = {"NOT": 1, "ISZERO": 1, "ADDMOD": 3, "MULMOD": 3}
for _o in ("ADD SUB MUL DIV SDIV MOD SMOD EXP SIGNEXTEND LT GT SLT SGT EQ AND OR XOR BYTE SHL SHR SAR").split():
    OPCODE_ARITY[_o] = 2


def load_known_unsound():
    # C03_KNOWN_UNSOUND: alternative list, used only to rehearse the state after a fix is committed
    with open(os.environ.get("C03_KNOWN_UNSOUND") or os.path.join(VERIF, "gen", "known_unsound.json")) as fh:
        d = json.load(fh)
    return {e["id"]: e for e in d["entries"]}


def zc(n):
    return "(%s)%%Z" % (("0x%x" % n) if n >= 0 else ("-0x%x" % -n))


def opc(o):
    return "(OInt %s)" % zc(int(o[1])) if o[0] == "int" else "(OVar %d)" % int(o[1])


def fold_obligations(folded2, folded3):
    obs = []
    for ar, ops in ((2, folded2), (3, folded3)):
        vs = "a b" if ar == 2 else "a b c"
        hyps = " -> ".join("inw %s" % v for v in vs.split())
        for op in ops:
            m = mangle(op)
            f = "fold%d" % ar
            ref = "ref_fold%d" % ar
            s = slit(op)

            def refute_sound(w, f=f, ref=ref, s=s, m=m, ar=ar):
                ws = [w["a"], w["b"]] + ([w["c"]] if ar == 3 else [])
                return ("Lemma %s_%s_refuted :\n  exists %s r, %s /\\ %s default_lim %s %s = PyOk r /\\ Some r <> %s %s %s.\n"
                        "Proof.\n  exists %s. eexists.\n  do %d (split; [inw_lit|]). split; [vm_compute; reflexivity|vm_compute; discriminate].\nQed.\n" % (
                            f, m, " ".join("abc"[:ar]), " /\\ ".join("inw %s" % v for v in "abc"[:ar]), f, s, " ".join("abc"[:ar]),
                            ref, s, " ".join("abc"[:ar]), ", ".join(zc(int(x)) for x in ws), ar))

            def refute_total(w, f=f, s=s, m=m, ar=ar):
                ws = [w["a"], w["b"]] + ([w["c"]] if ar == 3 else [])
                return ("Lemma %s_%s_raises :\n  exists %s, %s /\\ forall r, %s default_lim %s %s <> PyOk r.\n"
                        "Proof.\n  exists %s.\n  do %d (split; [inw_lit|]). vm_compute. intros r H; discriminate H.\nQed.\n" % (
                            f, m, " ".join("abc"[:ar]), " /\\ ".join("inw %s" % v for v in "abc"[:ar]), f, s, " ".join("abc"[:ar]),
                            ", ".join(zc(int(x)) for x in ws), ar))
            obs.append({"id": "%s_%s_sound" % (f, m), "kind": "fold", "op": op, "aspect": "value", "arity": ar,
                        "alt": "%s_%s_refuted" % (f, m),
                        "sound": "Lemma %s_%s_sound :\n  forall lim %s r, %s -> %s lim %s %s = PyOk r -> Some r = %s %s %s.\nProof. solve_fold. Qed.\n" % (
                            f, m, vs, hyps, f, s, vs, ref, s, vs),
                        "refute": refute_sound})
            obs.append({"id": "%s_%s_total" % (f, m), "kind": "fold", "op": op, "aspect": "raises", "arity": ar,
                        "alt": "%s_%s_raises" % (f, m),
                        "sound": "Lemma %s_%s_total :\n  forall lim %s, 512 <= lim -> %s -> exists r, %s lim %s %s = PyOk r.\nProof. solve_total. Qed.\n" % (
                            f, m, vs, hyps, f, s, vs),
                        "refute": refute_total})
    return obs


def rule_obligations(groups, submitted):
    obs = []
    for g in groups:
        for c in g["opcodes"]:
            if c not in OPCODE_ARITY:
                raise Unsupported("apply_transform handles opcode %s for which coq/Model/LocalRulesTactics.v has no "
                                  "reference semantics (ref_opcode)" % c)
            ar = OPCODE_ARITY[c]
            vs = ["a", "b", "c"][:ar]
            for lf in g["leaves"]:
                k = lf["k"]
                name = "rule_%s_%d" % (c, k)
                d = "at_%s_only_%d" % (g["group"], k)
                lst = "[%s]" % "; ".join(vs)
                vals = "[%s]" % "; ".join("value rho %s" % v for v in vs)

                def refute(w, name=name, d=d, c=c, ar=ar):
                    ops = w["ops"]
                    if len(ops) != ar:
                        raise Unsupported("known_unsound.json: witness of %s has the wrong arity" % name)
                    rho = "(fun n => nth n [%s] 0)" % "; ".join(zc(int(x)) for x in w["rho"])
                    vs2 = ["a", "b", "c"][:ar]
                    return ("Lemma %s_refuted :\n  exists sf rho %s o e, wf_rho rho /\\ %s /\\\n    %s sf %s [%s] = Replace o e /\\ Some (value rho o) <> ref_opcode %s [%s].\n"
                            "Proof.\n  exists %s, %s, %s. eexists. eexists.\n"
                            "  split; [apply wf_rho_nth; repeat (apply Forall_cons; [inw_lit|]); apply Forall_nil|].\n"
                            "  do %d (split; [first [exact I|cbn [wf_op]; inw_lit]|]). split; [vm_compute; reflexivity|vm_compute; discriminate].\nQed.\n" % (
                                name, " ".join(vs2), " /\\ ".join("wf_op %s" % v for v in vs2), d, slit(c), "; ".join(vs2), slit(c),
                                "; ".join("value rho %s" % v for v in vs2),
                                "true" if w.get("sf") else "false", rho, ", ".join(opc(o) for o in ops), ar))
                obs.append({"id": name + "_sound", "kind": "rule", "branch": "%s_%d" % (c, k), "opcode": c, "k": k,
                            "group": g["group"], "line": lf["line"], "returns": lf["returns"], "rule": lf["rule"],
                            "submitted": c in submitted, "alt": name + "_refuted", "arity": ar,
                            "sound": "Lemma %s_sound :\n  forall sf rho %s o e, wf_rho rho -> %s ->\n    %s sf %s %s = Replace o e ->\n    Some (value rho o) = ref_opcode %s %s /\\ wf_op o.\nProof. solve_rule. Qed.\n" % (
                                name, " ".join(vs), " -> ".join("wf_op %s" % v for v in vs), d, slit(c), lst, slit(c), vals),
                            "refute": refute})
    return obs


def ob_text(ob, known, force=None):
    """Text of one obligation: the lemma, or its refutation when listed (force: 'sound'|'refuted')."""
    mode = force or ("refuted" if ob["id"] in known else "sound")
    if mode == "sound":
        return ob["sound"]
    if ob["id"] not in known:
        raise Unsupported("no witness for %s" % ob["id"])
    return ob["refute"](known[ob["id"]]["witness"])


def single_file(ob, known, mode):
    return OB_PRELUDE + ob_text(ob, known, mode)


def translate():
    """All generated texts and the obligation list (nothing is written)."""
    opt = Source("sfs_generator/gasol_optimization.py")
    utils = Source("sfs_generator/utils.py")
    info, groups = [], []
    files = {}
    files["Gen/CheckSize.v"] = gen_checksize(opt, utils)
    files["Gen/Fold.v"], folded2, folded3 = gen_fold(opt, info)
    files["Gen/LocalRules.v"], submitted = gen_localrules(opt, utils, groups)
    meta = {"fold_branches": info, "groups": groups, "folded2": folded2, "folded3": folded3, "submitted": submitted}
    return files, meta, fold_obligations(folded2, folded3), rule_obligations(groups, submitted)


def assemble(obs, known, title, override=None):
    """override: {ob id: 'sound'|'refuted'} decided by the harness when a listed entry is obsolete."""
    override = override or {}
    out = ["(* GENERATED by gen/gen_fold.py -- do not edit.  %s\n   Lemmas listed in gen/known_unsound.json are replaced by their refutation. *)\n" % title, OB_PRELUDE]
    for ob in obs:
        out.append(ob_text(ob, known, override.get(ob["id"])) + "\n")
    return "".join(out)


def fold_summary(fobs, known, override):
    """fold2/fold3-level theorems over all operator strings, excluding the listed unsound ones."""
    out = []
    for ar in (2, 3):
        vs = "a b" if ar == 2 else "a b c"
        obs = [o for o in fobs if o["arity"] == ar and o["aspect"] == "value"]
        bad = [o for o in obs if mode_of(o, known, override) == "refuted"]
        good = [o for o in obs if o not in bad]
        lst = "folded_binary" if ar == 2 else "folded_ternary"
        out.append("Definition unsound_folds%d : list string := [%s].\n\n" % (ar, "; ".join(slit(o["op"]) for o in bad)))
        out.append("Theorem fold%d_sound_except :\n  forall lim op %s r, ~ In op unsound_folds%d -> %s ->\n    fold%d lim op %s = PyOk r -> Some r = ref_fold%d op %s.\n" % (
            ar, vs, ar, " -> ".join("inw %s" % v for v in vs.split()), ar, vs, ar, vs))
        out.append("Proof.\n  intros lim op %s r Hn %s H.\n" % (vs, " ".join("H%s" % v for v in vs.split())))
        out.append("  assert (Hin : str_in op %s = true) by (unfold fold%d in H; destruct (str_in op %s); [reflexivity|discriminate H]).\n" % (lst, ar, lst))
        out.append("  unfold str_in, %s in Hin; cbn [existsb] in Hin.\n" % lst)
        out.append("  repeat (apply orb_true_iff in Hin; destruct Hin as [Hin|Hin]); try discriminate Hin; apply String.eqb_eq in Hin; subst op;\n")
        out.append("  try (exfalso; apply Hn; cbn [In unsound_folds%d]; tauto);\n" % ar)
        out.append("  first [%s fail].\nQed.\n\n" % "".join("exact (%s lim %s r %s H) | " % (o["id"], vs, " ".join("H%s" % v for v in vs.split())) for o in good))
        inws = " /\\ ".join("inw %s" % v for v in vs.split())
        out.append("(* the full statement holds, or it is refuted by a concrete witness *)\n"
                   "Theorem fold%d_status :\n  (forall lim op %s r, %s -> fold%d lim op %s = PyOk r -> Some r = ref_fold%d op %s) \\/\n"
                   "  (exists op %s r, In op unsound_folds%d /\\ %s /\\ fold%d default_lim op %s = PyOk r /\\ Some r <> ref_fold%d op %s).\nProof.\n" % (
                       ar, vs, " -> ".join("inw %s" % v for v in vs.split()), ar, vs, ar, vs, vs, ar, inws, ar, vs, ar, vs))
        if not bad:
            out.append("  left. intros lim op %s r %s H. eapply fold%d_sound_except; try eassumption. intros [].\nQed.\n\n" % (
                vs, " ".join("H%s" % v for v in vs.split()), ar))
        else:
            o = bad[0]
            out.append("  right. destruct %s as (%s & r & %s & H & Hne).\n  exists %s, %s, r. split; [cbn [In unsound_folds%d]; tauto|]. tauto.\nQed.\n\n" % (
                o["alt"], " & ".join(vs.split()), " & ".join("H%s" % v for v in vs.split()), slit(o["op"]), ", ".join(vs.split()), ar))
    return "".join(out)


def mode_of(ob, known, override):
    return (override or {}).get(ob["id"]) or ("refuted" if ob["id"] in known else "sound")


def rule_summary(robs, groups, submitted, known, override):
    out = []
    byc = {}
    for o in robs:
        byc.setdefault(o["opcode"], []).append(o)
    bad = [o for o in robs if mode_of(o, known, override) == "refuted"]
    out.append("(* the listed unsound branches, as functions that fire exactly when that branch fires *)\n"
               "Definition unsound_branches : list (bool -> string -> list operand -> rule_res) :=\n  [%s].\n" % ";\n   ".join(
                   "(fun sf opc inp => if String.eqb opc %s then at_%s_only_%d sf opc inp else NoRule)" % (slit(o["opcode"]), o["group"], o["k"]) for o in bad))
    out.append("Definition unsound_branch_names : list string := [%s].\n" % "; ".join(slit(o["branch"]) for o in bad))
    out.append("Definition fired_unsound (sf : bool) (opc : string) (inp : list operand) : bool :=\n"
               "  existsb (fun f => is_replace (f sf opc inp)) unsound_branches.\n\n")
    for g in groups:
        n = len(g["leaves"])
        out.append("Lemma at_%s_split :\n  forall sf opc inp o e, at_%s sf opc inp = Replace o e ->\n    %s.\nProof. solve_split. Qed.\n\n" % (
            g["group"], g["group"], " \\/\n    ".join("at_%s_only_%d sf opc inp = Replace o e" % (g["group"], k) for k in range(1, n + 1))))
    out.append("Theorem local_rule_sound_except :\n  forall sf opc inp o e rho, wf_rho rho -> Forall wf_op inp -> length inp = opcode_arity opc ->\n"
               "    local_rule sf opc inp = Replace o e -> fired_unsound sf opc inp = false ->\n"
               "    Some (value rho o) = ref_opcode opc (map (value rho) inp) /\\ wf_op o.\nProof.\n"
               "  intros sf opc inp o e rho Hr Hw Hl H Hf.\n"
               "  unfold local_rule in H. destruct (str_in opc submitted_opcodes) eqn:Hin; [|discriminate H].\n"
               "  unfold str_in, submitted_opcodes in Hin. cbn [existsb] in Hin.\n"
               "  unfold fired_unsound, unsound_branches in Hf; cbn [existsb] in Hf.\n"
               "  repeat (apply orb_true_iff in Hin; destruct Hin as [Hin|Hin]); try discriminate Hin; apply String.eqb_eq in Hin; subst opc;\n"
               "    unfold opcode_arity in Hl; unfold apply_transform in H; eval_strings; shape_inp inp Hl Hw.\n")
    for c in submitted:
        if c not in byc:
            raise Unsupported("apply_transform_rules submits %s, which apply_transform does not handle (it would return None)" % c)
        obs = sorted(byc[c], key=lambda o: o["k"])
        g = obs[0]["group"]
        pat = "H"
        for _ in range(len(obs) - 1):
            pat = "[H|%s]" % pat
        out.append("  - (* %s *) apply at_%s_split in H%s.\n" % (c, g, ("; destruct H as %s" % pat) if len(obs) > 1 else ""))
        for o in obs:
            if mode_of(o, known, override) == "refuted":
                out.append("    { kill_unsound H Hf. }\n")
            else:
                out.append("    { eapply %s; eassumption. }\n" % o["id"])
    out.append("Qed.\n\n")
    full = ("forall sf opc inp o e rho, wf_rho rho -> Forall wf_op inp -> length inp = opcode_arity opc ->\n"
            "     local_rule sf opc inp = Replace o e -> Some (value rho o) = ref_opcode opc (map (value rho) inp) /\\ wf_op o")
    out.append("(* the full statement holds, or it is refuted by a concrete witness *)\n"
               "Theorem local_rule_status :\n  (%s) \\/\n"
               "  (exists sf opc inp o e rho, wf_rho rho /\\ Forall wf_op inp /\\ length inp = opcode_arity opc /\\\n"
               "     local_rule sf opc inp = Replace o e /\\ Some (value rho o) <> ref_opcode opc (map (value rho) inp)).\nProof.\n" % full)
    live = [o for o in bad if o["submitted"]]
    if not live:
        out.append("  left. intros. eapply local_rule_sound_except; try eassumption. reflexivity.\nQed.\n")
    else:
        o = live[0]
        w = known[o["id"]]["witness"]
        rho = "(fun n => nth n [%s] 0)" % "; ".join(zc(int(x)) for x in w["rho"])
        out.append("  right. exists %s, %s, [%s]. eexists. eexists. exists %s.\n"
                   "  split; [apply wf_rho_nth; repeat (apply Forall_cons; [inw_lit|]); apply Forall_nil|].\n"
                   "  split; [repeat (apply Forall_cons; [first [exact I|cbn [wf_op]; inw_lit]|]); apply Forall_nil|].\n"
                   "  split; [reflexivity|]. split; [vm_compute; reflexivity|vm_compute; discriminate].\nQed.\n" % (
                       "true" if w.get("sf") else "false", slit(o["opcode"]), "; ".join(opc(x) for x in w["ops"]), rho))
    return "".join(out)


def generate(override=None, write=True):
    files, meta, fobs, robs = translate()
    known = load_known_unsound()
    ids = {o["id"] for o in fobs + robs}
    stale = sorted(set(known) - ids)
    meta["stale_known_unsound"] = stale       # entries naming obligations that no longer exist
    files["Gen/FoldObligations.v"] = assemble(fobs, known, "One obligation per folded operator.", override) \
        + fold_summary(fobs, known, override)
    files["Gen/LocalRulesObligations.v"] = assemble(robs, known, "One obligation per (opcode, branch) of apply_transform.", override) \
        + rule_summary(robs, meta["groups"], meta["submitted"], known, override)
    if write:
        for rel, txt in files.items():
            p = os.path.join(COQ, rel)
            old = open(p).read() if os.path.exists(p) else None
            if old != txt:
                with open(p, "w") as fh:
                    fh.write(txt)
    meta["known"] = known
    meta["override"] = override or {}
    return files, meta, fobs, robs


if __name__ == "__main__":
    import sys
    f, m, fo, ro = generate()
    print("generated %s; %d fold obligations, %d rule obligations" % (sorted(f), len(fo), len(ro)))
