"""Static analysis of GASOL's module-global state (C12) and of its set-iteration sites (C13).

    analyse()   -> dict of tables (pure, no files written)
    generate(run=None) -> analyse() + writes coq/Gen/FrameTables.v and coq/Gen/IterSites.v

Everything is computed from the Python ASTs of the working tree under $GASOL_REPO.  The analysis
is FAIL CLOSED: an import that is neither a project module nor on LIBS, a name that cannot be
resolved, a method name that is neither a project method nor on the built-in method lists,
`globals()`, `exec`, `eval`, `setattr` on modules, star imports, `nonlocal` ... raise Unclassified
with the source location, and the check reports the tie as broken.

C12 tables
  * variables: module-level names bound at top level or through `global` in some function, plus
    class-level data attributes (named module.Class.attr, matched by attribute name);
  * per function (methods and nested functions/lambdas folded into their top-level def):
    direct reads, direct writes (rebinding under `global`, attribute stores on imported modules,
    in-place mutation through subscript/attribute/augmented assignment/`del`/mutator methods, via
    local aliases, via parameters of callees that mutate them, via returned aliases), self-update
    reads (x += e, x.append(e), x[k] = v) kept apart so that pure accumulators can be recognised;
  * the call graph (calls by name, module attribute, method name over all analysed classes,
    property reads, function references, class instantiation -> __init__/metaclass __call__;
    every other dunder method is considered reachable from every function);
  * a flow-sensitive "read before reset" analysis RB(f) / "must reset" MR(f) over the statement
    structure, from which R = names written in the per-block cone and never read before being
    definitely re-assigned in any per-block entry;
  * COVERED: names accepted through an invariant lemma of Model/FrameProofs.v instead of R; the
    syntactic premise of every entry is checked here on the AST.
"""
import ast
import builtins
import json
import os
import sys

REPO = os.environ.get("GASOL_REPO", "/repo")
VERIF = os.path.dirname(os.path.dirname(os.path.abspath(__file__)))

ROOT_MODULES = ["gasol_asm"]

# per-block entry points (what optimize_asm_contract runs for every block)
ENTRIES = [
    "gasol_asm:optimize_asm_block_asm_format",
    "gasol_asm:compare_asm_block_asm_format",
    "gasol_asm:compute_original_sfs_with_simplifications",
]

# code that can run between process start-up and the processing of a block (drivers' loops + per-block entries);
# start-up code (main_gasol, init, execute_gasol's prologue, module initialisation) runs once before any block and
# produces the initial state G0 of the model
HISTORY_ROOTS = ENTRIES + [
    "gasol_asm:optimize_asm_contract", "gasol_asm:optimize_asm_in_asm_format", "gasol_asm:optimize_asm_from_asm_json",
    "gasol_asm:optimize_isolated_asm_block", "gasol_asm:optimize_from_sfs", "gasol_asm:optimize_asm_from_log",
    "gasol_asm:update_gas_count", "gasol_asm:update_size_count", "gasol_asm:update_length_count",
]

# imported libraries (roots) that are allowed without analysis
LIBS = {"json", "os", "sys", "math", "re", "copy", "itertools", "collections", "functools", "networkx",
        "pandas", "shutil", "uuid", "traceback", "typing", "subprocess", "resource", "time", "timeit",
        "argparse", "enum", "abc", "numpy", "pathlib", "glob", "random", "heapq", "bisect", "operator",
        "csv", "tempfile", "signal", "logging", "dataclasses", "string", "warnings", "datetime", "io",
        "contextlib", "types", "numbers", "fractions", "decimal", "hashlib", "pickle", "struct", "queue",
        "threading", "shlex", "multiprocessing", "platform", "stat", "errno", "textwrap", "pprint", "sortedcontainers"}
# modules deliberately out of scope (only reachable under options the checks never enable)
EXCLUDED = {"gasol_ml": "ML bound/optimizability predictors (-bound-model/-opt-model), need torch; not on the path of any analysed option set",
            "torch": "see gasol_ml"}

MUTATORS = {"append", "extend", "insert", "pop", "remove", "clear", "update", "add", "discard", "setdefault",
            "sort", "reverse", "popitem", "difference_update", "intersection_update",
            "symmetric_difference_update", "appendleft", "popleft", "extendleft", "rotate",
            "add_node", "add_edge", "add_nodes_from", "add_edges_from", "remove_node", "remove_edge",
            "remove_nodes_from", "remove_edges_from", "write", "writelines", "close", "writerow", "writerows",
            "seek", "truncate", "flush", "__setitem__", "__delitem__"}
PURE_METHODS = {
    "get", "keys", "values", "items", "copy", "index", "count", "find", "rfind", "startswith", "endswith", "join",
    "split", "rsplit", "strip", "lstrip", "rstrip", "format", "union", "difference", "intersection", "issubset",
    "issuperset", "isdisjoint", "symmetric_difference", "lower", "upper", "replace", "isdigit", "isnumeric",
    "isalpha", "encode", "decode", "zfill", "splitlines", "title", "capitalize", "partition", "rpartition",
    "bit_length", "to_bytes", "from_bytes", "hex", "is_integer", "center", "ljust", "rjust", "isupper", "islower",
    "isspace", "isalnum", "swapcase", "expandtabs", "casefold", "format_map", "maketrans", "translate",
    "read", "readline", "readlines", "group", "groups", "span", "start", "end", "match", "search", "findall",
    "sub", "fullmatch", "finditer", "most_common", "elements", "total",
    # networkx graph queries
    "nodes", "edges", "successors", "predecessors", "in_degree", "out_degree", "degree", "neighbors",
    "has_node", "has_edge", "number_of_nodes", "number_of_edges", "in_edges", "out_edges", "subgraph",
    "reverse_view", "to_undirected", "to_directed", "adj", "pred", "succ",
    # pandas / argparse / misc library objects
    "to_csv", "to_dict", "to_json", "parse_args", "add_argument", "add_argument_group",
    "add_mutually_exclusive_group", "communicate", "wait", "poll", "kill", "terminate", "fileno",
    "total_seconds", "isoformat", "hexdigest", "digest", "with_traceback", "exists", "as_posix",
    "name", "value", "real", "imag", "conjugate", "numerator", "denominator", "as_integer_ratio",
    "__contains__", "__len__", "__getitem__", "__iter__", "fromkeys", "removeprefix", "removesuffix",
    "joinpath", "mkdir", "set_defaults", "print_help", "error", "eval", "parameters", "load_state_dict", "item", "argmax", "to",
}
FRESH_FUNCS = {"len", "str", "int", "repr", "bool", "float", "hex", "abs", "sum", "ord", "chr", "hash", "id", "type",
               "isinstance", "issubclass", "print", "range", "round", "divmod", "pow", "bin", "oct", "callable",
               "hasattr", "deepcopy", "dumps", "format", "input", "open", "all", "any", "min", "max"}
FRESH_LIBS = {"re", "math", "os", "json", "uuid", "time", "timeit", "dtimer", "shutil", "sys", "traceback", "subprocess",
              "shlex", "resource", "hashlib"}
STR_METHODS = {"upper", "lower", "strip", "lstrip", "rstrip", "split", "rsplit", "join", "format", "replace", "find", "rfind",
               "startswith", "endswith", "count", "index", "encode", "decode", "hex", "zfill", "isdigit", "isnumeric",
               "bit_length", "splitlines", "title", "capitalize", "keys", "removeprefix", "removesuffix"}
MUTATING_LIB_FUNCS = {"shuffle", "heappush", "heappop", "heapify", "heapreplace", "heappushpop", "insort",
                      "insort_left", "insort_right", "setattr", "delattr"}
FORBIDDEN_NAMES = {"globals", "exec", "eval", "locals", "vars", "__import__", "compile", "setattr", "delattr"}
BUILTINS = set(dir(builtins))

# ---------------------------------------------------------------------------
# names accepted through an invariant instead of membership in R.  `premise` names the syntactic
# check performed below on every run; the semantic lemma lives in Model/FrameProofs.v.
COVERED = {
    "sfs_generator.gasol_optimization.split_sto": {
        "kind": "guarded_const",      # value after the entry prologue = if option then c else initial
        "lemma": "guarded_const_idem",
        "init": False, "const": True,
        "writer": "sfs_generator.gasol_optimization:smt_translate_block", "guard_param": "storage",
        "why": "only assignment is `split_sto = True` under `if storage:` in the prologue of smt_translate_block, "
               "initial value False; with one option set the value after the prologue is `storage` after any history",
    },
    "sfs_generator.gasol_optimization.compute_gast": {
        "kind": "const_same",         # every assignment stores the literal the variable is initialised with
        "lemma": "keep_invariant",
        "init": True,
        "why": "initial value True and every assignment in the program is `compute_gast = True`",
    },
    "sfs_generator.gasol_optimization.split_blocks$new_instr": {
        "kind": "default_never_used", "lemma": "keep_invariant", "function": "split_blocks", "param": "new_instr", "position": 2,
        "why": "every call of split_blocks passes new_instr explicitly: the default list object is unreachable",
    },
    "sfs_generator.gasol_optimization.smt_translate_block$extra_dependences_info": {
        "kind": "default_never_used", "lemma": "keep_invariant", "function": "smt_translate_block",
        "param": "extra_dependences_info", "position": 11,
        "why": "the only call (ir_block.evm2rbr_compiler) passes it explicitly",
    },
    "sfs_generator.ir_block.evm2rbr_compiler$extra_dependences_info": {
        "kind": "empty_default_guarded", "lemma": "keep_invariant",
        "holder": "sfs_generator.ir_block:evm2rbr_compiler", "user": "sfs_generator.gasol_optimization:smt_translate_block",
        "param": "extra_dependences_info",
        "why": "default {} is only forwarded to smt_translate_block, where every use is `if ... and extra_dependences_info:` "
               "or inside such an if: the empty default is falsy, is never handed to the code that may mutate it, and stays {}",
    },
    "sfs_generator.rbr_rule.RBRRule.__init__$all_state_vars": {
        "kind": "attr_readonly", "lemma": "keep_invariant", "attr": "all_state_vars", "param": "all_state_vars",
        "holder": "sfs_generator.rbr_rule:RBRRule.__init__",
        "why": "the default [] is stored in self.all_state_vars, which is only compared with [] and iterated; its getter is never called: the list is never mutated",
    },
    "global_params.constants.split_block": {
        "kind": "guarded_union",      # x := x U S with S never written: idempotent
        "lemma": "guarded_union_idem",
        "writer": "global_params.constants:append_store_instructions_to_split", "union_with": "store_instructions",
        "callers": {"gasol_asm:execute_gasol": "params.split_storage",
                    "sfs_generator.gasol_optimization:smt_translate_block": "storage"},
        "why": "only assignment is `split_block = split_block.union(store_instructions)` (store_instructions never "
               "written), called only under the -storage option (execute_gasol at start-up, smt_translate_block prologue): "
               "idempotent, so its value is a function of the option set after start-up",
    },
}


# methods of objects that come from outside the analysed modules, with the reason they are accepted;
# calls are still treated as possibly mutating their receiver
EXTERNAL_METHODS = {}
for _m in ("get_aliasing_context", "get_constancy_context", "get_equal_pairs_memory", "get_equal_pairs_storage",
           "get_nonequal_pairs_memory", "get_nonequal_pairs_storage", "get_first", "get_second", "get_useless_info",
           "order", "set_values", "same_pair", "get_instructions", "set_first", "set_second"):
    EXTERNAL_METHODS[_m] = "method of the extra_dependences_info object of an external analyser; gasol_asm never passes one"
EXTERNAL_METHODS["ModelQuery"] = "gasol_ml predictor constructor (EXCLUDED module)"
EXTERNAL_METHODS["set_num_threads"] = EXTERNAL_METHODS["set_num_interop_threads"] = "torch (EXCLUDED module)"


class Unclassified(Exception):
    pass


def fail(mod, node, msg):
    raise Unclassified("%s:%s: %s" % (mod.file if mod else "?", getattr(node, "lineno", "?"), msg))


# ---------------------------------------------------------------------------
# modules

class Mod:
    def __init__(self, name, file):
        self.name, self.file = name, file
        with open(file) as fh:
            self.src = fh.read()
        import warnings
        with warnings.catch_warnings():
            warnings.simplefilter("ignore")
            self.tree = ast.parse(self.src, filename=file)
        self.mod_alias = {}     # local name -> dotted module
        self.from_imp = {}      # local name -> (module, original name)
        self.vars = set()       # module-level variables
        self.init_value = {}    # var -> ast of its (last) top-level initialiser
        self.funcs = {}         # qualname -> ast.FunctionDef
        self.classes = {}       # class name -> ast.ClassDef
        self.class_vars = {}    # class name -> set(attr)
        self.lib_names = set()  # names bound to library modules/objects


def modfile(m):
    p = os.path.join(REPO, *m.split("."))
    if os.path.isfile(p + ".py"):
        return p + ".py"
    if os.path.isdir(p) and os.path.isfile(os.path.join(p, "__init__.py")):
        return os.path.join(p, "__init__.py")
    return None


def is_project_pkg(m):
    return os.path.isdir(os.path.join(REPO, *m.split(".")))


def targets_of(t):
    if isinstance(t, ast.Name):
        yield t
    elif isinstance(t, (ast.Tuple, ast.List)):
        for e in t.elts:
            yield from targets_of(e)
    elif isinstance(t, ast.Starred):
        yield from targets_of(t.value)
    else:
        yield t


def toplevel_bindings(mod, body, out):
    """names bound by statements executed at import time (not inside def/class)"""
    for st in body:
        if isinstance(st, (ast.Assign, ast.AnnAssign, ast.AugAssign)):
            tgts = st.targets if isinstance(st, ast.Assign) else [st.target]
            for t in tgts:
                for n in targets_of(t):
                    if isinstance(n, ast.Name):
                        out.add(n.id)
                        if isinstance(st, ast.Assign) or (isinstance(st, ast.AnnAssign) and st.value is not None):
                            mod.init_value[n.id] = st.value
        elif isinstance(st, (ast.If, ast.For, ast.While, ast.With, ast.Try)):
            for fld in ("body", "orelse", "finalbody"):
                toplevel_bindings(mod, getattr(st, fld, []) or [], out)
            for h in getattr(st, "handlers", []) or []:
                toplevel_bindings(mod, h.body, out)
            if isinstance(st, ast.For):
                for n in targets_of(st.target):
                    if isinstance(n, ast.Name):
                        out.add(n.id)
            if isinstance(st, ast.With):
                for it in st.items:
                    if it.optional_vars is not None:
                        for n in targets_of(it.optional_vars):
                            if isinstance(n, ast.Name):
                                out.add(n.id)


def load_modules():
    mods, todo = {}, list(ROOT_MODULES)
    while todo:
        m = todo.pop()
        if m in mods:
            continue
        f = modfile(m)
        if f is None:
            continue
        mod = Mod(m, f)
        mods[m] = mod
        for n in ast.walk(mod.tree):
            if isinstance(n, ast.Import):
                for a in n.names:
                    root = a.name.split(".")[0]
                    if modfile(a.name) or is_project_pkg(a.name):
                        todo.append(a.name)
                        if a.asname:
                            mod.mod_alias[a.asname] = a.name
                        else:
                            mod.mod_alias[root] = root
                    elif root in EXCLUDED:
                        mod.lib_names.add(a.asname or root)
                    elif root in LIBS:
                        mod.lib_names.add(a.asname or root)
                    else:
                        fail(mod, n, "import of unknown library %s (not on LIBS)" % a.name)
            elif isinstance(n, ast.ImportFrom):
                if n.level:
                    fail(mod, n, "relative import")
                root = n.module.split(".")[0]
                proj = modfile(n.module) or is_project_pkg(n.module)
                for a in n.names:
                    if a.name == "*":
                        fail(mod, n, "star import")
                    ln = a.asname or a.name
                    if proj:
                        todo.append(n.module)
                        sub = n.module + "." + a.name
                        if modfile(sub):
                            todo.append(sub)
                            mod.mod_alias[ln] = sub
                        else:
                            mod.from_imp[ln] = (n.module, a.name)
                    elif root in LIBS or root in EXCLUDED:
                        mod.lib_names.add(ln)
                    else:
                        fail(mod, n, "import from unknown library %s" % n.module)
    # symbol tables
    for mod in mods.values():
        toplevel_bindings(mod, mod.tree.body, mod.vars)
        for st in mod.tree.body:
            if isinstance(st, (ast.FunctionDef, ast.AsyncFunctionDef)):
                mod.funcs[st.name] = st
            elif isinstance(st, ast.ClassDef):
                mod.classes[st.name] = st
                cv = set()
                dm = _Dummy()
                toplevel_bindings(dm, st.body, cv)
                mod.class_vars[st.name] = cv
                for a, val in dm.init_value.items():
                    mod.init_value[st.name + "." + a] = val
                for b in st.body:
                    if isinstance(b, (ast.FunctionDef, ast.AsyncFunctionDef)):
                        mod.funcs[st.name + "." + b.name] = b
                    elif isinstance(b, ast.ClassDef):
                        fail(mod, b, "nested class")
        for n in ast.walk(mod.tree):
            if isinstance(n, ast.Global):
                mod.vars.update(n.names)
            elif isinstance(n, ast.Nonlocal):
                fail(mod, n, "nonlocal")
        mod.vars -= set(mod.funcs) | set(mod.classes)
    return mods


class _Dummy:
    def __init__(self):
        self.init_value = {}


# ---------------------------------------------------------------------------
# per-function analysis

class FInfo:
    def __init__(self, q, mod, node, cls):
        self.q, self.mod, self.node, self.cls = q, mod, node, cls
        self.reads = set()        # genuine reads of variables
        self.selfreads = set()    # reads that are part of a self-update (x += e, x.append(e), x[k] = v)
        self.writes = set()
        self.rebinding = set()    # variables re-bound by plain assignment (not in-place)
        self.aug = set()          # variables updated by augmented assignment on the name itself
        self.inplace = set()      # variables mutated in place (directly, via aliases, callees' parameters)
        self.rebind_values = []   # (var, ast value) of plain re-binding assignments
        self.calls = set()        # callee qualnames
        self.mut_params = set()   # indices of parameters mutated in place
        self.ret_roots = set()    # roots of returned values: ("g", var) | ("p", idx)
        self.params = []
        self.mutable_defaults = []
        self.RB = set()
        self.MR = set()
        self.unresolved_methods = set()
        self.undefined = set()


class Analysis:
    def __init__(self, mods):
        self.mods = mods
        self.F = {}
        self.methods_by_name = {}
        self.props_by_name = {}
        self.classvar_by_attr = {}   # attr -> set of var names
        self.dunders = set()
        self.alias = {}              # var -> set(var): objects stored inside var may be those of ...
        self.sites = []              # C13 iteration sites
        self.why = {}                # (function, var) -> line of a statement that mutates var in place
        for mod in mods.values():
            for cn, cv in mod.class_vars.items():
                for a in cv:
                    self.classvar_by_attr.setdefault(a, set()).add("%s.%s.%s" % (mod.name, cn, a))
            for qn, node in mod.funcs.items():
                q = mod.name + ":" + qn
                cls = qn.split(".")[0] if "." in qn else None
                fi = FInfo(q, mod, node, cls)
                a = node.args
                fi.params = [x.arg for x in a.posonlyargs + a.args] + ([a.vararg.arg] if a.vararg else []) + \
                            [x.arg for x in a.kwonlyargs] + ([a.kwarg.arg] if a.kwarg else [])
                self.F[q] = fi
                if cls:
                    mname = qn.split(".")[1]
                    decos = [ast.unparse(d) for d in node.decorator_list]
                    if any(d == "property" or d.endswith(".setter") or d.endswith(".getter") for d in decos):
                        self.props_by_name.setdefault(mname, set()).add(q)
                    else:
                        self.methods_by_name.setdefault(mname, set()).add(q)
                    if mname.startswith("__") and mname.endswith("__") and mname not in ("__init__", "__new__", "__call__"):
                        self.dunders.add(q)
                # mutable default arguments are hidden module state
                defaults = list(a.defaults) + [d for d in a.kw_defaults if d is not None]
                names = ([x.arg for x in a.posonlyargs + a.args][-len(a.defaults):] if a.defaults else []) + \
                        [x.arg for x, d in zip(a.kwonlyargs, a.kw_defaults) if d is not None]
                for pn, d in zip(names, defaults):
                    if isinstance(d, (ast.List, ast.Dict, ast.Set, ast.Call, ast.ListComp, ast.DictComp, ast.SetComp)):
                        fi.mutable_defaults.append(pn)

    # -- variable naming
    def var(self, modname, name):
        return modname + "." + name

    def all_vars(self):
        vs = set()
        for mod in self.mods.values():
            for v in mod.vars:
                vs.add(self.var(mod.name, v))
            for cn, cv in mod.class_vars.items():
                for a in cv:
                    vs.add("%s.%s.%s" % (mod.name, cn, a))
        for fi in self.F.values():
            for pn in fi.mutable_defaults:
                vs.add(fi.q.replace(":", ".") + "$" + pn)
        return vs

    # -- one pass over one function
    def analyse_function(self, fi):
        mod = fi.mod
        A = self

        class Scope:
            def __init__(self, parent, params, body_nodes, is_def):
                self.parent = parent
                self.locals = set(params)
                self.globals = set()
                if is_def:
                    for n in body_nodes:
                        self._collect(n)
                    self.locals -= self.globals

            def _collect(self, n):
                # bindings of this def scope (not descending into nested defs/lambdas/classes)
                if isinstance(n, (ast.FunctionDef, ast.AsyncFunctionDef)):
                    self.locals.add(n.name)
                    return
                if isinstance(n, ast.ClassDef):
                    fail(mod, n, "class inside function")
                if isinstance(n, ast.Lambda):
                    return
                if isinstance(n, ast.Global):
                    self.globals.update(n.names)
                if isinstance(n, ast.Name) and isinstance(n.ctx, (ast.Store, ast.Del)):
                    self.locals.add(n.id)
                if isinstance(n, ast.ExceptHandler) and n.name:
                    self.locals.add(n.name)
                if isinstance(n, (ast.Import, ast.ImportFrom)):
                    for a in n.names:
                        self.locals.add((a.asname or a.name).split(".")[0])
                if isinstance(n, (ast.ListComp, ast.SetComp, ast.DictComp, ast.GeneratorExp)):
                    # comprehension targets are local to the comprehension; handled as nested scope
                    for g in n.generators:
                        self._collect(g.iter)
                    return
                for c in ast.iter_child_nodes(n):
                    self._collect(c)

            def is_local(self, name):
                s = self
                while s is not None:
                    if name in s.globals:
                        return False
                    if name in s.locals:
                        return True
                    s = s.parent
                return False

        env = {}     # local name -> set of roots the name may denote
        held = {}    # local name -> roots of objects stored INSIDE what the name denotes
        for i, p in enumerate(fi.params):
            env[p] = {("p", i)}
        for pn in fi.mutable_defaults:
            env[pn] = set(env.get(pn, set())) | {("g", fi.q.replace(":", ".") + "$" + pn)}
        self_changed = [True]

        def resolve_name(name, node, scope):
            """-> ("local",) | ("var", v) | ("func", q) | ("class", mod, cname) | ("module", m) | ("lib",) | ("builtin",)"""
            if scope.is_local(name):
                return ("local",)
            if name in mod.vars:
                return ("var", A.var(mod.name, name))
            if name in mod.funcs:
                return ("func", mod.name + ":" + name)
            if name in mod.classes:
                return ("class", mod.name, name)
            if name in mod.from_imp:
                m2n, orig = mod.from_imp[name]
                m2 = A.mods.get(m2n)
                if m2 is None:
                    fail(mod, node, "from-import of %s from unanalysed project module %s" % (orig, m2n))
                if orig in m2.vars:
                    return ("var", A.var(m2n, orig), "fromimport")
                if orig in m2.funcs:
                    return ("func", m2n + ":" + orig)
                if orig in m2.classes:
                    return ("class", m2n, orig)
                if orig in m2.from_imp or orig in m2.lib_names or orig in m2.mod_alias:
                    return ("lib",)
                fail(mod, node, "cannot resolve %s imported from %s" % (orig, m2n))
            if name in mod.mod_alias:
                return ("module", mod.mod_alias[name])
            if name in mod.lib_names:
                return ("lib",)
            if name in BUILTINS:
                return ("builtin",)
            # undefined at module level: NameError if executed.  Tolerated only in functions that are not
            # reachable from the per-block entries (checked in analyse()).
            fi.undefined.add((name, getattr(node, "lineno", 0)))
            return ("undefined",)

        def resolve_module_chain(node, scope):
            """If node is Name/Attribute chain denoting a project module, return its dotted name."""
            parts = []
            n = node
            while isinstance(n, ast.Attribute):
                parts.append(n.attr)
                n = n.value
            if not isinstance(n, ast.Name) or scope.is_local(n.id):
                return None
            if n.id in mod.mod_alias:
                base = mod.mod_alias[n.id]
                for a in reversed(parts):
                    base = base + "." + a
                if base in A.mods:
                    return base
                if is_project_pkg(base):
                    return base
                return None
            return None

        def add_read(v, selfupd=False):
            (fi.selfreads if selfupd else fi.reads).add(v)

        def classvars(attr):
            return A.classvar_by_attr.get(attr, ())

        def roots(e, scope):
            """objects e may denote (part of): set of ("g", var) / ("p", idx)"""
            if e is None:
                return set()
            if isinstance(e, ast.Name):
                r = resolve_name(e.id, e, scope)
                if r[0] == "local":
                    return set(env.get(e.id, ())) | set(held.get(e.id, ()))
                if r[0] == "var":
                    return {("g", r[1])}
                return set()
            if isinstance(e, ast.Attribute):
                m = resolve_module_chain(e.value, scope)
                if m is not None and m in A.mods:
                    m2 = A.mods[m]
                    if e.attr in m2.vars:
                        return {("g", A.var(m, e.attr))}
                    return set()
                rs = roots(e.value, scope)
                for cv in classvars(e.attr):
                    rs = rs | {("g", cv)}
                return rs
            if isinstance(e, ast.Subscript):
                depth, b = 0, e
                while isinstance(b, ast.Subscript):
                    depth, b = depth + 1, b.value
                rs = roots(b, scope)
                if len(rs) == 1 and isinstance(b, (ast.Name, ast.Attribute)):
                    (rt,) = tuple(rs)
                    if rt[0] == "g" and rt[1] not in A.rebound and A.literal_depth.get(rt[1], 99) <= depth:
                        return set()      # an immutable leaf of a literal constant table
                return rs
            if isinstance(e, ast.Starred):
                return roots(e.value, scope)
            if isinstance(e, ast.Call):
                fn = e.func
                fname = fn.id if isinstance(fn, ast.Name) else (fn.attr if isinstance(fn, ast.Attribute) else None)
                lib = fn
                while isinstance(lib, ast.Attribute):
                    lib = lib.value
                if isinstance(lib, ast.Name) and not scope.is_local(lib.id) and lib.id in mod.lib_names and \
                        lib.id in FRESH_LIBS:
                    return set()
                if isinstance(fn, ast.Attribute) and fname in STR_METHODS:
                    return set()
                if isinstance(fn, ast.Attribute) and fname == "get" and isinstance(fn.value, (ast.Name, ast.Attribute)):
                    rs0 = roots(fn.value, scope)
                    if len(rs0) == 1:
                        (rt,) = tuple(rs0)
                        if rt[0] == "g" and rt[1] not in A.rebound and A.literal_depth.get(rt[1], 99) <= 1:
                            rs = set()
                            for a in e.args[1:]:
                                rs |= roots(a, scope)
                            return rs
                targets = call_targets(e, scope, record=False)
                if targets and isinstance(fn, (ast.Name, ast.Attribute)) and all(
                        q.split(":")[1].split(".")[-1] in ("__init__", "__new__", "__post_init__", "__call__") for q, _ in targets):
                    rs = set()      # a new object: it may hold its constructor arguments
                    for a in e.args:
                        rs |= roots(a, scope)
                    for kw in e.keywords:
                        rs |= roots(kw.value, scope)
                    return rs
                if targets:
                    rs = set()
                    for q, shift in targets:
                        g = A.F[q]
                        for rt in list(g.ret_roots):
                            if rt[0] == "g":
                                rs.add(rt)
                            else:
                                idx = rt[1] - shift
                                if shift and rt[1] == 0 and isinstance(fn, ast.Attribute):
                                    rs |= roots(fn.value, scope)
                                elif 0 <= idx < len(e.args):
                                    rs |= roots(e.args[idx], scope)
                                else:
                                    for kw in e.keywords:
                                        rs |= roots(kw.value, scope)
                    if isinstance(fn, ast.Attribute) and any(s for _, s in targets) and fname in PURE_METHODS | MUTATORS:
                        rs |= roots(fn.value, scope)
                    return rs
                if fname in FRESH_FUNCS and not (isinstance(fn, ast.Attribute) and fname in ("format",)):
                    return set()
                rs = set()
                if isinstance(fn, ast.Attribute):
                    rs |= roots(fn.value, scope)
                for a in e.args:
                    rs |= roots(a, scope)
                for kw in e.keywords:
                    rs |= roots(kw.value, scope)
                return rs
            if isinstance(e, (ast.BoolOp,)):
                return set().union(*[roots(v, scope) for v in e.values])
            if isinstance(e, ast.IfExp):
                return roots(e.body, scope) | roots(e.orelse, scope)
            if isinstance(e, ast.BinOp):
                if not isinstance(e.op, ast.Add):
                    return set()       # arithmetic / set algebra / string formatting build new objects of hashables
                return roots(e.left, scope) | roots(e.right, scope)
            if isinstance(e, (ast.List, ast.Tuple, ast.Set)):
                return set().union(*[roots(v, scope) for v in e.elts]) if e.elts else set()
            if isinstance(e, ast.Dict):
                return set().union(*[roots(v, scope) for v in e.values if v is not None]) if e.values else set()
            if isinstance(e, (ast.ListComp, ast.SetComp, ast.GeneratorExp, ast.DictComp)):
                rs = set()
                sc = Scope(scope, [], [], False)
                for g in e.generators:
                    rs |= roots(g.iter, sc)
                    for n in targets_of(g.target):
                        if isinstance(n, ast.Name):
                            sc.locals.add(n.id)
                return rs
            if isinstance(e, ast.NamedExpr):
                return roots(e.value, scope)
            if isinstance(e, ast.Await):
                return roots(e.value, scope)
            return set()

        def mutate(rs, node):
            for rt in rs:
                if rt[0] == "g":
                    if rt[1] not in fi.writes:
                        fi.writes.add(rt[1])
                    A.why.setdefault((fi.q, rt[1]), getattr(node, "lineno", 0))
                    fi.inplace.add(rt[1])
                    fi.selfreads.add(rt[1])
                else:
                    fi.mut_params.add(rt[1])

        def bind(target, rs, scope, value_ast=None):
            if not isinstance(target, ast.Name):
                value_ast = None
            for n in targets_of(target):
                if isinstance(n, ast.Name):
                    r = resolve_name(n.id, n, scope) if not scope.is_local(n.id) else ("local",)
                    if r[0] == "local":
                        old = env.get(n.id, set())
                        if not rs <= old:
                            env[n.id] = old | rs
                            self_changed[0] = True
                    elif r[0] == "var":
                        fi.writes.add(r[1])
                        fi.rebinding.add(r[1])
                        fi.rebind_values.append((r[1], value_ast))
                        # the variable now (also) holds the objects rs
                        for rt in rs:
                            if rt[0] == "g" and rt[1] != r[1]:
                                A.alias.setdefault(r[1], set()).add(rt[1])
                            elif rt[0] == "p":
                                pass
                    else:
                        fail(mod, n, "assignment to non-variable global %s" % n.id)
                elif isinstance(n, (ast.Attribute, ast.Subscript)):
                    store_into(n, rs, scope)
                else:
                    fail(mod, n, "unsupported assignment target")

        def store_into(n, rs, scope):
            """n is an Attribute/Subscript store target; the stored value has roots rs"""
            if isinstance(n, ast.Attribute):
                m = resolve_module_chain(n.value, scope)
                if m is not None:
                    if m not in A.mods:
                        fail(mod, n, "attribute store on package %s" % m)
                    m2 = A.mods[m]
                    if n.attr not in m2.vars:
                        # a new module attribute created from outside: register it as a variable
                        m2.vars.add(n.attr)
                    v = A.var(m, n.attr)
                    fi.writes.add(v)
                    fi.rebinding.add(v)
                    fi.rebind_values.append((v, getattr(n, "_value_ast", None)))
                    return
                if isinstance(n.value, ast.Name) and not scope.is_local(n.value.id):
                    r = resolve_name(n.value.id, n.value, scope)
                    if r[0] == "lib":
                        fail(mod, n, "attribute store on library object %s" % n.value.id)
                    if r[0] == "class":
                        cv = "%s.%s.%s" % (r[1], r[2], n.attr)
                        A.classvar_by_attr.setdefault(n.attr, set()).add(cv)
                        A.mods[r[1]].class_vars[r[2]].add(n.attr)
                for cv in classvars(n.attr):
                    fi.writes.add(cv)
                    fi.selfreads.add(cv)
            base = roots(n.value, scope)
            if isinstance(n.value, ast.Name) and scope.is_local(n.value.id):
                mutate(set(env.get(n.value.id, ())), n)
            else:
                mutate(base, n)
            visit_expr(n.value, scope, selfupd=True)
            if isinstance(n, ast.Subscript):
                visit_expr(n.slice, scope)
            # the container now holds rs: local containers become aliases, global ones record alias edges
            b = n.value
            while isinstance(b, (ast.Attribute, ast.Subscript)):
                b = b.value
            if isinstance(b, ast.Name) and scope.is_local(b.id):
                old = held.get(b.id, set())
                if not rs <= old:
                    held[b.id] = old | rs
                    self_changed[0] = True
            for bt in base:
                if bt[0] == "g":
                    for rt in rs:
                        if rt[0] == "g" and rt[1] != bt[1]:
                            A.alias.setdefault(bt[1], set()).add(rt[1])

        def call_targets(e, scope, record=True):
            """project functions a call may invoke: list of (qualname, shift) where shift=1 when the
            receiver is passed as parameter 0"""
            fn = e.func
            out = []
            if isinstance(fn, ast.Name):
                r = resolve_name(fn.id, fn, scope)
                if r[0] == "func":
                    out.append((r[1], 0))
                elif r[0] == "class":
                    out += instantiate(r[1], r[2])
                elif r[0] == "builtin" and fn.id in FORBIDDEN_NAMES:
                    fail(mod, e, "call of %s" % fn.id)
            elif isinstance(fn, ast.Attribute):
                m = resolve_module_chain(fn.value, scope)
                if m is not None and m in A.mods:
                    m2 = A.mods[m]
                    if fn.attr in m2.funcs:
                        out.append((m + ":" + fn.attr, 0))
                    elif fn.attr in m2.classes:
                        out += instantiate(m, fn.attr)
                    elif fn.attr in m2.vars or fn.attr in m2.from_imp or fn.attr in m2.lib_names:
                        pass
                    else:
                        fail(mod, e, "unknown attribute %s of module %s" % (fn.attr, m))
                else:
                    is_lib = isinstance(fn.value, ast.Name) and not scope.is_local(fn.value.id) and \
                        resolve_name(fn.value.id, fn.value, scope)[0] == "lib"
                    libchain = fn.value
                    while isinstance(libchain, (ast.Attribute, ast.Call, ast.Subscript)):
                        libchain = libchain.func if isinstance(libchain, ast.Call) else libchain.value
                    if isinstance(libchain, ast.Name) and not scope.is_local(libchain.id) and \
                            libchain.id in mod.lib_names:
                        is_lib = True
                    if isinstance(fn.value, ast.Call) and isinstance(fn.value.func, ast.Name) and fn.value.func.id == "super":
                        for q in A.methods_by_name.get(fn.attr, ()):
                            out.append((q, 1))
                    elif not is_lib:
                        ms = A.methods_by_name.get(fn.attr, set())
                        for q in ms:
                            out.append((q, 1))
                        # a class referenced through a name: static/class method style call
                        if not ms and fn.attr not in PURE_METHODS and fn.attr not in MUTATORS and \
                                fn.attr not in EXTERNAL_METHODS:
                            if record:
                                fi.unresolved_methods.add((fn.attr, getattr(e, "lineno", 0)))
            return out

        def instantiate(mname, cname):
            out = []
            m2 = A.mods[mname]
            seen, todo = set(), [(mname, cname)]
            while todo:
                mn, cn = todo.pop()
                if (mn, cn) in seen:
                    continue
                seen.add((mn, cn))
                mm = A.mods[mn]
                cd = mm.classes[cn]
                for meth in ("__init__", "__new__", "__post_init__"):
                    if cn + "." + meth in mm.funcs:
                        out.append((mn + ":" + cn + "." + meth, 1))
                for kw in cd.keywords:
                    if kw.arg == "metaclass":
                        for q in A.methods_by_name.get("__call__", ()):
                            out.append((q, 1))
                for b in cd.bases:
                    if isinstance(b, ast.Name):
                        if b.id in mm.classes:
                            todo.append((mn, b.id))
                        elif b.id in mm.from_imp and mm.from_imp[b.id][0] in A.mods and \
                                mm.from_imp[b.id][1] in A.mods[mm.from_imp[b.id][0]].classes:
                            todo.append(mm.from_imp[b.id])
            return out

        def visit_call(e, scope):
            fn = e.func
            fname = fn.id if isinstance(fn, ast.Name) else (fn.attr if isinstance(fn, ast.Attribute) else None)
            if fname in ("getattr",) and len(e.args) >= 2 and not isinstance(e.args[1], ast.Constant):
                fail(mod, e, "getattr with computed name")
            tg = call_targets(e, scope)
            for q, shift in tg:
                fi.calls.add(q)
                g = A.F[q]
                for idx in list(g.mut_params):
                    if shift and idx == 0:
                        if isinstance(fn, ast.Attribute):
                            mutate(roots(fn.value, scope), e)
                    else:
                        ai = idx - shift
                        pn = g.params[idx] if idx < len(g.params) else None
                        done = False
                        if 0 <= ai < len(e.args) and not any(isinstance(a, ast.Starred) for a in e.args[:ai + 1]):
                            mutate(roots(e.args[ai], scope), e)
                            done = True
                        for kw in e.keywords:
                            if kw.arg is None or kw.arg == pn:
                                mutate(roots(kw.value, scope), e)
                                done = True
                        if not done and any(isinstance(a, ast.Starred) for a in e.args):
                            for a in e.args:
                                mutate(roots(a, scope), e)
            if isinstance(fn, ast.Attribute):
                if fn.attr in MUTATORS:
                    base = roots(fn.value, scope)
                    if isinstance(fn.value, ast.Name) and scope.is_local(fn.value.id):
                        mutate(set(env.get(fn.value.id, ())), e)
                    else:
                        mutate(base, e)
                    vrs = set()
                    for a in e.args:
                        vrs |= roots(a, scope)
                    b = fn.value
                    while isinstance(b, (ast.Attribute, ast.Subscript)):
                        b = b.value
                    if isinstance(b, ast.Name) and scope.is_local(b.id) and vrs:
                        old = held.get(b.id, set())
                        if not vrs <= old:
                            held[b.id] = old | vrs
                            self_changed[0] = True
                    for bt in base:
                        if bt[0] == "g":
                            for rt in vrs:
                                if rt[0] == "g" and rt[1] != bt[1]:
                                    A.alias.setdefault(bt[1], set()).add(rt[1])
                    # a bare statement `x.append(e)` on a variable is a self-update, otherwise a genuine read
                    if isinstance(fn.value, ast.Name) and getattr(e, "_is_stmt", False):
                        e._selfupd = True
                elif not tg and fn.attr not in PURE_METHODS:
                    m = resolve_module_chain(fn.value, scope)
                    if m is None:
                        # unknown method on some object: assume it may mutate the receiver
                        lib = fn.value
                        while isinstance(lib, (ast.Attribute, ast.Call, ast.Subscript)):
                            lib = lib.func if isinstance(lib, ast.Call) else lib.value
                        if not (isinstance(lib, ast.Name) and not scope.is_local(lib.id) and lib.id in mod.lib_names):
                            mutate(roots(fn.value, scope), e)
            if fname in MUTATING_LIB_FUNCS and e.args:
                mutate(roots(e.args[0], scope), e)
            # visit sub-expressions
            if isinstance(fn, ast.Attribute):
                visit_expr(fn.value, scope, selfupd=getattr(e, "_selfupd", False))
            elif isinstance(fn, ast.Name):
                visit_name(fn, scope)
            else:
                visit_expr(fn, scope)
            for a in e.args:
                visit_expr(a, scope)
            for kw in e.keywords:
                visit_expr(kw.value, scope)

        def visit_name(n, scope, selfupd=False):
            if n.id in fi.mutable_defaults and scope.is_local(n.id):
                add_read(fi.q.replace(":", ".") + "$" + n.id, selfupd)
            r = resolve_name(n.id, n, scope)
            if r[0] == "var":
                add_read(r[1], selfupd)
                if len(r) > 2:
                    fi.reads.add(r[1])
                    A.fromimport_vars.add(r[1])
            elif r[0] == "func":
                fi.calls.add(r[1])
            elif r[0] == "class":
                for q, _ in instantiate(r[1], r[2]):
                    fi.calls.add(q)
            elif r[0] == "builtin" and n.id in FORBIDDEN_NAMES:
                fail(mod, n, "use of %s" % n.id)

        def visit_expr(e, scope, selfupd=False):
            if e is None:
                return
            if isinstance(e, ast.Name):
                if isinstance(e.ctx, ast.Load):
                    visit_name(e, scope, selfupd)
                return
            if isinstance(e, ast.Attribute):
                m = resolve_module_chain(e, scope)
                if m is not None:
                    return
                m = resolve_module_chain(e.value, scope)
                if m is not None and m in A.mods:
                    m2 = A.mods[m]
                    if e.attr in m2.vars:
                        add_read(A.var(m, e.attr), selfupd)
                    elif e.attr in m2.funcs:
                        fi.calls.add(m + ":" + e.attr)
                    elif e.attr in m2.classes:
                        for q, _ in instantiate(m, e.attr):
                            fi.calls.add(q)
                    elif e.attr in m2.from_imp or e.attr in m2.lib_names or e.attr in m2.mod_alias:
                        pass
                    else:
                        fail(mod, e, "unknown attribute %s of module %s" % (e.attr, m))
                    return
                for q in A.props_by_name.get(e.attr, ()):
                    fi.calls.add(q)
                for cv in classvars(e.attr):
                    add_read(cv, selfupd)
                visit_expr(e.value, scope, selfupd)
                return
            if isinstance(e, ast.Call):
                visit_call(e, scope)
                return
            if isinstance(e, ast.Lambda):
                a = e.args
                ps = [x.arg for x in a.posonlyargs + a.args + a.kwonlyargs] + ([a.vararg.arg] if a.vararg else []) + \
                     ([a.kwarg.arg] if a.kwarg else [])
                sc = Scope(scope, ps, [], False)
                for d in list(a.defaults) + [d for d in a.kw_defaults if d is not None]:
                    visit_expr(d, scope)
                visit_expr(e.body, sc)
                return
            if isinstance(e, (ast.ListComp, ast.SetComp, ast.GeneratorExp, ast.DictComp)):
                sc = Scope(scope, [], [], False)
                for g in e.generators:
                    visit_expr(g.iter, sc)
                    rs = roots(g.iter, sc)
                    for n in targets_of(g.target):
                        if isinstance(n, ast.Name):
                            sc.locals.add(n.id)
                            old = env.get(n.id, set())
                            if not rs <= old:
                                env[n.id] = old | rs
                                self_changed[0] = True
                    for c in g.ifs:
                        visit_expr(c, sc)
                if isinstance(e, ast.DictComp):
                    visit_expr(e.key, sc)
                    visit_expr(e.value, sc)
                else:
                    visit_expr(e.elt, sc)
                return
            if isinstance(e, ast.NamedExpr):
                visit_expr(e.value, scope)
                bind(e.target, roots(e.value, scope), scope)
                return
            if isinstance(e, (ast.Yield, ast.YieldFrom)):
                if e.value is not None:
                    visit_expr(e.value, scope)
                    rs = roots(e.value, scope)
                    if not rs <= fi.ret_roots:
                        fi.ret_roots |= rs
                return
            if isinstance(e, ast.Subscript):
                visit_expr(e.value, scope, selfupd)
                visit_expr(e.slice, scope, False)
                return
            for c in ast.iter_child_nodes(e):
                if isinstance(c, ast.expr):
                    visit_expr(c, scope, False)
                elif isinstance(c, (ast.comprehension,)):
                    fail(mod, e, "unexpected comprehension")
                elif isinstance(c, ast.keyword):
                    visit_expr(c.value, scope)
                elif isinstance(c, ast.FormattedValue):
                    visit_expr(c.value, scope)

        def visit_stmt(st, scope):
            if isinstance(st, (ast.FunctionDef, ast.AsyncFunctionDef)):
                a = st.args
                ps = [x.arg for x in a.posonlyargs + a.args + a.kwonlyargs] + ([a.vararg.arg] if a.vararg else []) + \
                     ([a.kwarg.arg] if a.kwarg else [])
                for d in list(a.defaults) + [d for d in a.kw_defaults if d is not None]:
                    visit_expr(d, scope)
                sc = Scope(scope, ps, st.body, True)
                for s in st.body:
                    visit_stmt(s, sc)
                return
            if isinstance(st, ast.Global):
                return
            if isinstance(st, (ast.Import, ast.ImportFrom)):
                names = [a.name for a in st.names] if isinstance(st, ast.Import) else [st.module]
                for nm in names:
                    if nm and (modfile(nm) or is_project_pkg(nm)) and nm.split(".")[0] not in EXCLUDED:
                        A.func_level_imports.append((fi.q, nm, st.lineno))
                return
            if isinstance(st, ast.Assign):
                visit_expr(st.value, scope)
                rs = roots(st.value, scope)
                for t in st.targets:
                    if isinstance(t, ast.Attribute):
                        t._value_ast = st.value
                    bind(t, rs, scope, st.value)
                return
            if isinstance(st, ast.AnnAssign):
                if st.value is not None:
                    visit_expr(st.value, scope)
                    bind(st.target, roots(st.value, scope), scope)
                return
            if isinstance(st, ast.AugAssign):
                visit_expr(st.value, scope)
                t = st.target
                if isinstance(t, ast.Name):
                    r = resolve_name(t.id, t, scope) if not scope.is_local(t.id) else ("local",)
                    if r[0] == "var":
                        fi.writes.add(r[1])
                        fi.selfreads.add(r[1])
                        fi.aug.add(r[1])
                        fi.rebind_values.append((r[1], st.value))
                        for rt in roots(st.value, scope):
                            if rt[0] == "g" and rt[1] != r[1]:
                                A.alias.setdefault(r[1], set()).add(rt[1])
                    elif r[0] == "local":
                        mutate(env.get(t.id, set()), st)
                        bind(t, roots(st.value, scope), scope)
                    else:
                        fail(mod, st, "augmented assignment to %s" % t.id)
                else:
                    store_into(t, roots(st.value, scope), scope)
                return
            if isinstance(st, ast.Delete):
                for t in st.targets:
                    if isinstance(t, ast.Name):
                        if not scope.is_local(t.id):
                            r = resolve_name(t.id, t, scope)
                            if r[0] == "var":
                                fi.writes.add(r[1])
                                fi.rebinding.add(r[1])
                                fi.rebind_values.append((r[1], None))
                    else:
                        store_into(t, set(), scope)
                return
            if isinstance(st, ast.Return):
                if st.value is not None:
                    visit_expr(st.value, scope)
                    rs = roots(st.value, scope)
                    if not rs <= fi.ret_roots:
                        fi.ret_roots |= rs
                return
            if isinstance(st, ast.Expr):
                if isinstance(st.value, ast.Call):
                    st.value._is_stmt = True
                visit_expr(st.value, scope)
                return
            if isinstance(st, (ast.For, ast.AsyncFor)):
                visit_expr(st.iter, scope)
                bind(st.target, roots(st.iter, scope), scope)
                for s in st.body + st.orelse:
                    visit_stmt(s, scope)
                return
            if isinstance(st, ast.While):
                visit_expr(st.test, scope)
                for s in st.body + st.orelse:
                    visit_stmt(s, scope)
                return
            if isinstance(st, ast.If):
                visit_expr(st.test, scope)
                for s in st.body + st.orelse:
                    visit_stmt(s, scope)
                return
            if isinstance(st, (ast.With, ast.AsyncWith)):
                for it in st.items:
                    visit_expr(it.context_expr, scope)
                    if it.optional_vars is not None:
                        bind(it.optional_vars, roots(it.context_expr, scope), scope)
                for s in st.body:
                    visit_stmt(s, scope)
                return
            if isinstance(st, ast.Try):
                for s in st.body + st.orelse + st.finalbody:
                    visit_stmt(s, scope)
                for h in st.handlers:
                    if h.type is not None:
                        visit_expr(h.type, scope)
                    for s in h.body:
                        visit_stmt(s, scope)
                return
            if isinstance(st, ast.Raise):
                visit_expr(st.exc, scope)
                visit_expr(st.cause, scope)
                return
            if isinstance(st, ast.Assert):
                visit_expr(st.test, scope)
                visit_expr(st.msg, scope)
                return
            if isinstance(st, (ast.Pass, ast.Break, ast.Continue)):
                return
            fail(mod, st, "unsupported statement %s" % type(st).__name__)

        node = fi.node
        fi.rebind_values = []
        top = Scope(None, fi.params, node.body, True)
        before = (frozenset(fi.reads), frozenset(fi.selfreads), frozenset(fi.writes), frozenset(fi.calls),
                  frozenset(fi.mut_params), frozenset(fi.ret_roots))
        for d in list(node.args.defaults) + [d for d in node.args.kw_defaults if d is not None]:
            visit_expr(d, top)
        for _ in range(4):
            self_changed[0] = False
            for s in node.body:
                visit_stmt(s, top)
            if not self_changed[0]:
                break
        fi.top_scope = top
        fi.resolve_name = lambda name, n, sc=top: resolve_name(name, n, sc)
        after = (frozenset(fi.reads), frozenset(fi.selfreads), frozenset(fi.writes), frozenset(fi.calls),
                 frozenset(fi.mut_params), frozenset(fi.ret_roots))
        return before != after

    def literal_depth_of(self, e):
        """container depth of a literal display with constant leaves; None if not such a literal"""
        if isinstance(e, ast.Constant):
            return 0
        if isinstance(e, ast.UnaryOp) and isinstance(e.operand, ast.Constant):
            return 0
        if isinstance(e, ast.BinOp):
            a, b = self.literal_depth_of(e.left), self.literal_depth_of(e.right)
            return 0 if a == 0 and b == 0 else None
        if isinstance(e, (ast.List, ast.Tuple, ast.Set)):
            ds = [self.literal_depth_of(x) for x in e.elts]
            if any(d is None for d in ds):
                return None
            return 1 + max(ds + [0])
        if isinstance(e, ast.Dict):
            ds = [self.literal_depth_of(x) for x in e.values if x is not None]
            if any(d is None for d in ds) or any(k is None for k in e.keys):
                return None
            return 1 + max(ds + [0])
        return None

    def is_str_concat(self, e):
        """`"lit" + x` / `x + "lit"`: a str whatever x is (or a TypeError)"""
        if isinstance(e, ast.BinOp) and isinstance(e.op, (ast.Add, ast.Mod)):
            for side in (e.left, e.right):
                if isinstance(side, ast.Constant) and isinstance(side.value, str):
                    return True
                if self.is_str_concat(side):
                    return True
        return False

    def immutable_expr(self, e, mod, seen=(), fnode=None):
        if e is None:
            return False
        if self.is_str_concat(e):
            return True
        if isinstance(e, ast.Name) and fnode is not None and e.id not in mod.vars:
            # a local name all of whose bindings in the function are immutable constants
            a = fnode.args
            if e.id in [x.arg for x in a.posonlyargs + a.args + a.kwonlyargs]:
                return False
            vals, other = [], False
            for n in ast.walk(fnode):
                if isinstance(n, ast.Assign) and any(isinstance(t, ast.Name) and t.id == e.id for t in n.targets):
                    vals.append(n.value)
                elif isinstance(n, ast.Name) and n.id == e.id and isinstance(n.ctx, (ast.Store, ast.Del)):
                    other = True
            nstores = sum(1 for n in ast.walk(fnode) if isinstance(n, ast.Name) and n.id == e.id and isinstance(n.ctx, ast.Store))
            return bool(vals) and nstores == len(vals) and all(
                isinstance(v, (ast.Constant, ast.JoinedStr)) or self.is_str_concat(v) for v in vals)
        if isinstance(e, (ast.Constant, ast.JoinedStr, ast.Compare)):
            return True
        if isinstance(e, ast.BinOp):
            return self.immutable_expr(e.left, mod, seen) and self.immutable_expr(e.right, mod, seen)
        if isinstance(e, ast.UnaryOp):
            return self.immutable_expr(e.operand, mod, seen)
        if isinstance(e, ast.Tuple):
            return all(self.immutable_expr(x, mod, seen) for x in e.elts)
        if isinstance(e, ast.Call):
            f = e.func
            if isinstance(f, ast.Name) and f.id in ("str", "int", "len", "bool", "float", "hex", "round", "abs"):
                return True
            txt = ast.unparse(f)
            if txt.startswith("os.path.") or txt in ("os.getcwd",):
                return True
            return False
        if isinstance(e, ast.Attribute) and e.attr == "hex" and ast.unparse(e).startswith("uuid."):
            return True
        if isinstance(e, ast.Name):
            if e.id in mod.vars and e.id not in seen:
                return self.immutable_var(self.var(mod.name, e.id), seen + (e.id,))
            return e.id in ("__file__", "__name__")
        return False

    def immutable_var(self, v, seen=()):
        if v in self._imm_cache:
            return self._imm_cache[v]
        res = False
        info = self.var_home.get(v)
        if info is not None:
            mod, key, enum = info
            if enum:
                res = True
            else:
                init = mod.init_value.get(key)
                vals = self.rebinds.get(v, [])
                res = (init is not None or vals) and (init is None or self.immutable_expr(init, mod, seen)) and \
                    all(val is not None and self.immutable_expr(val, fi2.mod, seen, fi2.node) for fi2, val in vals)
        self._imm_cache[v] = bool(res)
        return bool(res)

    def prepass(self):
        self.rebound = set()
        self.literal_depth = {}
        self.var_home = {}
        for mod in self.mods.values():
            for v in mod.vars:
                self.var_home[self.var(mod.name, v)] = (mod, v, False)
                d = self.literal_depth_of(mod.init_value.get(v)) if v in mod.init_value else None
                if d is not None and d >= 1:
                    self.literal_depth[self.var(mod.name, v)] = d
            for cn, cv in mod.class_vars.items():
                cd = mod.classes[cn]
                enum = any(ast.unparse(b).split(".")[-1] in ("Enum", "IntEnum", "Flag", "IntFlag") for b in cd.bases)
                for a in cv:
                    self.var_home["%s.%s.%s" % (mod.name, cn, a)] = (mod, cn + "." + a, enum)
            for qn, node in mod.funcs.items():
                gl = set()
                for n in ast.walk(node):
                    if isinstance(n, ast.Global):
                        gl.update(n.names)
                for n in ast.walk(node):
                    if isinstance(n, ast.Name) and isinstance(n.ctx, (ast.Store, ast.Del)) and n.id in gl:
                        self.rebound.add(self.var(mod.name, n.id))
                    if isinstance(n, ast.Attribute) and isinstance(n.ctx, (ast.Store, ast.Del)) and \
                            isinstance(n.value, ast.Name) and n.value.id in mod.mod_alias:
                        self.rebound.add(self.var(mod.mod_alias[n.value.id], n.attr))

    def run(self):
        self.func_level_imports = []
        self.fromimport_vars = set()
        self.prepass()
        for it in range(12):
            changed = False
            self.func_level_imports = []
            for fi in self.F.values():
                if self.analyse_function(fi):
                    changed = True
            if not changed:
                break
        else:
            raise Unclassified("summaries did not stabilise")
        # immutable-valued variables cannot be mutated in place: drop such (over-approximated) writes
        self.rebinds = {}
        for fi in self.F.values():
            for v, val in fi.rebind_values:
                self.rebinds.setdefault(v, []).append((fi, val))
        self._imm_cache = {}
        self.immutable = sorted(v for v in self.var_home if self.immutable_var(v))
        imm = set(self.immutable)
        for v in imm:
            self.alias.pop(v, None)
        for v in self.alias:
            self.alias[v] -= imm
        for fi in self.F.values():
            for v in list(fi.inplace):
                if v in imm:
                    fi.inplace.discard(v)
                    if v not in fi.rebinding and v not in fi.aug:
                        fi.writes.discard(v)
                        fi.selfreads.discard(v)
        # alias closure: in-place writes to v are writes to everything v may contain
        changed = True
        while changed:
            changed = False
            for fi in self.F.values():
                for v in list(fi.inplace):
                    for w in self.alias.get(v, ()):
                        if w not in fi.inplace:
                            fi.writes.add(w)
                            fi.inplace.add(w)
                            fi.selfreads.add(w)
                            changed = True
        # unresolved method names are fatal (fail closed)
        unresolved = sorted({(m, fi.q, ln) for fi in self.F.values() for (m, ln) in fi.unresolved_methods})
        if unresolved:
            raise Unclassified("method names that are neither project methods nor on the built-in lists: %s" %
                               ", ".join(sorted({u[0] for u in unresolved})))
        # from-imported variables must never be re-bound (the importer would keep a stale object)
        for v in self.fromimport_vars:
            for fi in self.F.values():
                if v in fi.rebinding:
                    raise Unclassified("variable %s is imported with from-import and re-bound in %s" % (v, fi.q))


# ---------------------------------------------------------------------------
# flow analysis: RB (read before reset) and MR (must reset)

class Flow:
    def __init__(self, A):
        self.A = A
        self.effR = {}    # q -> all reads (direct genuine + selfreads)

    def stmt_calls(self, fi, st):
        """callee qualnames syntactically inside statement st (using the per-function call resolution
        by name: conservative superset = callees of the whole function whose simple name occurs)"""
        names = set()
        for n in ast.walk(st):
            if isinstance(n, ast.Name):
                names.add(n.id)
            elif isinstance(n, ast.Attribute):
                names.add(n.attr)
        out = set()
        for q in fi.calls:
            short = q.split(":")[1].split(".")[-1]
            cls = q.split(":")[1].split(".")[0]
            if short in names or (short in ("__init__", "__new__", "__post_init__", "__call__") and cls in names) or \
                    (short == "__call__"):
                out.add(q)
        return out

    def unique_callee(self, fi, call):
        """the single project function a statement-level call certainly invokes, else None"""
        fn = call.func
        mod = fi.mod
        if isinstance(fn, ast.Name):
            if fi.top_scope.is_local(fn.id):
                return None
            if fn.id in mod.funcs and fn.id not in mod.vars:
                return mod.name + ":" + fn.id
            if fn.id in mod.from_imp:
                m2, orig = mod.from_imp[fn.id]
                if m2 in self.A.mods and orig in self.A.mods[m2].funcs:
                    return m2 + ":" + orig
        elif isinstance(fn, ast.Attribute) and isinstance(fn.value, ast.Name) and not fi.top_scope.is_local(fn.value.id):
            if fn.value.id in mod.mod_alias:
                m2 = mod.mod_alias[fn.value.id]
                if m2 in self.A.mods and fn.attr in self.A.mods[m2].funcs:
                    return m2 + ":" + fn.attr
        return None

    def direct_rw(self, fi, node):
        """variables read / rebinding-assigned directly by the simple statement or expression `node`,
        computed by name against the function's own footprint (conservative: a variable of the
        footprint is read by the statement if its simple name occurs in it)."""
        names = set()
        for n in ast.walk(node):
            if isinstance(n, ast.Name):
                names.add(n.id)
            elif isinstance(n, ast.Attribute):
                names.add(n.attr)
        rd = set()
        for v in fi.reads | fi.selfreads:
            short = v.split("$")[-1] if "$" in v else v.split(".")[-1]
            if short in names:
                rd.add(v)
        # local aliases of globals: any read through an alias counts whenever the function has aliases
        return rd

    def analyse(self, reach):
        A = self.A
        RB = {q: set() for q in A.F}
        MR = {q: set() for q in A.F}
        allreads = {q: set(A.F[q].reads | A.F[q].selfreads) for q in A.F}
        covered_pseudo = {}
        for v, spec in COVERED.items():
            if spec["kind"] == "guarded_const":
                covered_pseudo[v] = spec

        def assigned_vars(fi, st):
            """variables definitely re-bound by simple statement st (plain `v = e` under global)"""
            out = set()
            if isinstance(st, ast.Assign):
                for t in st.targets:
                    if isinstance(t, ast.Name) and not fi.top_scope.is_local(t.id) and t.id in fi.mod.vars:
                        out.add(A.var(fi.mod.name, t.id))
            return out

        indirect = {}
        for q, fi in A.F.items():
            names = set()
            for n in ast.walk(fi.node):
                if isinstance(n, ast.Name):
                    names.add(n.id)
                elif isinstance(n, ast.Attribute):
                    names.add(n.attr)
            indirect[q] = {v for v in fi.reads
                           if (v.split("$")[-1] if "$" in v else v.split(".")[-1]) not in names}

        def run_block(fi, stmts, D, acc):
            """abstractly execute stmts with definitely-determined set D; acc collects RB; returns
            (D_after or None when the block never completes normally, list of D at return points)"""
            rets = []
            for st in stmts:
                if D is None:
                    break
                if isinstance(st, (ast.Global, ast.Pass, ast.Import, ast.ImportFrom)):
                    continue
                if isinstance(st, (ast.FunctionDef, ast.AsyncFunctionDef)):
                    # nested def: its body runs when called; its reads count at definition point (conservative)
                    acc |= (self.direct_rw(fi, st) - D)
                    for q in self.stmt_calls(fi, st):
                        acc |= (RB[q] - D)
                    continue
                if isinstance(st, ast.If):
                    acc |= (self.direct_rw(fi, st.test) - D)
                    for q in self.stmt_calls(fi, st.test):
                        acc |= (RB[q] - D)
                    # guarded constant assignment of a COVERED name: `if <param>: v = CONST` determines v
                    extra = set()
                    for v, spec in covered_pseudo.items():
                        if spec["writer"] == fi.q and isinstance(st.test, ast.Name) and st.test.id == spec["guard_param"] \
                                and not st.orelse:
                            for s2 in st.body:
                                if isinstance(s2, ast.Assign) and len(s2.targets) == 1 and isinstance(s2.targets[0], ast.Name) \
                                        and A.var(fi.mod.name, s2.targets[0].id) == v:
                                    extra.add(v)
                    d1, r1 = run_block(fi, st.body, set(D), acc)
                    d2, r2 = run_block(fi, st.orelse, set(D), acc)
                    rets += r1 + r2
                    if d1 is None and d2 is None:
                        D = None
                    elif d1 is None:
                        D = d2
                    elif d2 is None:
                        D = d1
                    else:
                        D = d1 & d2
                    if D is not None:
                        D = D | extra
                    continue
                if isinstance(st, (ast.For, ast.AsyncFor, ast.While)):
                    hdr = st.iter if not isinstance(st, ast.While) else st.test
                    acc |= (self.direct_rw(fi, hdr) - D)
                    for q in self.stmt_calls(fi, hdr):
                        acc |= (RB[q] - D)
                    if not isinstance(st, ast.While):
                        acc |= (self.direct_rw(fi, st.target) - D)
                    d1, r1 = run_block(fi, st.body, set(D), acc)     # zero or more iterations: D unchanged after
                    rets += r1
                    d2, r2 = run_block(fi, st.orelse, set(D), acc)
                    rets += r2
                    continue
                if isinstance(st, (ast.With, ast.AsyncWith)):
                    for it in st.items:
                        acc |= (self.direct_rw(fi, it.context_expr) - D)
                        for q in self.stmt_calls(fi, it.context_expr):
                            acc |= (RB[q] - D)
                    D, r1 = run_block(fi, st.body, D, acc)
                    rets += r1
                    continue
                if isinstance(st, ast.Try):
                    D0 = set(D)
                    d1, r1 = run_block(fi, st.body, set(D), acc)
                    rets += r1
                    if d1 is not None:
                        d1, r2 = run_block(fi, st.orelse, d1, acc)
                        rets += r2
                    outs = [d1] if d1 is not None else []
                    for h in st.handlers:
                        # the handler may start from any prefix of the body: only D0 is certain
                        dh, rh = run_block(fi, h.body, set(D0), acc)
                        rets += rh
                        if dh is not None:
                            outs.append(dh)
                    if not outs:
                        D = None
                    else:
                        D = set.intersection(*outs)
                    if st.finalbody:
                        D, rf = run_block(fi, st.finalbody, D if D is not None else set(D0), acc)
                        rets += rf
                    continue
                if isinstance(st, ast.Return):
                    if st.value is not None:
                        acc |= (self.direct_rw(fi, st.value) - D)
                        for q in self.stmt_calls(fi, st.value):
                            acc |= (RB[q] - D)
                    rets.append(set(D))
                    D = None
                    continue
                if isinstance(st, ast.Raise):
                    acc |= (self.direct_rw(fi, st) - D)
                    for q in self.stmt_calls(fi, st):
                        acc |= (RB[q] - D)
                    D = None
                    continue
                # simple statement
                val = st
                tgt_assigned = assigned_vars(fi, st)
                if isinstance(st, ast.Assign):
                    rd = self.direct_rw(fi, st.value)
                    for t in st.targets:
                        if not isinstance(t, ast.Name):
                            rd |= self.direct_rw(fi, t)
                    val = st.value
                else:
                    rd = self.direct_rw(fi, st)
                acc |= (rd - D)
                for q in self.stmt_calls(fi, st):
                    acc |= (RB[q] - D)
                # must-reset contribution of an unconditional statement-level call
                call = None
                if isinstance(st, ast.Expr) and isinstance(st.value, ast.Call):
                    call = st.value
                elif isinstance(st, ast.Assign) and isinstance(st.value, ast.Call):
                    call = st.value
                if call is not None:
                    q = self.unique_callee(fi, call)
                    if q is not None:
                        # arguments are evaluated before the call; nested project calls inside the arguments
                        # were already accounted for in acc with the D before the statement
                        D = D | MR[q]
                D = D | tgt_assigned
            return D, rets

        # phase 1: MR (least fixpoint from the empty set: conservative for a must-analysis)
        for it in range(60):
            changed = False
            for q, fi in A.F.items():
                D, rets = run_block(fi, fi.node.body, set(), set())
                outs = rets + ([D] if D is not None else [])
                mr = set.intersection(*outs) if outs else set()
                if mr != MR[q]:
                    MR[q] = mr
                    changed = True
            if not changed:
                break
        else:
            raise Unclassified("must-reset analysis did not stabilise")
        # phase 2: RB with MR frozen (monotone, least fixpoint)
        for it in range(60):
            changed = False
            for q, fi in A.F.items():
                acc = set(indirect[q])     # accesses through aliases / callees' parameters: assumed at entry
                run_block(fi, fi.node.body, set(), acc)
                if not acc <= RB[q]:
                    RB[q] = RB[q] | acc
                    changed = True
            if not changed:
                break
        else:
            raise Unclassified("read-before-reset analysis did not stabilise")
        return RB, MR


# ---------------------------------------------------------------------------
# driver

def reachable(A, roots):
    seen, todo = set(), list(roots)
    while todo:
        q = todo.pop()
        if q in seen:
            continue
        seen.add(q)
        for c in A.F[q].calls:
            todo.append(c)
        if len(seen) == 1 or True:
            for d in A.dunders:
                if d not in seen:
                    todo.append(d)
    return seen


def _all_parents(tree):
    par = {}
    for n in ast.walk(tree):
        for c in ast.iter_child_nodes(n):
            par[c] = n
    return par


def check_default_arg(A, v, spec):
    """premises for mutable default arguments (hidden module state)"""
    if v not in A.all_vars_cache:
        raise Unclassified("covered default argument %s does not exist any more" % v)
    kind = spec["kind"]
    if kind == "default_never_used":
        n_calls = 0
        for mod in A.mods.values():
            for n in ast.walk(mod.tree):
                if isinstance(n, ast.Call):
                    f = n.func
                    nm = f.id if isinstance(f, ast.Name) else f.attr if isinstance(f, ast.Attribute) else None
                    if nm == spec["function"]:
                        n_calls += 1
                        ok = (len(n.args) > spec["position"] and not any(isinstance(a, ast.Starred) for a in n.args)) or \
                            any(kw.arg == spec["param"] for kw in n.keywords)
                        if not ok:
                            raise Unclassified("covered %s: call at %s:%d relies on the default" % (v, mod.file, n.lineno))
                elif isinstance(n, ast.Name) and n.id == spec["function"] and isinstance(n.ctx, ast.Load):
                    pass
        # the function must not be referenced other than in calls
        for mod in A.mods.values():
            par = _all_parents(mod.tree)
            for n in ast.walk(mod.tree):
                if isinstance(n, ast.Name) and n.id == spec["function"] and isinstance(n.ctx, ast.Load):
                    p = par.get(n)
                    if not (isinstance(p, ast.Call) and p.func is n):
                        raise Unclassified("covered %s: %s escapes as a value at %s:%d" % (v, spec["function"], mod.file, n.lineno))
        return "%d call site(s) of %s, all passing %s explicitly" % (n_calls, spec["function"], spec["param"])
    if kind == "empty_default_guarded":
        holder, user, pn = A.F[spec["holder"]], A.F[spec["user"]], spec["param"]
        dflt = dict(zip([a.arg for a in holder.node.args.args][-len(holder.node.args.defaults):], holder.node.args.defaults)).get(pn)
        if not (isinstance(dflt, ast.Dict) and not dflt.keys):
            raise Unclassified("covered %s: default is not {}" % v)
        par = _all_parents(holder.node)
        for n in ast.walk(holder.node):
            if isinstance(n, ast.Name) and n.id == pn:
                p = par.get(n)
                if not (isinstance(p, ast.Call) and n in p.args and ast.unparse(p.func).split(".")[-1] == spec["user"].split(":")[1]):
                    raise Unclassified("covered %s: used in %s other than as argument of %s" % (v, spec["holder"], spec["user"]))
        par = _all_parents(user.node)
        uses = 0
        for n in ast.walk(user.node):
            if isinstance(n, ast.Name) and n.id == pn:
                uses += 1
                if not isinstance(n.ctx, ast.Load):
                    raise Unclassified("covered %s: parameter re-assigned in %s" % (v, spec["user"]))
                # climb to the closest enclosing If whose test is `... and <pn>`
                ok, c = False, n
                while c in par:
                    p = par[c]
                    if isinstance(p, ast.If):
                        t = p.test
                        guarded = isinstance(t, ast.BoolOp) and isinstance(t.op, ast.And) and \
                            isinstance(t.values[-1], ast.Name) and t.values[-1].id == pn
                        if guarded and (c in p.body or c is t):
                            ok = True
                            break
                    c = p
                if not ok:
                    raise Unclassified("covered %s: unguarded use at line %d of %s" % (v, n.lineno, spec["user"]))
        return "default {}; %d use(s) in %s, each `if ... and %s:` or inside one" % (uses, spec["user"], pn)
    if kind == "attr_readonly":
        attr = spec["attr"]
        n_loads = 0
        for mod in A.mods.values():
            par = _all_parents(mod.tree)
            for n in ast.walk(mod.tree):
                if isinstance(n, ast.Attribute) and n.attr == "get_" + attr:
                    p = par.get(n)
                    raise Unclassified("covered %s: getter get_%s is used at %s:%d" % (v, attr, mod.file, n.lineno))
                if isinstance(n, ast.Attribute) and n.attr == attr:
                    p = par.get(n)
                    if isinstance(n.ctx, ast.Store):
                        if not (isinstance(p, ast.Assign) and isinstance(p.value, ast.Name) and p.value.id == spec["param"]):
                            raise Unclassified("covered %s: attribute assigned at %s:%d" % (v, mod.file, n.lineno))
                    elif isinstance(p, ast.Compare) or (isinstance(p, ast.For) and p.iter is n) or \
                            (isinstance(p, ast.Return) and isinstance(par.get(p), ast.FunctionDef) and par[p].name == "get_" + attr):
                        n_loads += 1
                    else:
                        raise Unclassified("covered %s: attribute used at %s:%d in a way that may mutate it" % (v, mod.file, n.lineno))
        hn = A.F[spec["holder"]].node
        par = _all_parents(hn)
        for n in ast.walk(hn):
            if isinstance(n, ast.Name) and n.id == spec["param"]:
                p = par.get(n)
                if not (isinstance(p, ast.Assign) and p.value is n):
                    raise Unclassified("covered %s: parameter used otherwise in %s" % (v, spec["holder"]))
        return "self.%s only assigned from the parameter, %d read-only uses (==, for); getter never called" % (attr, n_loads)
    raise Unclassified("unknown default-argument kind %s" % kind)


def check_covered(A, tables):
    """Syntactic premises of the invariant-covered names (checked on the AST on every run)."""
    checked = {}
    for v, spec in COVERED.items():
        writers = sorted(q for q, fi in A.F.items() if v in fi.writes)
        if "$" in v:
            checked[v] = check_default_arg(A, v, spec)
            continue
        mname, name = v.rsplit(".", 1)
        mod = A.mods.get(mname)
        if mod is None or name not in mod.vars:
            raise Unclassified("covered name %s does not exist any more" % v)
        if spec["kind"] == "guarded_const":
            init = mod.init_value.get(name)
            if not (isinstance(init, ast.Constant) and init.value is spec["init"]):
                raise Unclassified("covered name %s: initial value is not %r" % (v, spec["init"]))
            if writers != [spec["writer"]]:
                raise Unclassified("covered name %s: written by %s, expected only %s" % (v, writers, spec["writer"]))
            fi = A.F[spec["writer"]]
            if spec["guard_param"] not in fi.params:
                raise Unclassified("covered name %s: guard %s is not a parameter" % (v, spec["guard_param"]))
            for n in ast.walk(fi.node):
                if isinstance(n, ast.Name) and n.id == spec["guard_param"] and isinstance(n.ctx, (ast.Store, ast.Del)):
                    raise Unclassified("covered name %s: guard parameter is re-assigned" % v)
            sites = []
            for st in fi.node.body:
                for n in ast.walk(st):
                    if isinstance(n, (ast.Assign, ast.AugAssign, ast.AnnAssign, ast.Delete, ast.For, ast.With, ast.NamedExpr)):
                        tg = n.targets if isinstance(n, (ast.Assign, ast.Delete)) else \
                            [n.target] if hasattr(n, "target") else [i.optional_vars for i in n.items if i.optional_vars]
                        for t in tg:
                            for x in targets_of(t):
                                if isinstance(x, ast.Name) and x.id == name:
                                    sites.append((st, n))
            if len(sites) != 1:
                raise Unclassified("covered name %s: %d assignment sites, expected 1" % (v, len(sites)))
            st, n = sites[0]
            okshape = isinstance(st, ast.If) and isinstance(st.test, ast.Name) and st.test.id == spec["guard_param"] \
                and not st.orelse and n in st.body and isinstance(n, ast.Assign) and len(n.targets) == 1 \
                and isinstance(n.value, ast.Constant) and n.value.value is spec["const"]
            if not okshape:
                raise Unclassified("covered name %s: assignment is not `if %s: %s = %r` at the top level of %s" %
                                   (v, spec["guard_param"], name, spec["const"], spec["writer"]))
            checked[v] = "if %s: %s = %r (line %d of %s), initial %r, single writer" % (
                spec["guard_param"], name, spec["const"], n.lineno, spec["writer"], spec["init"])
        elif spec["kind"] == "const_same":
            init = mod.init_value.get(name)
            if not (isinstance(init, ast.Constant) and init.value is spec["init"]):
                raise Unclassified("covered name %s: initial value is not %r" % (v, spec["init"]))
            n_sites = 0
            for q in writers:
                fi = A.F[q]
                if v in fi.inplace or v in fi.aug:
                    raise Unclassified("covered name %s: updated in place in %s" % (v, q))
                for vv, val in fi.rebind_values:
                    if vv == v:
                        n_sites += 1
                        if not (isinstance(val, ast.Constant) and val.value is spec["init"]):
                            raise Unclassified("covered name %s: %s assigns something else than %r" % (v, q, spec["init"]))
            if n_sites == 0:
                raise Unclassified("covered name %s: no assignment left (stale entry)" % v)
            checked[v] = "initial %r; %d assignment(s), all `%s = %r`, in %s" % (spec["init"], n_sites, name, spec["init"], ", ".join(writers))
        elif spec["kind"] == "guarded_union":
            if writers != [spec["writer"]]:
                raise Unclassified("covered name %s: written by %s, expected only %s" % (v, writers, spec["writer"]))
            fi = A.F[spec["writer"]]
            body = [s for s in fi.node.body if not isinstance(s, ast.Global)]
            exp = "%s = %s.union(%s)" % (name, name, spec["union_with"])
            if len(body) != 1 or ast.unparse(body[0]) != exp:
                raise Unclassified("covered name %s: body of %s is not `%s`" % (v, spec["writer"], exp))
            other = A.var(mname, spec["union_with"])
            ow = sorted(q for q, f2 in A.F.items() if other in f2.writes)
            if ow:
                raise Unclassified("covered name %s: %s is written by %s" % (v, other, ow))
            callers = sorted(q for q, f2 in A.F.items() if spec["writer"] in f2.calls)
            if callers != sorted(spec["callers"]):
                raise Unclassified("covered name %s: %s is called from %s, expected %s" %
                                   (v, spec["writer"], callers, sorted(spec["callers"])))
            for cq, guard in spec["callers"].items():
                f2 = A.F[cq]
                found = 0
                for st in f2.node.body:
                    if isinstance(st, ast.If) and ast.unparse(st.test) == guard and not st.orelse:
                        for s2 in st.body:
                            if isinstance(s2, ast.Expr) and isinstance(s2.value, ast.Call) and \
                                    ast.unparse(s2.value.func).endswith(spec["writer"].split(":")[1]):
                                found += 1
                total = sum(1 for n in ast.walk(f2.node) if isinstance(n, ast.Call) and
                            ast.unparse(n.func).endswith(spec["writer"].split(":")[1]))
                if found != 1 or total != 1:
                    raise Unclassified("covered name %s: call in %s is not a single top-level `if %s:` call" % (v, cq, guard))
            checked[v] = "`%s` is the whole body of %s; called once under `if %s` in %s; %s never written" % (
                exp, spec["writer"], "`/`if ".join(spec["callers"].values()), ", ".join(spec["callers"]), other)
        else:
            raise Unclassified("unknown covered kind")
    # provenance of the guard parameters: the option values reach smt_translate_block unchanged
    chain = [("gasol_asm:compute_original_sfs_with_simplifications", "evm2rbr_compiler", "storage", "params.split_storage"),
             ("sfs_generator.ir_block:evm2rbr_compiler", "smt_translate_block", 5, "storage")]
    for q, callee, which, expect in chain:
        fi = A.F.get(q)
        if fi is None:
            raise Unclassified("guard provenance: %s missing" % q)
        ok = False
        for n in ast.walk(fi.node):
            if isinstance(n, ast.Call) and ast.unparse(n.func).split(".")[-1] == callee:
                if isinstance(which, int):
                    ok = len(n.args) > which and ast.unparse(n.args[which]) == expect
                else:
                    ok = any(kw.arg == which and ast.unparse(kw.value) == expect for kw in n.keywords)
        if not ok:
            raise Unclassified("guard provenance: %s does not pass %s as %s to %s" % (q, expect, which, callee))
    return checked


def analyse():
    mods = load_modules()
    A = Analysis(mods)
    A.run()
    allv = A.all_vars()
    A.all_vars_cache = allv
    for e in ENTRIES:
        if e not in A.F:
            raise Unclassified("per-block entry %s does not exist" % e)
    reach = reachable(A, ENTRIES)
    for q, nm, ln in A.func_level_imports:
        if q in reach:
            raise Unclassified("function-level import of project module %s in per-block function %s (line %s)" % (nm, q, ln))
    for q in sorted(reach):
        if A.F[q].undefined:
            raise Unclassified("per-block function %s uses undefined global name(s) %s" % (q, sorted(A.F[q].undefined)[:5]))
    flow = Flow(A)
    RB, MR = flow.analyse(reach)
    for e in HISTORY_ROOTS:
        if e not in A.F:
            raise Unclassified("driver function %s does not exist" % e)
    reach_hist = reachable(A, HISTORY_ROOTS)
    writes_all = set().union(*[A.F[q].writes for q in reach_hist])
    reads_pb = set().union(*[A.F[q].reads | A.F[q].selfreads for q in reach])
    genuine_reads_pb = set().union(*[A.F[q].reads for q in reach])
    writes_pb = set().union(*[A.F[q].writes for q in reach])
    rb_entries = set().union(*[RB[e] for e in ENTRIES])
    # dunder methods may run anywhere: their reads are never considered reset
    for d in A.dunders:
        rb_entries |= (A.F[d].reads | A.F[d].selfreads)
    mutable = sorted(v for v in allv if v in writes_all)
    # R: written somewhere, read in the per-block cone, but never before being definitely re-assigned
    R = sorted(v for v in mutable if v in reads_pb and v not in rb_entries and v not in COVERED)
    # pure accumulators: every read in the whole program's functions of the per-block cone is a self-update
    acc = sorted(v for v in mutable if v in reads_pb and v not in genuine_reads_pb and v not in R)
    covered = check_covered(A, None)
    exposed = sorted(v for v in mutable if v in reads_pb and v not in R and v not in acc and v not in covered)
    tables = {
        "n_modules": len(mods), "n_functions": len(A.F), "n_variables": len(allv), "n_mutable": len(mutable),
        "modules": sorted(mods), "variables": sorted(allv), "mutable": mutable,
        "entries": ENTRIES, "reach": sorted(reach), "history_roots": HISTORY_ROOTS, "reach_hist": sorted(reach_hist),
        "dunders": sorted(A.dunders), "immutable": A.immutable,
        "covered_kinds": {v: COVERED[v]["kind"] for v in covered},
        "reads_per_block": sorted(reads_pb), "writes_per_block": sorted(writes_pb), "writes_all": sorted(writes_all),
        "R": R, "accumulators": acc, "covered": covered, "exposed": exposed,
        "read_before_reset": sorted(rb_entries & writes_all),
        "functions": {q: {"reads": sorted(fi.reads), "selfreads": sorted(fi.selfreads), "writes": sorted(fi.writes),
                          "calls": sorted(fi.calls)} for q, fi in A.F.items()},
        "mutable_defaults": sorted(fi.q + "$" + p for fi in A.F.values() for p in fi.mutable_defaults),
        "excluded": EXCLUDED,
    }
    tables["_A"] = A
    return tables


# ---------------------------------------------------------------------------
# C13: iteration sites over sets

C13_SKIP_PREFIXES = ("smt_encoding.complete_encoding.", "smt_encoding.solver.", "smt_encoding.constraints.",
                     "smt_encoding.block_optimizer", "smt_encoding.instructions.", "verification.forves_verification",
                     "global_params.options")
C13_KEEP = ("smt_encoding.instructions.instruction_dependencies", "smt_encoding.instructions.instruction_bounds_with_dependencies")
SET_METHODS = {"union", "difference", "intersection", "symmetric_difference", "copy_set"}
ORDER_FREE_CONSUMERS = {"set", "frozenset", "len", "any", "all", "sum", "sorted", "min", "max", "Counter"}


def _set_typed_annotation(a):
    if a is None:
        return False
    t = ast.unparse(a)
    return t.startswith(("Set[", "set[", "FrozenSet[", "frozenset[", "typing.Set[")) or t in ("set", "Set", "frozenset")


def iter_sites(mods):
    """Every place where the iteration order of a set can be observed, with its classification."""
    # names known to be set-typed: module variables, attributes, function results (by simple name)
    set_vars, set_attrs, set_funcs = set(), set(), set()
    for it in range(3):
        for mod in mods.values():
            for n in ast.walk(mod.tree):
                if isinstance(n, ast.Assign) and _is_set_expr(n.value, set(), set_vars, set_attrs, set_funcs):
                    for t in n.targets:
                        if isinstance(t, ast.Attribute):
                            set_attrs.add(t.attr)
                if isinstance(n, ast.AnnAssign) and _set_typed_annotation(n.annotation) and isinstance(n.target, ast.Attribute):
                    set_attrs.add(n.target.attr)
                if isinstance(n, (ast.FunctionDef, ast.AsyncFunctionDef)):
                    loc = _local_sets(n, set_vars, set_attrs, set_funcs)
                    if _set_typed_annotation(n.returns):
                        set_funcs.add(n.name)
                    for r in ast.walk(n):
                        if isinstance(r, ast.Return) and r.value is not None and _is_set_expr(r.value, loc, set_vars, set_attrs, set_funcs):
                            set_funcs.add(n.name)
            for st in mod.tree.body:
                if isinstance(st, ast.Assign) and _is_set_expr(st.value, set(), set_vars, set_attrs, set_funcs):
                    for t in st.targets:
                        if isinstance(t, ast.Name):
                            set_vars.add(t.id)
    sites = []
    for mname, mod in sorted(mods.items()):
        if mname.startswith(C13_SKIP_PREFIXES) and mname not in C13_KEEP:
            continue
        parents = {}
        for n in ast.walk(mod.tree):
            for c in ast.iter_child_nodes(n):
                parents[c] = n
        for qn, fnode in sorted(mod.funcs.items()):
            loc = _local_sets(fnode, set_vars, set_attrs, set_funcs)

            def isset(e):
                return _is_set_expr(e, loc, set_vars, set_attrs, set_funcs)
            for n in ast.walk(fnode):
                kind = expr = None
                if isinstance(n, (ast.For, ast.AsyncFor)) and isset(n.iter):
                    kind, expr = "for", n.iter
                elif isinstance(n, ast.comprehension) and isset(n.iter):
                    comp = parents.get(n)
                    kind, expr = "comp:" + type(comp).__name__, n.iter
                    n._comp = comp
                elif isinstance(n, ast.Call):
                    f = n.func
                    fname = f.id if isinstance(f, ast.Name) else (f.attr if isinstance(f, ast.Attribute) else "")
                    if fname in ("list", "tuple", "str", "repr", "enumerate", "iter", "next", "zip", "map", "filter", "reversed",
                                 "join", "dumps", "extend", "sorted", "min", "max") and n.args:
                        args = n.args
                        for a in args:
                            if isset(a):
                                kind, expr = "call:" + fname, a
                    if fname == "pop" and isinstance(f, ast.Attribute) and isset(f.value) and not n.args:
                        kind, expr = "pop", f.value
                    if fname == "listdir":
                        kind, expr = "listdir", n
                elif isinstance(n, (ast.JoinedStr,)):
                    for v in n.values:
                        if isinstance(v, ast.FormattedValue) and isset(v.value):
                            kind, expr = "fstring", v.value
                elif isinstance(n, ast.Starred) and isset(n.value):
                    kind, expr = "star", n.value
                if kind is None:
                    continue
                cls, why = _classify_site(kind, n, parents, fnode)
                sites.append({"module": mname, "function": qn, "line": getattr(n, "lineno", getattr(expr, "lineno", 0)),
                              "kind": kind, "expr": ast.unparse(expr)[:120], "class": cls, "why": why})
    return sites


def _local_sets(fnode, set_vars, set_attrs, set_funcs):
    loc = set()
    a = fnode.args
    for x in a.posonlyargs + a.args + a.kwonlyargs:
        if _set_typed_annotation(x.annotation):
            loc.add(x.arg)
    for it in range(3):
        for n in ast.walk(fnode):
            if isinstance(n, ast.Assign) and _is_set_expr(n.value, loc, set_vars, set_attrs, set_funcs):
                for t in n.targets:
                    if isinstance(t, ast.Name):
                        loc.add(t.id)
            elif isinstance(n, ast.AnnAssign) and isinstance(n.target, ast.Name) and (
                    _set_typed_annotation(n.annotation) or (n.value is not None and _is_set_expr(n.value, loc, set_vars, set_attrs, set_funcs))):
                loc.add(n.target.id)
            elif isinstance(n, ast.AugAssign) and isinstance(n.target, ast.Name) and \
                    _is_set_expr(n.value, loc, set_vars, set_attrs, set_funcs) and isinstance(n.op, (ast.BitOr, ast.BitAnd, ast.Sub, ast.BitXor)):
                loc.add(n.target.id)
    return loc


def _is_set_expr(e, loc, set_vars, set_attrs, set_funcs):
    if isinstance(e, (ast.Set, ast.SetComp)):
        return True
    if isinstance(e, ast.Name):
        return e.id in loc or (e.id in set_vars and e.id not in ("opcodes",))
    if isinstance(e, ast.Attribute):
        return e.attr in set_attrs or (e.attr in set_vars and isinstance(e.value, ast.Name))
    if isinstance(e, ast.Call):
        f = e.func
        if isinstance(f, ast.Name):
            return f.id in ("set", "frozenset") or f.id in set_funcs
        if isinstance(f, ast.Attribute):
            if f.attr in SET_METHODS:
                return True
            if f.attr == "copy":
                return _is_set_expr(f.value, loc, set_vars, set_attrs, set_funcs)
            return f.attr in set_funcs
    if isinstance(e, ast.BinOp) and isinstance(e.op, (ast.BitOr, ast.BitAnd, ast.Sub, ast.BitXor)):
        return _is_set_expr(e.left, loc, set_vars, set_attrs, set_funcs) or _is_set_expr(e.right, loc, set_vars, set_attrs, set_funcs)
    if isinstance(e, ast.IfExp):
        return _is_set_expr(e.body, loc, set_vars, set_attrs, set_funcs) or _is_set_expr(e.orelse, loc, set_vars, set_attrs, set_funcs)
    return False


def _consumer(node, parents):
    """nearest enclosing call that consumes `node` as a direct argument (through comprehensions/generators)"""
    p = parents.get(node)
    while isinstance(p, (ast.GeneratorExp, ast.ListComp, ast.comprehension, ast.Starred)):
        node, p = p, parents.get(p)
    if isinstance(p, ast.Call) and node in p.args:
        f = p.func
        return (f.id if isinstance(f, ast.Name) else f.attr if isinstance(f, ast.Attribute) else None), p
    return None, p


def _classify_site(kind, n, parents, fnode):
    if kind.startswith("comp:"):
        comp = n._comp
        if isinstance(comp, ast.SetComp):
            return "discharged", "set_result"
        if isinstance(comp, ast.DictComp):
            return "exposed", "dict built in set order"
        c, p = _consumer(comp, parents)
        if c in ORDER_FREE_CONSUMERS:
            return "discharged", "consumer_" + c
        if isinstance(p, ast.Compare):
            return "discharged", "membership_or_comparison"
        return "exposed", "list/generator in set order"
    if kind.startswith("call:"):
        fname = kind[5:]
        if fname in ("sorted",):
            key = [kw for kw in n.keywords if kw.arg == "key"]
            return ("discharged", "sorted_total") if not key else ("exposed", "sorted with key (ties keep set order)")
        if fname in ("min", "max"):
            key = [kw for kw in n.keywords if kw.arg == "key"]
            return ("discharged", "minmax_total") if not key else ("exposed", "min/max with key (ties keep set order)")
        c, p = _consumer(n, parents)
        if c in ORDER_FREE_CONSUMERS:
            return "discharged", "consumer_" + c
        if fname in ("map", "filter", "enumerate", "iter", "zip", "reversed", "list", "tuple"):
            if isinstance(p, ast.Compare) and all(isinstance(o, (ast.In, ast.NotIn)) for o in p.ops):
                return "discharged", "membership_or_comparison"
        return "exposed", "sequence in set order"
    if kind == "for":
        return "exposed", "loop in set order"
    return "exposed", kind


# ---------------------------------------------------------------------------
# C13 site status

DISCHARGE_LEMMA = {
    "set_result": "set_build_perm", "consumer_set": "set_build_perm", "consumer_frozenset": "set_build_perm",
    "consumer_len": "length_perm", "consumer_any": "existsb_perm", "consumer_all": "forallb_perm",
    "consumer_sum": "sum_perm", "consumer_sorted": "sort_perm", "consumer_min": "min_perm", "consumer_max": "max_perm",
    "consumer_Counter": "set_build_perm", "membership_or_comparison": "mem_perm", "sorted_total": "sort_perm",
    "minmax_total": "min_perm",
}
# order-exposed sites with an order-parametric model proved order independent in Model/OrderIndepProofs.v;
# `body` is the exact loop body the model describes (checked on the AST)
MODELLED = {
    ("greedy.block_generation", "SMSgreedy.target", "needed_set"): {
        "theorem": "pointwise_update_perm",
        "body": "self._needed_in_stack_map[w] += needed_list(w, self._var_instr_map[v]['inpt_sk'], needed_set, self._opid_instr_map, self._var_instr_map)",
        "why": "each iteration updates the entry of its own (distinct, already present) key w by a function of w alone"},
    ("greedy.block_generation", "SMSgreedy.target", "to_remove"): {
        "theorem": "delete_keys_perm",
        "body": "self.uses.pop(o, None)",
        "why": "deleting a set of keys from an insertion-ordered dict leaves the same dict in any order"},
}
# order-exposed sites that are NOT proved: validated only by forced-order replay (harness/c13.py). Listed in the
# statement of Props/C13.v, so that C13 is explicitly partial on them.
DYNAMIC_ONLY = {
    ("smt_encoding.instructions.instruction_bounds_with_dependencies", "toposort_instr_dependencies"): "maximal_elements order feeds the DFS: another valid topological order",
    ("smt_encoding.instructions.instruction_dependencies", "toposort_instr_dependencies"): "maximal_elements order feeds the DFS: another valid topological order",
    ("smt_encoding.instructions.instruction_bounds_with_dependencies", "number_instr_needed"): "recursive count sharing the mutable repeated_instructions dict",
    ("smt_encoding.instructions.instruction_bounds_with_dependencies", "update_with_tree_level"): "min/max updates of bounds_positions",
    ("smt_encoding.instructions.instruction_bounds_with_dependencies", "InstructionBoundsWithDependencies.__init__"): "non_dependent_mem_ids list order",
    ("smt_encoding.json_with_dependencies", "bounds_from_instructions"): "non_dependent_mem_ids list order",
}


def site_status(A, mods, reach):
    sites = iter_sites(mods)
    out = []
    for s in sites:
        q = s["module"] + ":" + s["function"]
        key3 = (s["module"], s["function"], s["expr"])
        key2 = (s["module"], s["function"])
        if s["kind"] == "listdir":
            # os.listdir used only in a membership test
            s["class"], s["why"] = "exposed", "listdir"
            mod = mods[s["module"]]
            par = _all_parents(mod.funcs[s["function"]])
            for n in ast.walk(mod.funcs[s["function"]]):
                if isinstance(n, ast.Call) and ast.unparse(n) == s["expr"] and getattr(n, "lineno", 0) == s["line"]:
                    p = par.get(n)
                    if isinstance(p, ast.Compare) and all(isinstance(o, (ast.In, ast.NotIn)) for o in p.ops):
                        s["class"], s["why"] = "discharged", "membership_or_comparison"
        if s["class"] == "discharged":
            if s["why"] not in DISCHARGE_LEMMA:
                raise Unclassified("no lemma for discharge class %s" % s["why"])
            st = ("Discharged", DISCHARGE_LEMMA[s["why"]])
        elif q in A.F and q not in reach:
            st = ("Unreachable", "")
        elif key3 in MODELLED:
            spec = MODELLED[key3]
            mod = mods[s["module"]]
            okb = False
            for n in ast.walk(mod.funcs[s["function"]]):
                if isinstance(n, ast.For) and ast.unparse(n.iter) == s["expr"] and n.lineno == s["line"]:
                    okb = len(n.body) == 1 and not n.orelse and ast.unparse(n.body[0]) == spec["body"]
            if not okb:
                raise Unclassified("modelled site %s: loop body is not `%s` any more" % (key3, spec["body"]))
            st = ("Modelled", spec["theorem"])
        elif key2 in DYNAMIC_ONLY:
            st = ("DynamicOnly", DYNAMIC_ONLY[key2])
        else:
            st = ("Undischarged", s["why"])
        s["status"], s["status_arg"] = st
        out.append(s)
    return out


# ---------------------------------------------------------------------------
# Coq emission

def _coq_str(s):
    return '"' + s.replace('"', "'") + '"'


def _nlist(ids):
    return "[" + "; ".join("%d" % i for i in ids) + "]%N"


def emit_frame_tables(T, path):
    vid = {v: i for i, v in enumerate(T["variables"])}
    fid = {q: i for i, q in enumerate(sorted(T["functions"]))}
    L = []
    L.append("(* GENERATED by gen/gen_frame.py from the ASTs of %d modules of the GASOL working tree. Do not edit. *)" % T["n_modules"])
    L.append("From Coq Require Import List NArith String.")
    L.append("From GV Require Import Model.Frame.")
    L.append("Import ListNotations.")
    L.append("Open Scope string_scope.")
    L.append("")
    L.append("(* module-level variables (id, name); %d of %d are written by code that can run between blocks *)" % (T["n_mutable"], T["n_variables"]))
    L.append("Definition var_names : list (N * string) := [")
    L.append(";\n".join("  (%d%%N, %s)" % (i, _coq_str(v)) for v, i in sorted(vid.items(), key=lambda p: p[1])))
    L.append("].")
    L.append("")
    L.append("Definition fun_names : list (N * string) := [")
    L.append(";\n".join("  (%d%%N, %s)" % (i, _coq_str(q)) for q, i in sorted(fid.items(), key=lambda p: p[1])))
    L.append("].")
    L.append("")
    L.append("(* per function: genuine reads, self-update reads, writes, callees *)")
    L.append("Definition fun_table : ftable := [")
    rows = []
    for q, i in sorted(fid.items(), key=lambda p: p[1]):
        f = T["functions"][q]
        rows.append("  (%d%%N, mkF %s %s %s %s)" % (i, _nlist(sorted(vid[v] for v in f["reads"])), _nlist(sorted(vid[v] for v in f["selfreads"])),
                                                 _nlist(sorted(vid[v] for v in f["writes"])), _nlist(sorted(fid[c] for c in f["calls"]))))
    L.append(";\n".join(rows))
    L.append("].")
    L.append("")
    cov = T["covered_kinds"]
    idem = sorted(vid[v] for v, k in cov.items() if k == "guarded_const")
    keep = sorted(vid[v] for v, k in cov.items() if k != "guarded_const")
    L.append("Definition gasol_tables : tables := {|")
    L.append("  t_funs := fun_table;")
    L.append("  t_vars := %s;" % _nlist(range(len(vid))))
    L.append("  t_entries := %s;" % _nlist(fid[q] for q in T["entries"]))
    L.append("  t_hist := %s;" % _nlist(fid[q] for q in T["history_roots"]))
    L.append("  t_dunders := %s;" % _nlist(sorted(fid[q] for q in T["dunders"])))
    L.append("  t_R := %s;      (* reset before any read in every per-block entry (flow analysis) *)" % _nlist(sorted(vid[v] for v in T["R"])))
    L.append("  t_idem := %s;   (* guarded idempotent update in the entry prologue, read only after it *)" % _nlist(idem))
    L.append("  t_keep := %s    (* every write stores the value the variable has at start-up *)" % _nlist(keep))
    L.append("|}.")
    L.append("")
    L.append("(* checked syntactic premises of the covered names:")
    for v, why in sorted(T["covered"].items()):
        L.append("   %s [%s]: %s" % (v, cov[v], why.replace("*)", "* )")))
    L.append("*)")
    L.append("(* accumulators as computed by the translator (Coq recomputes them): %s *)" % ", ".join(T["accumulators"]))
    _write_if_changed(path, "\n".join(L) + "\n")
    return vid, fid


def emit_iter_sites(sites, path):
    L = []
    L.append("(* GENERATED by gen/gen_frame.py: every place where the iteration order of a set is observable. Do not edit. *)")
    L.append("From Coq Require Import List NArith String.")
    L.append("From GV Require Import Model.OrderIndep.")
    L.append("Import ListNotations.")
    L.append("Open Scope string_scope.")
    L.append("")
    L.append("Definition iter_sites : list site := [")
    rows = []
    for s in sites:
        arg = _coq_str(s["status_arg"][:100]) if s["status"] != "Unreachable" else None
        st = s["status"] + ((" " + arg) if arg is not None else "")
        rows.append("  mkSite %s %s %d%%N %s (%s)" % (_coq_str(s["module"]), _coq_str(s["function"]), s["line"],
                                                    _coq_str(s["kind"] + ": " + s["expr"][:80]), st))
    L.append(";\n".join(rows))
    L.append("].")
    _write_if_changed(path, "\n".join(L) + "\n")


def _write_if_changed(path, txt):
    """atomic, and leaves the file (and its .vo) alone when nothing changed: C12 and C13 both regenerate"""
    old = None
    if os.path.exists(path):
        with open(path) as fh:
            old = fh.read()
    if old == txt:
        return
    tmp = path + ".tmp%d" % os.getpid()
    with open(tmp, "w") as fh:
        fh.write(txt)
    os.replace(tmp, path)


def generate(run=None):
    T = analyse()
    A = T["_A"]
    sites = site_status(A, A.mods, set(T["reach"]))
    T["sites"] = sites
    gen_dir = os.path.join(VERIF, "coq", "Gen")
    os.makedirs(gen_dir, exist_ok=True)
    emit_frame_tables(T, os.path.join(gen_dir, "FrameTables.v"))
    emit_iter_sites(sites, os.path.join(gen_dir, "IterSites.v"))
    return T


if __name__ == "__main__":
    T = generate()
    print(json.dumps({k: T[k] for k in ("n_modules", "n_functions", "n_variables", "n_mutable", "R", "accumulators",
                                        "covered", "exposed")}, indent=1))
    for s in T["sites"]:
        print(s["status"], s["module"], s["function"], s["line"], s["expr"][:60])
