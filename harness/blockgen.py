"""Stack-aware generator of EVM basic blocks in GASOL's plain-text format.

Everything is drawn from one random.Random so that failures replay exactly."""
import random

W = 2 ** 256
BOUNDARY = [0, 1, 2, 3, 31, 32, 33, 64, 96, 128, 255, 256, 2 ** 64, 2 ** 160 - 1, 2 ** 255 - 1, 2 ** 255,
            2 ** 256 - 2, 2 ** 256 - 1]
ADDRS = [0, 1, 0x10, 0x1f, 0x20, 0x21, 0x3f, 0x40, 0x41, 0x60, 0x80, 0xa0]
SMALL = [0, 1, 2, 3, 4, 5, 7, 8, 16, 31, 32, 255]

OP1 = ["ISZERO", "NOT"]
OP2 = ["ADD", "MUL", "SUB", "DIV", "SDIV", "MOD", "SMOD", "EXP", "SIGNEXTEND", "LT", "GT", "SLT", "SGT", "EQ",
       "AND", "OR", "XOR", "BYTE", "SHL", "SHR", "SAR"]
OP3 = ["ADDMOD", "MULMOD"]
ENV0 = ["ADDRESS", "ORIGIN", "CALLER", "CALLVALUE", "CALLDATASIZE", "CODESIZE", "GASPRICE", "COINBASE",
        "TIMESTAMP", "NUMBER", "GASLIMIT", "CHAINID", "SELFBALANCE", "BASEFEE", "RETURNDATASIZE"]
ENV1 = ["BALANCE", "CALLDATALOAD", "EXTCODESIZE", "EXTCODEHASH", "BLOCKHASH"]
SPLITS = {"LOG0": (2, 0), "LOG1": (3, 0), "LOG2": (4, 0), "CALLDATACOPY": (3, 0), "CODECOPY": (3, 0),
          "RETURNDATACOPY": (3, 0), "CALL": (7, 1), "STATICCALL": (6, 1), "DELEGATECALL": (6, 1),
          "CREATE": (3, 1), "GAS": (0, 1)}
TERMINALS = {"JUMP": 1, "JUMPI": 2, "STOP": 0, "RETURN": 2, "REVERT": 2}

# left-hand sides of GASOL's rules (operands are whatever is on the stack or pushed constants)
RULE_SNIPPETS = [
    "PUSH 0 ADD", "PUSH 0 SWAP1 SUB", "DUP1 SUB", "PUSH 0 MUL", "PUSH 1 MUL", "PUSH 1 SWAP1 DIV", "PUSH 0 SWAP1 DIV",
    "DUP1 DIV", "PUSH 1 SWAP1 SDIV", "DUP1 SDIV", "PUSH 1 SWAP1 MOD", "DUP1 MOD", "PUSH 0 SWAP1 MOD",
    "PUSH 1 SWAP1 SMOD", "DUP1 SMOD",
    "PUSH 0 AND", "DUP1 AND", "PUSH ffffffffffffffffffffffffffffffffffffffffffffffffffffffffffffffff AND",
    "PUSH 0 OR", "DUP1 OR", "DUP1 XOR", "PUSH 0 XOR", "PUSH 0 SWAP1 EXP", "PUSH 1 SWAP1 EXP", "PUSH 1 EXP",
    "PUSH 0 EXP", "PUSH 2 EXP", "DUP1 EQ", "PUSH 0 EQ", "PUSH 0 GT", "DUP1 GT", "DUP1 SGT", "PUSH 0 SWAP1 LT",
    "DUP1 LT", "DUP1 SLT", "PUSH 0 SHL", "PUSH 0 SHR", "PUSH 0 SAR", "PUSH 0 SWAP1 SHL", "PUSH 0 SWAP1 SHR",
    "PUSH 0 SWAP1 SAR", "ISZERO ISZERO", "ISZERO ISZERO ISZERO", "PUSH 0 SWAP1 GT ISZERO", "PUSH 1 GT",
    "GT ISZERO ISZERO", "LT ISZERO ISZERO", "EQ ISZERO ISZERO", "SLT ISZERO ISZERO", "ISZERO PUSH 1 EQ",
    "PUSH 0 LT ISZERO", "PUSH 1 SWAP1 LT", "DUP2 AND AND", "DUP2 AND OR", "DUP2 OR OR", "DUP2 OR AND",
    "DUP2 XOR XOR", "XOR ISZERO", "SUB ISZERO", "NOT NOT", "DUP1 NOT AND", "DUP1 NOT OR",
    "ORIGIN PUSH ffffffffffffffffffffffffffffffffffffffff AND", "CALLER PUSH ffffffffffffffffffffffffffffffffffffffff AND",
    "ADDRESS PUSH ffffffffffffffffffffffffffffffffffffffff AND", "ADDRESS BALANCE",
    "PUSH 1 SWAP1 SHL MUL", "PUSH 1 SWAP1 SHL SWAP1 DIV", "DUP2 SHL SWAP2 SWAP1 SHL AND",
    "PUSH 1 PUSH 2 ADD", "PUSH 3 PUSH 5 SUB", "PUSH 7 PUSH 2 DIV", "PUSH 0 NOT", "PUSH 1 ISZERO", "PUSH 0 ISZERO",
    "PUSH 1 PUSH ffffffffffffffffffffffffffffffffffffffffffffffffffffffffffffffff ADD",
    "PUSH 2 PUSH ffffffffffffffffffffffffffffffffffffffffffffffffffffffffffffffff DIV",
    "PUSH 2 PUSH ffffffffffffffffffffffffffffffffffffffffffffffffffffffffffffffff MUL",
    "PUSH 5 PUSH 3 SUB", "PUSH 0 PUSH 5 DIV", "PUSH 0 PUSH 5 MOD", "PUSH 3 PUSH 7 MOD", "PUSH 3 PUSH 7 SMOD",
    "PUSH 8000000000000000000000000000000000000000000000000000000000000000 PUSH 1 SAR",
    "PUSH ff PUSH 4 SHL", "PUSH ff00 PUSH 4 SHR", "PUSH 2 PUSH 3 EXP", "PUSH 5 PUSH 3 LT", "PUSH 5 PUSH 3 GT",
    "PUSH 3 PUSH 4 PUSH 5 ADDMOD", "PUSH 3 PUSH 4 PUSH 5 MULMOD",
    "DUP1 MLOAD SWAP1 MSTORE", "DUP2 DUP2 MSTORE MLOAD", "DUP1 SLOAD SWAP1 SSTORE", "DUP2 DUP2 SSTORE SLOAD",
    "DUP2 DUP2 MSTORE DUP2 DUP2 MSTORE", "DUP1 MLOAD DUP2 MLOAD",
    "DUP1 MLOAD SWAP1 MSTORE8", "DUP1 MLOAD DUP2 MSTORE8", "DUP1 MLOAD PUSH 1 ADD SWAP1 MSTORE", "DUP1 SLOAD DUP2 SSTORE",
    "DUP1 MLOAD DUP2 PUSH 1 ADD MSTORE", "DUP1 MLOAD DUP2 PUSH 20 ADD MSTORE8",
]


def hexc(v):
    return "%x" % v


class Gen:
    def __init__(self, rng, allow_split=True, allow_mem=True, allow_terminal=True, rule_bias=0.15, max_depth=18):
        self.r = rng
        self.allow_split, self.allow_mem, self.allow_terminal = allow_split, allow_mem, allow_terminal
        self.rule_bias = rule_bias
        self.max_depth = max_depth

    def const(self):
        r = self.r
        k = r.random()
        if k < 0.35:
            return r.choice(SMALL)
        if k < 0.6:
            return r.choice(BOUNDARY)
        if k < 0.8:
            return r.choice(ADDRS)
        if k < 0.9:
            return r.getrandbits(r.choice([8, 16, 32, 64, 160]))
        return r.getrandbits(256)

    def push_addr(self, out, h):
        """push something used as an address: constant from a small pool, a stack word, or word+const"""
        r = self.r
        k = r.random()
        if k < 0.5 or h == 0:
            out.append("PUSH " + hexc(r.choice(ADDRS)))
        elif k < 0.8:
            out.append("DUP%d" % r.randint(1, min(h, 16)))
        else:
            out.append("DUP%d" % r.randint(1, min(h, 16)))
            out.append("PUSH " + hexc(r.choice([1, 0x10, 0x1f, 0x20, 0x21, 0x40])))
            out.append("ADD")
        return h + 1

    def block(self, length):
        """Returns (text, info). h tracks the height relative to the start plus assumed inputs."""
        r = self.r
        out = []
        h = r.choice([0, 0, 1, 2, 3, 4, 6])      # words of the input stack we may freely use
        while len(out) < length:
            k = r.random()
            if k < self.rule_bias:
                sn = r.choice(RULE_SNIPPETS).split()
                # make sure the snippet has operands: push/dup some first
                for _ in range(2):
                    if h < 3:
                        out.append("PUSH " + hexc(self.const()) if r.random() < 0.4 else self._fresh_env())
                        h += 1
                out.extend(sn if len(sn) > 1 else sn)
                # recompute height conservatively: just say we have at least 1
                h = max(1, h - 1)
                continue
            k = r.random()
            if k < 0.22:
                out.append("PUSH " + hexc(self.const()))
                h += 1
            elif k < 0.24:
                out.append(r.choice(["PUSH [tag] %d" % r.randint(1, 9), "PUSHIMMUTABLE %x" % r.randint(1, 3),
                                     "PUSH data %x" % r.randint(1, 3), "PUSH [$] %x" % r.randint(0, 2),
                                     "PUSH #[$] %x" % r.randint(0, 2), "PUSHSIZE", "PUSHDEPLOYADDRESS"]))
                h += 1
            elif k < 0.36:
                d = r.randint(1, min(max(h, 1) + 1, self.max_depth if r.random() < 0.05 else 16))
                d = min(d, 16)
                out.append("DUP%d" % d)
                h = max(h, d) + 1
            elif k < 0.46:
                d = min(r.randint(1, max(h, 2)), 16)
                out.append("SWAP%d" % d)
                h = max(h, d + 1)
            elif k < 0.52:
                out.append("POP")
                h = max(h - 1, 0)
            elif k < 0.58:
                out.append(r.choice(OP1))
                h = max(h, 1)
            elif k < 0.76:
                out.append(r.choice(OP2))
                h = max(h - 1, 1)
            elif k < 0.78:
                out.append(r.choice(OP3))
                h = max(h - 2, 1)
            elif k < 0.83:
                out.append(self._fresh_env())
                h += 1
            elif k < 0.85:
                out.append(r.choice(ENV1))
                h = max(h, 1)
            elif k < 0.96 and self.allow_mem:
                m = r.random()
                if m < 0.25:
                    h = self.push_addr(out, h)
                    out.append("MLOAD")
                elif m < 0.5:
                    h = self.push_addr(out, h + 0)
                    out.append("MSTORE" if r.random() < 0.85 else "MSTORE8")
                    h = max(h - 2, 0)
                elif m < 0.65:
                    h = self.push_addr(out, h)
                    out.append("SLOAD")
                elif m < 0.85:
                    h = self.push_addr(out, h)
                    out.append("SSTORE")
                    h = max(h - 2, 0)
                else:
                    out.append("PUSH " + hexc(r.choice([0, 1, 0x20, 0x40])))
                    h = self.push_addr(out, h + 1)
                    out.append("KECCAK256")
                    h = max(h - 1, 1)
            elif self.allow_split and k < 0.985:
                nm = r.choice(list(SPLITS))
                i, o = SPLITS[nm]
                out.append(nm)
                h = max(h - i, 0) + o
            else:
                out.append("PUSH " + hexc(self.const()))
                h += 1
        if self.allow_terminal and r.random() < 0.25:
            nm = r.choice(list(TERMINALS))
            out.append(nm)
        return " ".join(out)

    def _fresh_env(self):
        return self.r.choice(ENV0)


def gen_blocks(seed, n, min_len=1, max_len=40, **kw):
    rng = random.Random(seed)
    g = Gen(rng, **kw)
    res = []
    for _ in range(n):
        m = rng.random()
        if m < 0.35:
            L = rng.randint(min_len, max(min_len, min(8, max_len)))
        elif m < 0.8:
            L = rng.randint(min(8, max_len), min(24, max_len))
        else:
            L = rng.randint(min(18, max_len), max_len)
        res.append(g.block(L))
    return res


def snippet_blocks():
    """Every rule snippet as a block of its own, with operands from the input stack."""
    return list(RULE_SNIPPETS) + systematic_rule_blocks()


CONSTS3 = ["0", "1", "2", "ffffffffffffffffffffffffffffffffffffffffffffffffffffffffffffffff"]


def systematic_rule_blocks():
    """Every unary/binary/ternary operation with a constant 0, 1, 2, 2^256-1 as first operand, as second operand,
    and with both operands equal (operands otherwise from the input stack)."""
    out = []
    for op in OP2:
        for c in CONSTS3:
            out.append("PUSH %s %s" % (c, op))            # constant is the first (top) operand
            out.append("PUSH %s SWAP1 %s" % (c, op))      # constant is the second operand
        out.append("DUP1 %s" % op)
    for op in OP1:
        for c in CONSTS3:
            out.append("PUSH %s %s" % (c, op))
        out.append("%s %s" % (op, op))
    for op in OP3:
        for c in ("0", "1"):
            out.append("PUSH %s SWAP2 %s" % (c, op))      # modulus constant
            out.append("PUSH %s %s" % (c, op))
        # constant folding where the intermediate sum/product exceeds 2^256 (it must NOT be reduced before the modulus)
        big = ["f" * 64, "8" + "0" * 63, "f" * 63 + "e"]
        for m in ("7", "3e8", "f" * 64, "10000000000000000"):
            for a in big:
                for b in big[:2]:
                    out.append("PUSH %s PUSH %s PUSH %s %s" % (m, a, b, op))
    # binary folds of two constants around the word size
    for op in OP2:
        for a, b in (("f" * 64, "2"), ("2", "f" * 64), ("8" + "0" * 63, "f" * 64), ("f" * 64, "f" * 64), ("100", "1"), ("1", "100"),
                     ("ff", "8" + "0" * 63)):
            out.append("PUSH %s PUSH %s %s" % (a, b, op))
    return out


def mem_boundary_blocks():
    """Systematic family around the edges of memory accesses: a 32-byte word at `a` against a byte or word access whose
    offset is a-32 .. a+32 (first byte, last byte, one past, one before), with constant and base+constant offsets, for
    MSTORE/MSTORE8/MLOAD/KECCAK256 in the orders store-store-load, load-store-load, store-store-store, store-hash."""
    out = []
    for a in (0, 0x40):
        for d in (-32, -31, -1, 0, 1, 30, 31, 32):
            b = a + d
            if b < 0:
                continue
            A, B = hexc(a), hexc(b)
            out.append("PUSH 5 PUSH %s MSTORE PUSH 7 PUSH %s MSTORE8 PUSH %s MLOAD" % (A, B, A))
            out.append("PUSH %s MLOAD SWAP1 PUSH %s MSTORE8 PUSH %s MLOAD ADD" % (A, B, A))
            out.append("DUP1 PUSH %s MSTORE PUSH 7 PUSH %s MSTORE8 PUSH %s MSTORE" % (A, B, A))
            out.append("PUSH 7 PUSH %s MSTORE8 PUSH 20 PUSH %s KECCAK256" % (B, A))
            if d != 0:
                out.append("PUSH 5 PUSH %s MSTORE PUSH 7 PUSH %s MSTORE PUSH %s MLOAD" % (A, B, A))
                out.append("PUSH %s MLOAD SWAP1 PUSH %s MSTORE PUSH %s MLOAD ADD" % (A, B, A))
                out.append("PUSH 7 PUSH %s MSTORE PUSH 20 PUSH %s KECCAK256" % (B, A))
                out.append("DUP1 PUSH %s MSTORE DUP2 PUSH %s MSTORE8 PUSH %s MLOAD PUSH %s MLOAD" % (A, B, B, A))
    for d in (0, 1, 0x1e, 0x1f, 0x20, 0x21):
        D = hexc(d)
        out.append("PUSH 5 DUP2 MSTORE PUSH 7 DUP2 PUSH %s ADD MSTORE8 DUP1 MLOAD" % D)
        out.append("DUP1 MLOAD DUP3 DUP3 PUSH %s ADD MSTORE8 DUP2 MLOAD ADD" % D)
        if d:
            out.append("PUSH 5 DUP2 MSTORE PUSH 7 DUP2 PUSH %s ADD MSTORE DUP1 MLOAD" % D)
            out.append("PUSH 7 DUP2 PUSH %s ADD MSTORE PUSH 20 DUP2 KECCAK256" % D)
    st = 0x20
    for ln in (1, 0x1f, 0x20, 0x21, 0x40):
        for c in sorted({st - 32, st - 31, st - 1, st, st + 1, st + ln - 1, st + ln, st + ln - 32, st + ln - 31}):
            if c >= 0:
                out.append("PUSH 7 PUSH %s MSTORE PUSH %s PUSH %s KECCAK256" % (hexc(c), hexc(ln), hexc(st)))
                out.append("PUSH %s PUSH %s KECCAK256 PUSH 7 PUSH %s MSTORE PUSH %s PUSH %s KECCAK256" % (hexc(ln), hexc(st), hexc(c), hexc(ln), hexc(st)))
        for b in (st - 1, st, st + ln - 1, st + ln):
            out.append("PUSH 7 PUSH %s MSTORE8 PUSH %s PUSH %s KECCAK256" % (hexc(b), hexc(ln), hexc(st)))
    return out


NEST2 = ["AND", "OR", "XOR", "ADD", "SUB", "EQ", "LT", "GT"]


def nested_rule_blocks():
    """Two-level terms outer(inner(..), x) in all four operand arrangements (inner as first or second operand of the
    outer operation, the shared operand x as first or second operand of the inner one), plus unary contexts of every
    comparison.  These are the shapes of GASOL's context rules (AND/OR absorption, XOR cancellation, ISZERO chains)."""
    out = []
    for o in NEST2:
        for i in NEST2:
            out.append("DUP2 DUP2 %s %s" % (i, o))            # o(i(x,y), x)
            out.append("DUP2 DUP2 %s SWAP1 %s" % (i, o))      # o(x, i(x,y))
            out.append("DUP1 DUP3 %s %s" % (i, o))            # o(i(y,x), x)
            out.append("DUP1 DUP3 %s SWAP1 %s" % (i, o))      # o(x, i(y,x))
            # the same four arrangements consuming both operands (the result is not a copy of what stays below)
            out.append("DUP2 %s %s" % (i, o))                 # o(i(y,x), y)
            out.append("DUP2 %s SWAP1 %s" % (i, o))           # o(y, i(y,x))
            out.append("DUP2 SWAP1 %s %s" % (i, o))           # o(i(x,y), y)
            out.append("DUP2 SWAP1 %s SWAP1 %s" % (i, o))     # o(y, i(x,y))
    for c in ["LT", "GT", "SLT", "SGT", "EQ", "SUB", "XOR", "AND"]:
        for ctx in ["ISZERO", "ISZERO ISZERO", "ISZERO ISZERO ISZERO", "ISZERO PUSH 1 EQ", "PUSH 1 EQ", "PUSH 0 EQ",
                    "PUSH 1 AND", "ISZERO PUSH 0 EQ", "PUSH 1 SWAP1 EQ", "ISZERO PUSH 1 SWAP1 EQ"]:
            out.append("%s %s" % (c, ctx))
    return out


def mem_heavy_blocks(seed, n):
    """Blocks made almost only of memory/storage/hash accesses over a base stack of 5 words: loads whose results are
    combined, stores of loaded values, KECCAK256 whose result is used or popped, constant and symbolic addresses."""
    r = random.Random(seed)
    out = []
    for _ in range(n):
        h, b = 5, []
        for _ in range(r.randint(4, 12)):
            k = r.random()
            a = "DUP%d" % r.randint(1, min(h, 8)) if (h >= 1 and r.random() < 0.6) else "PUSH %x" % r.choice([0, 0x20, 0x40, 0x60])
            if k < 0.3:
                b += [a, r.choice(["MLOAD", "MLOAD", "SLOAD"])]; h += 1
            elif k < 0.55 and h >= 2:
                b += ["DUP%d" % r.randint(1, min(h, 8)), a.replace("DUP", "DUP") if not a.startswith("DUP") else "DUP%d" % min(int(a[3:]) + 1, 16),
                      r.choice(["MSTORE", "MSTORE", "SSTORE", "MSTORE8"])]
            elif k < 0.75:
                b += ["PUSH %x" % r.choice([0x20, 0x40]), a if not a.startswith("DUP") else "DUP%d" % min(int(a[3:]) + 1, 16), "KECCAK256"]
                h += 1
                if r.random() < 0.5:
                    b.append("POP"); h -= 1
            elif k < 0.9 and h >= 2:
                b.append(r.choice(["AND", "ADD", "OR", "SWAP1", "SWAP2" if h >= 3 else "SWAP1"]))
                if b[-1] in ("AND", "ADD", "OR"):
                    h -= 1
            elif h >= 1:
                b.append("POP"); h -= 1
        out.append(" ".join(b))
    return out


def deep_split_blocks():
    """Split instructions (LOGn, *COPY, CALL, stores under -storage) whose operands sit between depth 8 and 14 of the
    stack the block touches: boundaries s(9)/s(10) of the sub-block source/target stacks."""
    out = []
    for d in range(7, 15):
        out.append("DUP%d PUSH 0 MSTORE PUSH 20 PUSH 0 LOG0" % d)
        out.append("PUSH 20 PUSH 0 LOG0 DUP%d DUP2 ADD SWAP1 POP" % d)
        out.append("DUP%d DUP%d PUSH 20 PUSH 0 LOG1 POP" % (d, min(d + 1, 16)))
        out.append("DUP%d PUSH 1 ADD PUSH 20 PUSH 0 LOG1 DUP%d PUSH 2 PUSH 3 ADD ADD SWAP1 POP" % (d, d))
        out.append("PUSH 20 DUP%d PUSH 0 CALLDATACOPY DUP%d PUSH 0 PUSH 0 ADD ADD" % (d, d))
        out.append("DUP%d DUP%d SSTORE DUP%d PUSH 1 PUSH 0 ADD ADD SWAP1 POP" % (d, min(d + 1, 16), d))
        out.append("SWAP%d PUSH 0 PUSH 0 ADD MSTORE PUSH 20 PUSH 0 LOG0 DUP%d" % (d, d))
    return out
