"""C01: optimized blocks are observationally equivalent to the original.

Theorems (Props/C01.v): soundness of the validator `equiv_block` for every state, environment
and outside world; the oracle-parametric pipeline `optimize_block`.
Tie: on every input, the block GASOL emits must be the input block or be accepted by
`equiv_block` (evaluated by the Coq kernel's vm_compute).  A rejected pair is searched for a
concrete distinguishing state with the reference semantics (`Val.Search.differ`)."""
import glob
import json
import os
import random
import re
from collections import Counter

from harness import common, gasol, evmconv, pipeline, blockgen

SPLITS = [[], ["-storage"], ["-partition"]]
CRITS = [[], ["-size"], ["-length"]]
RULES = [[], ["-no-simplification"]]
PUSH0 = [[], ["-push0"]]
BACKENDS = [["-greedy"], ["-ub-greedy", "-solver", "z3"], ["-solver", "z3"]]


def option_sets(rng, n, tier):
    allsets = [a + b + c + d + e for a in SPLITS for b in CRITS for c in RULES for d in PUSH0 for e in BACKENDS]
    base = [["-greedy"], ["-greedy", "-size"], ["-greedy", "-storage"], ["-greedy", "-partition", "-length"],
            ["-greedy", "-no-simplification"], ["-greedy", "-push0"], ["-ub-greedy", "-solver", "z3"],
            ["-solver", "z3", "-size", "-push0"]]
    rest = [o for o in allsets if o not in base]
    rng.shuffle(rest)
    return (base + rest)[:n]


def norm_rule(r):
    r = re.sub(r"EVAL ?\(.*?'([^']+)'\)", r"EVAL(\1)", r)
    r = re.sub(r"EVAL\(ISZERO\(.*?\)\)", "EVAL(ISZERO)", r)
    return r


def rules_of(b):
    out = set()
    for r in b.get("rules") or []:
        if r:
            for x in re.split(r",(?![^()]*\))", r):
                x = x.strip()
                if x:
                    out.add(norm_rule(x))
    return sorted(out)


def _contract_blocks(params, job):
    """Worker: blocks lo..hi (flattened order) of a json_solc file through the per-block pipeline."""
    import gasol_asm
    from sfs_generator.parser_asm import parse_asm
    path, lo, hi = job
    asm = parse_asm(path)
    blocks = []
    for c in asm.contracts:
        if not c.has_asm_field:
            continue
        blocks += list(c.init_code)
        for ident in c.get_data_ids_with_code():
            blocks += list(c.get_run_code(ident))
    out = []
    params.input_file = path
    for old in blocks[lo:hi]:
        new, log, stats = gasol_asm.optimize_asm_block_asm_format(old, params)
        eq, reason = gasol_asm.compare_asm_block_asm_format(old, new, params)
        kept = new if eq else old
        out.append({"old": evmconv.items_of_block(old), "new": evmconv.items_of_block(kept), "eq": bool(eq),
                    "old_plain": old.to_plain(), "new_plain": kept.to_plain(), "cand_plain": new.to_plain(),
                    "rules": [s.get("rules") for s in stats]})
    gasol.cleanup_process()
    return out


def count_blocks(path):
    with open(path) as fh:
        d = json.load(fh)
    return d


def check(run):
    rng = random.Random(run.seed)
    ok = common.proof_stage(run, "Props/C01.v")
    run.cov["trusted_base"] += [
        "reference semantics Ref/Word.v, Ref/EVM.v (specification written from the Yellow Paper)",
        "harness/evmconv.py (maps opcode names to the Coq instruction type), harness/gasol.py, harness/pipeline.py",
        "programs/configurations are sampled: the theorem quantifies over states, environments, outside worlds; "
        "blocks and option sets are covered by running the proved validator on generated and shipped inputs"]
    if not ok:
        run.report({"kind": "proof-broken", "what": str(run.proof_broken[0])},
                   "proof obligations of C01 no longer check: %s" % (run.proof_broken,),
                   {"theorem": "C01_block / C01_pipeline (Props/C01.v)", "detail": run.proof_broken}, found_input=False)
        return
    quick = run.tier == "quick"
    nsets = 8 if quick else 36
    nblocks = 110 if quick else 500
    osets = option_sets(rng, nsets, run.tier)
    corpus = []
    cdir = os.path.join(common.VERIF, "corpus", "C01")
    for f in sorted(glob.glob(os.path.join(cdir, "*.txt"))):
        corpus += [l.strip() for l in open(f) if l.strip() and not l.startswith("#")]
    shipped = []
    for f in sorted(glob.glob(os.path.join(common.REPO, "examples", "blocks", "*.txt"))):
        shipped.append(open(f).read().strip())
    dist = Counter()
    pairs, meta = [], []
    evaluations = 0
    for oi, opts in enumerate(osets):
        z3 = "-solver" in opts
        n = nblocks // 3 if z3 else nblocks
        nest = blockgen.nested_rule_blocks()
        texts = corpus + shipped + blockgen.snippet_blocks() + blockgen.mem_boundary_blocks() + blockgen.deep_split_blocks() + (nest[(run.seed + oi) % 2::2] if quick else nest) + blockgen.gen_blocks(rng.getrandbits(32), n)
        if z3:
            texts = corpus + shipped + blockgen.snippet_blocks()[::3] + blockgen.mem_boundary_blocks()[oi % 4::4] + blockgen.gen_blocks(rng.getrandbits(32), n, max_len=14)
        res = pipeline.run_gasol(texts, opts, timeout=90 if z3 else 60)
        for txt, (st, val) in zip(texts, res):
            evaluations += 1
            dist["gasol:" + st] += 1
            if st != "ok":
                continue
            for b in val:
                dist["blocks"] += 1
                dist["len:%d" % (10 * (len(b["old"]) // 10))] += 1
                if b["old"] == b["new"]:
                    dist["unchanged"] += 1
                    if not b["eq"]:
                        dist["reverted-by-gasol-checker"] += 1
                    continue
                dist["changed"] += 1
                pairs.append((b["old"], b["new"]))
                meta.append((opts, txt, b))
        run.log("options %s: %d texts, %d changed pairs so far" % (" ".join(opts), len(texts), len(pairs)))
    if not quick:
        # all blocks of shipped contracts under greedy with three option sets
        files = sorted(glob.glob(os.path.join(common.REPO, "examples", "jsons-solc", "*.json_solc")))
        files = [f for f in files if os.path.getsize(f) < 400000][:12]
        for opts in (["-greedy"], ["-greedy", "-size"], ["-greedy", "-storage"]):
            jobs = [(f, lo, lo + 25) for f in files for lo in range(0, 400, 25)]
            res = gasol.pmap(_contract_blocks, jobs, init=pipeline._init, initargs=(opts,), timeout=400)
            for job, (st, val) in zip(jobs, res):
                dist["contract-job:" + st] += 1
                if st != "ok":
                    continue
                for b in val:
                    evaluations += 1
                    dist["blocks"] += 1
                    if b["old"] == b["new"]:
                        dist["unchanged"] += 1
                        continue
                    dist["changed"] += 1
                    pairs.append((b["old"], b["new"]))
                    meta.append((opts, job[0], b))
    # distinct pairs only
    seen, upairs, umeta = {}, [], []
    for p, m in zip(pairs, meta):
        k = json.dumps(p)
        if k in seen:
            continue
        seen[k] = 1
        upairs.append(p)
        umeta.append(m)
    run.log("validating %d distinct changed pairs with equiv_block (vm_compute)" % len(upairs))
    verdicts = pipeline.coq_pairs(upairs, "c01")
    nacc = sum(1 for v in verdicts if v)
    dist["validator:accepted"] = nacc
    dist["validator:rejected"] = sum(1 for v in verdicts if v is False)
    dist["validator:unsupported-vocabulary"] = sum(1 for v in verdicts if v is None)
    nrep = 0
    for (opts, txt, b), v in zip(umeta, verdicts):
        if v is not False:
            continue
        w = pipeline.search_witness(b["old"], b["new"], rng, "c01w")
        rules = rules_of(b)
        key = {"kind": (w or {}).get("kind", "no-witness"), "rules": rules}
        what = "GASOL %s emitted a block the validator rejects: %s => %s (rules %s)%s" % (
            " ".join(opts), b["old_plain"], b["new_plain"], rules,
            "; distinguishing state found: %s" % json.dumps(w.get("state")) if w and "state" in w else "")
        rep = {"options": opts, "input_block": b["old_plain"], "emitted_block": b["new_plain"], "rules": rules,
               "witness": w, "replay_cmd": "cd /verif && ./check C01 --replay <this file>",
               "obligation": "correspondence emitted = optimize_block(search:=GASOL) i.e. equiv_block input emitted = true"}
        if run.report(key, what, rep, found_input=bool(w and "state" in w or (w and w.get("kind") == "events-differ"))):
            nrep += 1
        if nrep >= 25:
            run.log("stopping after 25 reported violations")
            break
    run.cov["evaluations"] = evaluations
    run.cov["distinct_nontrivial"] = len(upairs)
    run.cov["rule"] = ("block x option-set runs of GASOL's keep-or-revert pipeline; non-trivial = emitted block differs "
                       "from the input block (distinct (input, emitted) pairs), each judged by equiv_block in Coq")
    run.cov["distribution"] = dict(dist)
    run.cov["option_sets"] = [" ".join(o) for o in osets]
    for (opts, txt, b), v in list(zip(umeta, verdicts))[:5]:
        run.add_sample({"options": " ".join(opts), "input": b["old_plain"], "emitted": b["new_plain"], "equiv_block": v})


def replay(run, path):
    with open(path) as fh:
        d = json.load(fh)
    rp = d["replay"]
    res = pipeline.run_gasol([rp["input_block"]], rp["options"])
    print(json.dumps(res, indent=1, default=str)[:3000])
    st, val = res[0]
    if st != "ok":
        print("GASOL did not produce a block:", st)
        return 1
    b = val[0]
    v = pipeline.coq_pairs([(b["old"], b["new"])], "c01r")[0]
    print("input  :", b["old_plain"])
    print("emitted:", b["new_plain"])
    print("equiv_block:", v)
    if b["old"] != b["new"] and v is False:
        w = pipeline.search_witness(b["old"], b["new"], random.Random(1), "c01rw")
        print("witness:", json.dumps(w))
        return 1
    return 0
