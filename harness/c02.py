"""C02: the stack/memory specification denotes the block under every admissible schedule.

Theorem (Props/C02.v, closed): `spec_check S opmap L B = true` implies that L is an admissible
schedule of S's memory/storage/hash operations and that, on every well-formed state with enough
stack, evaluating S under L gives the final stack, memory and storage of B.
Tie: every specification the real front end produces (generated blocks x split modes x rules
on/off, shipped sub-blocks) is converted to Coq and `spec_check` is evaluated by vm_compute for
all admissible schedules (enumerated, capped at 24 per specification), together with
`deps_complete` (every possibly overlapping pair with a write is ordered)."""
import glob
import json
import os
import random
from collections import Counter

from harness import common, gasol, pipeline, blockgen, speccheck

MEM_SNIPPETS = [
    "PUSH 1 PUSH0 MSTORE PUSH 2 PUSH 10 MSTORE PUSH0 MLOAD",
    "PUSH 1 PUSH 20 MSTORE PUSH 2 PUSH 10 PUSH 20 KECCAK256",
    "PUSH 1 PUSH 20 MSTORE PUSH 20 PUSH 10 KECCAK256",
    "PUSH 5 DUP2 MSTORE PUSH 7 DUP2 PUSH 1 ADD MSTORE MLOAD",
    "PUSH 5 DUP2 MSTORE PUSH 7 DUP2 PUSH 20 ADD MSTORE MLOAD",
    "PUSH 5 DUP2 PUSH 20 ADD MSTORE PUSH 7 DUP2 PUSH 40 ADD MSTORE PUSH 20 ADD MLOAD",
    "PUSH 5 DUP2 MSTORE PUSH 7 DUP3 MSTORE DUP1 MLOAD",
    "PUSH 5 DUP2 SSTORE PUSH 7 DUP3 SSTORE DUP1 SLOAD",
    "PUSH 1 PUSH 21 MSTORE8 PUSH 2 PUSH 20 MSTORE PUSH 21 MLOAD",
    "PUSH 2 PUSH 20 MSTORE PUSH 1 PUSH 3f MSTORE8 PUSH 20 MLOAD",
    "PUSH 2 PUSH 20 MSTORE PUSH 1 PUSH 40 MSTORE8 PUSH 20 MLOAD",
    "PUSH 1 PUSH 0 SSTORE PUSH 2 PUSH 1 SSTORE PUSH 0 SLOAD",
    "DUP1 MLOAD DUP2 MLOAD ADD SWAP1 MSTORE", "DUP2 DUP2 MSTORE DUP2 DUP2 MSTORE POP POP",
    "PUSH 7 PUSH 0 MSTORE PUSH 20 PUSH 0 KECCAK256 PUSH 8 PUSH 0 MSTORE PUSH 20 PUSH 0 KECCAK256",
    "PUSH 7 PUSH 1f MSTORE PUSH 20 PUSH 20 KECCAK256", "PUSH 7 PUSH 40 MSTORE PUSH 20 PUSH 20 KECCAK256",
]
OPTSETS = [a + b for a in ([], ["-storage"], ["-partition"]) for b in ([], ["-no-simplification"])]


def gather(run, rng, dist):
    quick = run.tier == "quick"
    n = 120 if quick else 700
    nest = blockgen.nested_rule_blocks()
    texts = list(MEM_SNIPPETS) + blockgen.snippet_blocks() + blockgen.mem_boundary_blocks() + (nest[run.seed % 3::3] if quick else nest)
    cdir = os.path.join(common.VERIF, "corpus", "C02")
    for f in sorted(glob.glob(os.path.join(cdir, "*.txt"))):
        texts += [l.strip() for l in open(f) if l.strip() and not l.startswith("#")]
    for f in sorted(glob.glob(os.path.join(common.REPO, "examples", "blocks", "*.txt"))):
        texts.append(open(f).read().strip())
    cases = []
    for opts in OPTSETS:
        tt = texts + blockgen.gen_blocks(rng.getrandbits(32), n, max_len=30)
        res = speccheck.run_frontend(tt, ["-greedy"] + opts)
        for txt, (st, v) in zip(tt, res):
            dist["frontend:" + st] += 1
            if st != "ok":
                continue
            for k, s in v["sfs"].items():
                cases.append({"sfs": s, "block_items": speccheck.items_of_text(s["original_instrs"]), "text": txt,
                              "key": k, "opts": opts})
    return cases


def check(run):
    rng = random.Random(run.seed)
    ok = common.proof_stage(run, "Props/C02.v")
    run.cov["trusted_base"] += [
        "reference semantics Ref/Word.v, Ref/EVM.v",
        "harness/sfs2coq.py, harness/speccheck.py, harness/evmconv.py (SFS JSON and opcode names -> Coq terms; schedule enumeration)",
        "original_instrs of a specification is taken as the sub-block's instruction list (checked against the block by C16)",
        "the schedule quantifier is enumerated (all admissible schedules up to 24 per specification), not proved"]
    if not ok:
        run.report({"kind": "proof-broken"}, "proof obligations of C02 no longer check: %s" % (run.proof_broken,),
                   {"theorem": "C02_spec_denotes_block (Props/C02.v)", "detail": run.proof_broken}, found_input=False)
        return
    dist = Counter()
    cases = gather(run, rng, dist)
    # distinct specifications only
    seen, ucases = set(), []
    for c in cases:
        k = json.dumps([c["sfs"]["src_ws"], c["sfs"]["tgt_ws"], c["sfs"]["user_instrs"], c["sfs"]["dependencies"], c["sfs"]["original_instrs"]], sort_keys=True)
        if k not in seen:
            seen.add(k)
            ucases.append(c)
    run.log("%d specifications (%d distinct); evaluating spec_check/deps_complete in Coq" % (len(cases), len(ucases)))
    res = speccheck.check_specs(ucases, "c02")
    nontriv, nsched, nrep = 0, 0, 0
    for c, r in zip(ucases, res):
        if "unsupported" in r:
            dist["unsupported:" + r["unsupported"].split(":")[0]] += 1
            continue
        nmem = sum(1 for u in c["sfs"]["user_instrs"] if u["disasm"] in speccheck.MEMOPS)
        dist["memops:%d" % min(nmem, 6)] += 1
        dist["schedules:%s" % (r["schedules"] if r["schedules"] < 6 else "6+")] += 1
        nsched += r["schedules"]
        if nmem > 0 or c["sfs"].get("rules"):
            nontriv += 1
        if not all(r["spec_check"]):
            L = c["_L"][r["spec_check"].index(False)]
            w = speccheck.search_spec_witness(c, L, rng, "c02w")
            key = {"kind": "spec-does-not-denote-block", "witness": (w or {}).get("kind", "none"),
                   "rules": bool(c["sfs"].get("rules")), "memops": nmem > 0}
            what = "specification of %s (options %s) under schedule %s is not what the block computes%s" % (
                c["sfs"]["original_instrs"], " ".join(c["opts"]), L,
                "; state: %s" % json.dumps(w["state"]) if w else "")
            if run.report(key, what, {"block": c["text"], "sub_block": c["sfs"]["original_instrs"], "options": c["opts"],
                                      "schedule": L, "sfs": c["sfs"], "witness": w,
                                      "obligation": "spec_check S opmap L B = true for every admissible L"}, found_input=bool(w)):
                nrep += 1
        elif not r["deps_complete"]:
            key = {"kind": "ordering-incomplete"}
            what = "specification of %s (options %s): two possibly overlapping accesses (one a write) are not ordered; dependencies %s" % (
                c["sfs"]["original_instrs"], " ".join(c["opts"]), c["sfs"]["dependencies"])
            if run.report(key, what, {"block": c["text"], "sub_block": c["sfs"]["original_instrs"], "options": c["opts"],
                                      "sfs": c["sfs"], "obligation": "deps_complete S opmap L = true"}, found_input=False):
                nrep += 1
        if nrep >= 20:
            break
    run.cov["evaluations"] = nsched
    run.cov["distinct_nontrivial"] = nontriv
    run.cov["rule"] = ("(specification, schedule) pairs judged by spec_check in Coq; non-trivial = distinct specifications "
                       "with at least one memory/storage/hash operation or at least one rule applied")
    run.cov["distribution"] = dict(dist)
    for c, r in list(zip(ucases, res))[:3]:
        run.add_sample({"sub_block": c["sfs"]["original_instrs"], "options": c["opts"], "dependencies": c["sfs"]["dependencies"],
                        "schedules": c.get("_L"), "verdict": r})


def replay(run, path):
    with open(path) as fh:
        d = json.load(fh)
    rp = d["replay"]
    res = speccheck.run_frontend([rp["block"]], ["-greedy"] + rp.get("options", []))
    st, v = res[0]
    if st != "ok":
        print("front end:", st, v)
        return 1
    cases = [{"sfs": s, "block_items": speccheck.items_of_text(s["original_instrs"]), "text": rp["block"], "key": k, "opts": rp.get("options", [])}
             for k, s in v["sfs"].items()]
    out = speccheck.check_specs(cases, "c02r")
    bad = 0
    for c, r in zip(cases, out):
        print(c["sfs"]["original_instrs"], r)
        if "unsupported" not in r and (not all(r["spec_check"]) or not r["deps_complete"]):
            bad = 1
    return bad
