"""C02: the stack/memory specification denotes the block under every admissible schedule.

Theorem (Props/C02.v, closed): `spec_check S opmap L B = true` implies that L is an admissible
schedule of S's memory/storage/hash operations and that, on every well-formed state with enough
stack, evaluating S under L gives the final stack, memory and storage of B.
Tie: every specification the real front end produces (generated blocks x split modes x rules
on/off, shipped sub-blocks) is converted to Coq and `spec_check` is evaluated by vm_compute for
all admissible schedules (enumerated, capped at 24 per specification), together with
`deps_complete` (every possibly overlapping pair with a write is ordered)."""
import glob
import json
import re
import os
import random
from collections import Counter

from harness import common, gasol, pipeline, blockgen, speccheck

MEM_SNIPPETS = [
    "PUSH 1 PUSH0 MSTORE PUSH 2 PUSH 10 MSTORE PUSH0 MLOAD",
    "PUSH 1 PUSH 20 MSTORE PUSH 2 PUSH 10 PUSH 20 KECCAK256",
    "PUSH 1 PUSH 20 MSTORE PUSH 20 PUSH 10 KECCAK256",
    "PUSH 5 DUP2 MSTORE PUSH 7 DUP2 PUSH 1 ADD MSTORE MLOAD",
    "PUSH 5 DUP2 MSTORE PUSH 7 DUP2 PUSH 20 ADD MSTORE MLOAD",
    "PUSH 5 DUP2 PUSH 20 ADD MSTORE PUSH 7 DUP2 PUSH 40 ADD MSTORE PUSH 20 ADD MLOAD",
    "PUSH 5 DUP2 MSTORE PUSH 7 DUP3 MSTORE DUP1 MLOAD",
    "PUSH 5 DUP2 SSTORE PUSH 7 DUP3 SSTORE DUP1 SLOAD",
    "PUSH 1 PUSH 21 MSTORE8 PUSH 2 PUSH 20 MSTORE PUSH 21 MLOAD",
    "PUSH 2 PUSH 20 MSTORE PUSH 1 PUSH 3f MSTORE8 PUSH 20 MLOAD",
    "PUSH 2 PUSH 20 MSTORE PUSH 1 PUSH 40 MSTORE8 PUSH 20 MLOAD",
    "PUSH 1 PUSH 0 SSTORE PUSH 2 PUSH 1 SSTORE PUSH 0 SLOAD",
    "DUP1 MLOAD DUP2 MLOAD ADD SWAP1 MSTORE", "DUP2 DUP2 MSTORE DUP2 DUP2 MSTORE POP POP",
    "PUSH 7 PUSH 0 MSTORE PUSH 20 PUSH 0 KECCAK256 PUSH 8 PUSH 0 MSTORE PUSH 20 PUSH 0 KECCAK256",
    "PUSH 7 PUSH 1f MSTORE PUSH 20 PUSH 20 KECCAK256", "PUSH 7 PUSH 40 MSTORE PUSH 20 PUSH 20 KECCAK256",
    # the same value written twice: commutes for storage and for single bytes, not for words at close offsets
    "DUP3 DUP3 MSTORE SWAP2 DUP3 PUSH 10 ADD MSTORE", "DUP3 DUP3 MSTORE DUP3 DUP5 MSTORE", "DUP3 DUP3 SSTORE SWAP2 DUP3 PUSH 10 ADD SSTORE",
    "DUP3 DUP3 MSTORE8 SWAP2 DUP3 PUSH 10 ADD MSTORE8", "DUP3 DUP3 MSTORE8 DUP3 DUP5 MSTORE8", "DUP3 DUP3 SSTORE DUP3 DUP5 SSTORE",
    "DUP1 MLOAD SWAP1 MSTORE8", "DUP1 MLOAD DUP2 MSTORE8 DUP1 MLOAD",
]
OPTSETS = [a + b for a in ([], ["-storage"], ["-partition"]) for b in ([], ["-no-simplification"])]


def gather(run, rng, dist):
    quick = run.tier == "quick"
    n = 120 if quick else 700
    nest = blockgen.nested_rule_blocks()
    texts = list(MEM_SNIPPETS) + blockgen.snippet_blocks() + blockgen.mem_boundary_blocks() + (nest[run.seed % 3::3] if quick else nest)
    cdir = os.path.join(common.VERIF, "corpus", "C02")
    for f in sorted(glob.glob(os.path.join(cdir, "*.txt"))):
        texts += [l.strip() for l in open(f) if l.strip() and not l.startswith("#")]
    for f in sorted(glob.glob(os.path.join(common.REPO, "examples", "blocks", "*.txt"))):
        texts.append(open(f).read().strip())
    cases = []
    for opts in OPTSETS:
        tt = texts + blockgen.gen_blocks(rng.getrandbits(32), n, max_len=30)
        res = speccheck.run_frontend(tt, ["-greedy"] + opts)
        for txt, (st, v) in zip(tt, res):
            dist["frontend:" + st] += 1
            if st != "ok":
                continue
            for k, s in v["sfs"].items():
                cases.append({"sfs": s, "block_items": speccheck.items_of_text(s["original_instrs"]), "text": txt,
                              "key": k, "opts": opts})
    return cases


# ---------------------------------------------------------------------------------------------
# the constant-offset decision of are_dependent: regenerated model (gen/gen_dep.py -> Gen/DepConst.v), theorem
# C02_const_dependence_sound_*, differential tie and counterexample search

DEP_KINDS = ["mstore", "mstore8", "mload0", "keccak2560", "sload0", "sstore"]
DEP_OFFS = [0, 1, 2, 30, 31, 32, 33, 34, 62, 63, 64, 65, 95, 96, 97, 128, 1000]
DEP_LENS = [0, 1, 2, 31, 32, 33, 63, 64, 65, 96]


def _dep_tuple(kind, a, length):
    """The access tuple are_dependent receives: ((addr, value, name),) for stores, ((addr, name),) for loads,
    ((addr, length, name),) for KECCAK256 (length None = symbolic)."""
    if kind.startswith(("mload", "sload")):
        return ((a, kind), 1)
    if kind.startswith("keccak"):
        return ((a, "s(7)" if length is None else length, kind), 2)
    return ((a, "s(9)", kind), 2)


def _dep_worker(params, chunk):
    import sfs_generator.gasol_optimization as go
    go.init_globals()
    go.extra_dep_info = {}
    go.non_aliasing_disabled = False
    out = []
    for (k1, k2, a1, a2, l1, l2) in chunk:
        loc = "storage" if k1.startswith("s") and not k1.startswith("sha") else "memory"
        try:
            out.append(bool(go.are_dependent(_dep_tuple(k1, a1, l1), _dep_tuple(k2, a2, l2), 0, 1, loc)))
        except Exception as e:  # noqa
            out.append("EXC %s: %s" % (type(e).__name__, str(e)[:80]))
    return out


def _dep_cases(rng, n):
    mem = DEP_KINDS[:4]
    sto = DEP_KINDS[4:]
    cases = []
    # systematic: every pair of kinds, offsets at distance -33..33 around 32 and 64, boundary lengths
    for k1 in mem:
        for k2 in mem:
            for base in (32, 64):
                for d in (-33, -32, -31, -1, 0, 1, 31, 32, 33):
                    if base + d < 0:
                        continue
                    for ln in ((0, 1, 32, 33, None) if "keccak" in k1 + k2 else (32,)):
                        cases.append((k1, k2, base, base + d, ln, ln))
    for k1 in sto:
        for k2 in sto:
            for a1, a2 in ((0, 0), (0, 1), (5, 5), (7, 3)):
                cases.append((k1, k2, a1, a2, 0, 0))
    while len(cases) < n:
        ks = mem if rng.random() < 0.85 else sto
        cases.append((rng.choice(ks), rng.choice(ks), rng.choice(DEP_OFFS), rng.choice(DEP_OFFS),
                      rng.choice(DEP_LENS + [None]), rng.choice(DEP_LENS + [None])))
    return cases


def _size(kind, length):
    return 1 if "mstore8" in kind else (length if "keccak" in kind else 32)


def dep_stage(run, rng, dist, proof_ok):
    """(a) Python are_dependent == regenerated Coq definition on a grid (vm_compute);
    (b) ground truth: 'independent' with a write involved only for disjoint ranges / different keys -- this is the
    search for a failing input when the theorem or the translation no longer checks."""
    quick = run.tier == "quick"
    cases = _dep_cases(rng, 2500 if quick else 12000)
    chunks = [cases[i:i + 400] for i in range(0, len(cases), 400)]
    res = gasol.pmap(_dep_worker, chunks, init=pipeline._init, initargs=(["-greedy"],), timeout=120)
    py = []
    for ch, (st, v) in zip(chunks, res):
        py += v if st == "ok" else ["EXC worker %s" % st] * len(ch)
    dist["dep:python-evaluations"] = len(py)
    nviol = 0
    for (k1, k2, a1, a2, l1, l2), r in zip(cases, py):
        if isinstance(r, str):
            dist["dep:python-raised"] += 1
            continue
        write = "store" in k1 or "store" in k2
        if k1.startswith("s") != k2.startswith("s"):
            continue
        if not write or r:
            continue
        if k1.startswith("s"):
            bad = a1 == a2
            lens = [(0, 0)]
        else:
            # a symbolic length stands for every length: try a few
            c1 = [l1] if l1 is not None else [0, 1, 32, 64, 4096]
            c2 = [l2] if l2 is not None else [0, 1, 32, 64, 4096]
            lens = [(x, y) for x in c1 for y in c2]
            bad = any(max(a1, a2) < min(a1 + _size(k1, x), a2 + _size(k2, y)) for x, y in lens)
        if bad and nviol < 5:
            nviol += 1
            run.report({"kind": "overlapping-accesses-independent", "kinds": "%s/%s" % (k1, k2)},
                       "are_dependent answers independent for %s at %s and %s at %s (lengths %s, %s) although the ranges overlap / the keys are equal"
                       % (k1, a1, k2, a2, l1, l2),
                       {"kind": "are_dependent", "call": {"t1": list(_dep_tuple(k1, a1, l1)[0]), "t2": list(_dep_tuple(k2, a2, l2)[0])},
                        "python_result": r, "theorem": "C02_const_dependence_sound_mem/_sto (Props/C02.v)"}, found_input=True)
    if not proof_ok:
        return nviol
    # (a) differential tie with the regenerated definition
    def coq_case(c):
        k1, k2, a1, a2, l1, l2 = c
        return '(are_dependent_const "%s" "%s" %d %d %s %s %d %d)' % (
            k1, k2, a1, a2, "true" if l1 is None else "false", "true" if l2 is None else "false", l1 or 0, l2 or 0)
    hdr = ("From Coq Require Import ZArith List Bool String.\nImport ListNotations.\n"
           "From GV Require Import Model.DepPrelude Gen.DepConst.\nOpen Scope string_scope.\nOpen Scope Z_scope.\n")
    files = []
    per = 500
    for f0 in range(0, len(cases), per):
        body = hdr + "Eval vm_compute in [%s].\n" % "; ".join(coq_case(c) for c in cases[f0:f0 + per])
        files.append(("c02dep_%d_%d" % (os.getpid(), f0 // per), body))
    outs = common.run_cases_parallel(files, timeout=600)
    coq = []
    for name, _ in files:
        okc, out = outs[name]
        if not okc:
            run.report({"kind": "cases-broken"}, "the dependence cases file did not evaluate: %s" % out[-300:], {"output": out[-1500:]}, found_input=False)
            return nviol
        vals = common.parse_eval_list(out)
        coq += [x == "true" for x in re.findall(r"\b(true|false)\b", " ".join(vals))]
        for ext in (".v", ".vo", ".glob", ".vos", ".vok"):
            try:
                os.remove(os.path.join(common.COQ, "Cases", name + ext))
            except OSError:
                pass
    if len(coq) != len(cases):
        run.report({"kind": "cases-broken"}, "unexpected number of results from the dependence cases (%d for %d)" % (len(coq), len(cases)), {}, found_input=False)
        return nviol
    dis = 0
    for c, p, q in zip(cases, py, coq):
        if isinstance(p, str):
            continue
        if c[0].startswith("s") != c[1].startswith("s"):
            continue
        if p != q:
            dis += 1
            if dis <= 3:
                run.report({"kind": "dependence-model-differs"}, "are_dependent%s = %s but the regenerated model gives %s" % (c, p, q),
                           {"kind": "are_dependent", "case": list(c), "python": p, "model": q}, found_input=True)
    dist["dep:compared-with-model"] = len(cases)
    dist["dep:disagreements"] = dis
    return nviol


def check(run):
    rng = random.Random(run.seed)

    def gen(r):
        from gen import gen_dep
        gen_dep.generate(r)
    ok = common.proof_stage(run, "Props/C02.v", gen=gen)
    run.cov["trusted_base"] += [
        "reference semantics Ref/Word.v, Ref/EVM.v",
        "harness/sfs2coq.py, harness/speccheck.py, harness/evmconv.py (SFS JSON and opcode names -> Coq terms; schedule enumeration)",
        "original_instrs of a specification is taken as the sub-block's instruction list (checked against the block by C16)",
        "the schedule quantifier is enumerated (all admissible schedules up to 24 per specification), not proved",
        "gen/gen_dep.py: the constant-offset decision of are_dependent is translated under the assumptions extra_dep_info = {} "
        "(no external non-aliasing analysis) and integer offsets; instruction names as the front end builds them (mload<n>, keccak256<n>)"]
    dist = Counter()
    if not ok:
        # which input fails?  the dependence decision is searched directly on the implementation
        found = dep_stage(run, rng, dist, False)
        if not found:
            run.report({"kind": "proof-broken"}, "proof obligations of C02 no longer check: %s" % (run.proof_broken,),
                       {"theorem": "C02_spec_denotes_block / C02_const_dependence_sound_* (Props/C02.v)", "detail": run.proof_broken}, found_input=False)
        return
    dep_stage(run, rng, dist, True)
    cases = gather(run, rng, dist)
    # distinct specifications only
    seen, ucases = set(), []
    for c in cases:
        k = json.dumps([c["sfs"]["src_ws"], c["sfs"]["tgt_ws"], c["sfs"]["user_instrs"], c["sfs"]["dependencies"], c["sfs"]["original_instrs"]], sort_keys=True)
        if k not in seen:
            seen.add(k)
            ucases.append(c)
    run.log("%d specifications (%d distinct); evaluating spec_check/deps_complete in Coq" % (len(cases), len(ucases)))
    res = speccheck.check_specs(ucases, "c02")
    nontriv, nsched, nrep = 0, 0, 0
    for c, r in zip(ucases, res):
        if "unsupported" in r:
            dist["unsupported:" + r["unsupported"].split(":")[0]] += 1
            continue
        nmem = sum(1 for u in c["sfs"]["user_instrs"] if u["disasm"] in speccheck.MEMOPS)
        dist["memops:%d" % min(nmem, 6)] += 1
        dist["schedules:%s" % (r["schedules"] if r["schedules"] < 6 else "6+")] += 1
        nsched += r["schedules"]
        if nmem > 0 or c["sfs"].get("rules"):
            nontriv += 1
        if not all(r["spec_check"]):
            L = c["_L"][r["spec_check"].index(False)]
            w = speccheck.search_spec_witness(c, L, rng, "c02w")
            key = {"kind": "spec-does-not-denote-block", "witness": (w or {}).get("kind", "none"),
                   "rules": bool(c["sfs"].get("rules")), "memops": nmem > 0}
            what = "specification of %s (options %s) under schedule %s is not what the block computes%s" % (
                c["sfs"]["original_instrs"], " ".join(c["opts"]), L,
                "; state: %s" % json.dumps(w["state"]) if w else "")
            if run.report(key, what, {"block": c["text"], "sub_block": c["sfs"]["original_instrs"], "options": c["opts"],
                                      "schedule": L, "sfs": c["sfs"], "witness": w,
                                      "obligation": "spec_check S opmap L B = true for every admissible L"}, found_input=bool(w)):
                nrep += 1
        elif not r["deps_complete"]:
            key = {"kind": "ordering-incomplete"}
            what = "specification of %s (options %s): two possibly overlapping accesses (one a write) are not ordered; dependencies %s" % (
                c["sfs"]["original_instrs"], " ".join(c["opts"]), c["sfs"]["dependencies"])
            if run.report(key, what, {"block": c["text"], "sub_block": c["sfs"]["original_instrs"], "options": c["opts"],
                                      "sfs": c["sfs"], "obligation": "deps_complete S opmap L = true"}, found_input=False):
                nrep += 1
        if nrep >= 20:
            break
    run.cov["evaluations"] = nsched
    run.cov["distinct_nontrivial"] = nontriv
    run.cov["rule"] = ("(specification, schedule) pairs judged by spec_check in Coq; non-trivial = distinct specifications "
                       "with at least one memory/storage/hash operation or at least one rule applied")
    run.cov["distribution"] = dict(dist)
    for c, r in list(zip(ucases, res))[:3]:
        run.add_sample({"sub_block": c["sfs"]["original_instrs"], "options": c["opts"], "dependencies": c["sfs"]["dependencies"],
                        "schedules": c.get("_L"), "verdict": r})


def replay(run, path):
    with open(path) as fh:
        d = json.load(fh)
    rp = d["replay"]
    if rp.get("kind") == "are_dependent":
        # the call on the implementation; exit 1 when it still answers independent for overlapping accesses
        t1, t2 = rp["call"]["t1"], rp["call"]["t2"] if "call" in rp else (None, None)
        if "call" not in rp:
            print("model/implementation disagreement:", rp)
            return 1
        k1, k2 = t1[-1], t2[-1]
        l1 = t1[1] if "keccak" in k1 and not str(t1[1]).startswith("s") else None
        l2 = t2[1] if "keccak" in k2 and not str(t2[1]).startswith("s") else None
        res = gasol.pmap(_dep_worker, [[(k1, k2, t1[0], t2[0], l1, l2)]], init=pipeline._init, initargs=(["-greedy"],), timeout=60)
        print("are_dependent(%s, %s) ->" % (t1, t2), res)
        return 1 if res[0][0] == "ok" and res[0][1][0] is False else 0
    res = speccheck.run_frontend([rp["block"]], ["-greedy"] + rp.get("options", []))
    st, v = res[0]
    if st != "ok":
        print("front end:", st, v)
        return 1
    cases = [{"sfs": s, "block_items": speccheck.items_of_text(s["original_instrs"]), "text": rp["block"], "key": k, "opts": rp.get("options", [])}
             for k, s in v["sfs"].items()]
    out = speccheck.check_specs(cases, "c02r")
    bad = 0
    for c, r in zip(cases, out):
        print(c["sfs"]["original_instrs"], r)
        if "unsupported" not in r and (not all(r["spec_check"]) or not r["deps_complete"]):
            bad = 1
    return bad
