"""C03  Simplification rules and constant folding are identities on 256-bit words  ([T-gen] core).

Stages of `check(run)`:
 1. gen/gen_fold.py regenerates coq/Gen/{CheckSize,Fold,LocalRules}.v and the per-operator /
    per-branch obligations from $GASOL_REPO (fail closed), then the cone of Props/C03.v is built.
 2. if the build breaks: every obligation is compiled on its own (sound / refuted-as-listed) and
    classified; obsolete entries of gen/known_unsound.json are reported as such, a new failing
    obligation is a violation (a failing input is searched on the real functions).
 3. differential check: the real Python functions are called on a boundary grid and compared with
    the generated definitions evaluated by the Coq kernel (vm_compute).
 4. every refuted obligation is replayed on the real code (function level and block level) and
    reported (known finding or violation).
"""
import concurrent.futures as cf
import json
import os
import random
import re
import shutil

from harness import common, gasol
from gen import gen_fold


OBDIR = os.path.join(common.WORK, "c03_ob")
CASEDIR = os.path.join(common.WORK, "c03_cases")


def classify(obs, known, modes, tag="ob", timeout=120):
    """Compile each obligation alone. modes: list of 'sound'/'refuted' to try per obligation.
    Returns {id: {mode: (ok, tail of output)}}."""
    d = OBDIR      # not coq/Cases: other checks clean that directory concurrently
    os.makedirs(d, exist_ok=True)
    jobs = []
    for ob in obs:
        for mode in modes:
            if mode == "refuted" and ob["id"] not in known:
                continue
            name = "%s_%s_%s" % (tag, ob["id"], mode)
            with open(os.path.join(d, name + ".v"), "w") as fh:
                fh.write(gen_fold.single_file(ob, known, mode))
            jobs.append((ob["id"], mode, name))

    def one(job):
        oid, mode, name = job
        rc, out = common.sh("timeout %d coqc -Q %s GV %s.v" % (timeout, common.COQ, name), cwd=d, timeout=timeout + 20)
        return oid, mode, rc == 0, "\n".join(out.splitlines()[-12:])
    res = {}
    with cf.ThreadPoolExecutor(max_workers=common.NCPU) as ex:
        for oid, mode, ok, out in ex.map(one, jobs):
            res.setdefault(oid, {})[mode] = (ok, out)
    return res
