"""C03  Simplification rules and constant folding are identities on 256-bit words  ([T-gen] core).

Stages of `check(run)`:
 1. gen/gen_fold.py regenerates coq/Gen/{CheckSize,Fold,LocalRules}.v and the per-operator /
    per-branch obligations from $GASOL_REPO (fail closed), then the cone of Props/C03.v is built.
 2. if the build breaks: every obligation is compiled on its own (sound / refuted-as-listed) and
    classified; obsolete entries of gen/known_unsound.json are reported as such, a new failing
    obligation is a violation (a failing input is searched on the real functions).
 3. differential check: the real Python functions are called on a boundary grid and compared with
    the generated definitions evaluated by the Coq kernel (vm_compute).
 4. every refuted obligation is replayed on the real code (function level and block level) and
    reported (known finding or violation).
"""
import concurrent.futures as cf
import json
import os
import random
import re
import shutil

from harness import common, gasol
from gen import gen_fold


OBDIR = os.path.join(common.WORK, "c03_ob_%d" % os.getpid())
CASEDIR = os.path.join(common.WORK, "c03_cases_%d" % os.getpid())


def classify(obs, known, modes, tag="ob", timeout=400):
    """Compile each obligation alone. modes: list of 'sound'/'refuted' to try per obligation.
    Returns {id: {mode: (ok, tail of output)}}."""
    d = OBDIR      # not coq/Cases: other checks clean that directory concurrently
    os.makedirs(d, exist_ok=True)
    jobs = []
    for ob in obs:
        for mode in modes:
            if mode == "refuted" and ob["id"] not in known:
                continue
            name = "%s_%s_%s" % (tag, ob["id"], mode)
            with open(os.path.join(d, name + ".v"), "w") as fh:
                fh.write(gen_fold.single_file(ob, known, mode))
            jobs.append((ob["id"], mode, name))

    def one(job, tmo=None):
        oid, mode, name = job
        tmo = tmo or timeout
        rc, out = common.sh("timeout %d coqc -Q %s GV %s.v" % (tmo, common.COQ, name), cwd=d, timeout=tmo + 20)
        return oid, mode, rc, "\n".join(out.splitlines()[-12:])
    res = {}
    slow = []
    with cf.ThreadPoolExecutor(max_workers=max(2, common.NCPU // 2)) as ex:
        for job, (oid, mode, rc, out) in zip(jobs, ex.map(one, jobs)):
            if rc == 124:
                slow.append(job)      # a time-out is not a failed proof: decide it again, alone
            else:
                res.setdefault(oid, {})[mode] = (rc == 0, out)
    for job in slow:
        oid, mode, rc, out = one(job, 1500)
        res.setdefault(oid, {})[mode] = (rc == 0, out if rc != 124 else "coqc timed out twice (1500 s)")
    return res


# ---------------------------------------------------------------------------------------
# reference EVM arithmetic in Python: used ONLY to describe replays (expected value, concrete
# stack on which two blocks differ); the proofs are against coq/Ref/Word.v.

M = 2 ** 256
H = 2 ** 255


def sgn(x):
    return x if x < H else x - M


def _quot(a, b):
    q = abs(a) // abs(b)
    return q if (a < 0) == (b < 0) else -q


EVM2 = {
    "ADD": lambda a, b: (a + b) % M, "SUB": lambda a, b: (a - b) % M, "MUL": lambda a, b: (a * b) % M,
    "DIV": lambda a, b: 0 if b == 0 else a // b,
    "SDIV": lambda a, b: 0 if b == 0 else _quot(sgn(a), sgn(b)) % M,
    "MOD": lambda a, b: 0 if b == 0 else a % b,
    "SMOD": lambda a, b: 0 if b == 0 else (sgn(a) - sgn(b) * _quot(sgn(a), sgn(b))) % M,
    "EXP": lambda a, b: pow(a, b, M),
    "LT": lambda a, b: int(a < b), "GT": lambda a, b: int(a > b),
    "SLT": lambda a, b: int(sgn(a) < sgn(b)), "SGT": lambda a, b: int(sgn(a) > sgn(b)),
    "EQ": lambda a, b: int(a == b), "AND": lambda a, b: a & b, "OR": lambda a, b: a | b, "XOR": lambda a, b: a ^ b,
    "SHL": lambda s, x: (x << s) % M if s < 256 else 0,
    "SHR": lambda s, x: x >> s if s < 256 else 0,
    "SAR": lambda s, x: (sgn(x) >> s) % M if s < 256 else (M - 1 if sgn(x) < 0 else 0),
}
EVM1 = {"NOT": lambda a: M - 1 - a, "ISZERO": lambda a: int(a == 0)}
EVM3 = {"ADDMOD": lambda a, b, n: 0 if n == 0 else (a + b) % n, "MULMOD": lambda a, b, n: 0 if n == 0 else (a * b) % n}
FUNCT_OPCODE = {"+": "ADD", "-": "SUB", "*": "MUL", "/": "DIV", "^": "EXP", "%": "MOD", "and": "AND", "or": "OR",
                "xor": "XOR", "eq": "EQ", "gt": "GT", "lt": "LT", "shl": "SHL", "shr": "SHR", "sar": "SAR",
                "addmod": "ADDMOD", "mulmod": "MULMOD"}


def run_block(text, stack):
    """Evaluate a straight-line block of PUSH/DUP/SWAP/POP/arith on a concrete stack (top first).
    Returns the final stack or None when an unsupported instruction / underflow occurs."""
    st = list(stack)
    toks = text.split()
    i = 0
    try:
        while i < len(toks):
            t = toks[i]
            i += 1
            if t == "PUSH0":
                st.insert(0, 0)
            elif t == "PUSH":
                st.insert(0, int(toks[i], 16))
                i += 1
            elif re.fullmatch(r"PUSH\d+", t):
                st.insert(0, int(toks[i], 16))
                i += 1
            elif t == "POP":
                st.pop(0)
            elif t.startswith("DUP"):
                st.insert(0, st[int(t[3:]) - 1])
            elif t.startswith("SWAP"):
                k = int(t[4:])
                st[0], st[k] = st[k], st[0]
            elif t in EVM1:
                st.insert(0, EVM1[t](st.pop(0)))
            elif t in EVM2:
                a, b = st.pop(0), st.pop(0)
                st.insert(0, EVM2[t](a, b))
            elif t in EVM3:
                a, b, c = st.pop(0), st.pop(0), st.pop(0)
                st.insert(0, EVM3[t](a, b, c))
            else:
                return None
    except (IndexError, ValueError):
        return None
    return st


def first_difference(old, new, depth):
    """A concrete stack (from a boundary grid) on which the two blocks leave different stacks."""
    grid = [0, 1, 2, 5, 255, 256, H - 1, H, M - 2, M - 1]
    import itertools
    for vals in itertools.product(grid, repeat=depth):
        a, b = run_block(old, vals), run_block(new, vals)
        if a is not None and b is not None and a != b:
            return {"stack_top_first": [hex(v) for v in vals], "original_result": [hex(v) for v in a],
                    "emitted_result": [hex(v) for v in b]}
    return None


# ---------------------------------------------------------------------------------------
# calling the real functions (forked workers; folding of shifts/exp with huge operands hangs)

def _init_real():
    import sfs_generator.gasol_optimization as go
    go.init_globals()
    return go


def _reset(go, size_flag):
    go.size_flag = size_flag
    go.int_not0 = [-1 + 2 ** 256]
    go.discount_op = 0
    go.saved_push = 0
    go.gas_saved_op = 0
    go.rule = ""
    go.rule_applied = False
    go.already_considered = []
    go.push_rebuilt = {}
    go.context_info = {}
    go.debug = False
    go.s_dict = {}
    go.u_dict = {}


def _pyres(f):
    try:
        v = f()
    except ZeroDivisionError:
        return "PyZeroDiv"
    except OverflowError:
        return "PyOverflow"
    except MemoryError:
        return "memory"
    if v is None:
        return "PyNone"
    if type(v) is int:
        return "PyOk 0x%x" % v if v >= 0 else "PyOk -0x%x" % -v
    return "PyOther"


def _opnd(x):
    return x if type(x) is int else ("s(%d)" % x[1])


def _real(go, case):
    kind = case[0]
    if kind == "ee":
        _, op, a, b = case
        return _pyres(lambda: go.evaluate_expression(op, a, b))
    if kind == "ee3":
        _, op, a, b, c = case
        return _pyres(lambda: go.evaluate_expression_ter(op, a, b, c))
    if kind == "cb":       # compute_binary = fold2 (+ unreduced str(val))
        _, op, a, b = case
        _reset(go, False)

        def f():
            r, e = go.compute_binary((a, b, op), 0)
            if not r:
                return None
            return None if e == "None" else int(e)
        return _pyres(f)          # str(val) of more than 4300 digits raises ValueError -> "exc ValueError"
    if kind == "ct":
        _, op, a, b, c = case
        _reset(go, False)

        def f():
            r, e = go.compute_ternary((a, b, c, op))
            if not r:
                return None
            return None if e == "None" else int(e)
        return _pyres(f)
    if kind == "cs":
        _, a, b, e = case
        r, x = go.check_size((a, b, "+"), e)
        return "(%s, %s)" % ("true" if r else "false", ("CSNew %d" % x) if type(x) is int else "CSOld")
    if kind == "nb":
        return "%d" % go.get_num_bytes_int(case[1])
    if kind == "un":       # update_unary_func folding of not / iszero
        _, func, val, sf = case
        _reset(go, sf)
        go.update_unary_func(func, "s(9)", str(val), True)    # the caller passes the operand as text
        r = go.s_dict["s(9)"]
        return ("int %d" % r) if type(r) is int else "uvar"
    if kind == "at":
        _, sf, opc, ops = case
        _reset(go, sf)
        r = go.apply_transform({"disasm": opc, "inpt_sk": [_opnd(o) for o in ops]})
        eff = "%d %d %d %s" % (go.discount_op, go.saved_push, go.gas_saved_op, json.dumps(go.rule))
        if r is None:
            return "RuleNone"
        if type(r) is int and r == -1:
            return "NoRule"
        if type(r) is int:
            return "Replace (OInt %d) %s" % (r, eff)
        m = re.fullmatch(r"s\((\d+)\)", r)
        return "Replace (OVar %s) %s" % (m.group(1), eff)
    raise ValueError(kind)


def real_outcomes(cases, timeout=6):
    res = gasol.pmap(_real, cases, init=_init_real, timeout=timeout, mem_gb=2)
    out = []
    for st, v in res:
        if st == "ok":
            out.append(v)
        elif st == "exc":
            out.append("exc " + v.split(":")[0])
        else:
            out.append(st)          # timeout | memory | crash
    return out


# ---------------------------------------------------------------------------------------
# the generated model, evaluated by the Coq kernel

CASES_HEADER = """From Coq Require Import ZArith Bool String List. Import ListNotations.
From GV Require Import Ref.PyInt Gen.CheckSize Gen.Fold Gen.LocalRules.
Open Scope Z_scope.
Inductive out := OP (r : pyres) | OS (b : bool) (c : cs_expr) | OZ (z : Z) | OU (o : option Z) | ORR (r : rule_res) | OX.
Definition pyres_eqb (a b : pyres) := match a, b with
  | PyOk x, PyOk y => Z.eqb x y | PyZeroDiv, PyZeroDiv | PyOverflow, PyOverflow | PyOther, PyOther | PyNone, PyNone => true
  | _, _ => false end.
Definition operand_eqb (a b : operand) := match a, b with
  | OInt x, OInt y => Z.eqb x y | OVar n, OVar m => Nat.eqb n m | _, _ => false end.
Definition eff_eqb (a b : effects) := Z.eqb (eff_discount_op a) (eff_discount_op b) && Z.eqb (eff_saved_push a) (eff_saved_push b)
  && Z.eqb (eff_gas_saved_op a) (eff_gas_saved_op b) && String.eqb (eff_rule a) (eff_rule b).
Definition rr_eqb (a b : rule_res) := match a, b with
  | NoRule, NoRule | RuleNone, RuleNone => true | Replace o e, Replace o' e' => operand_eqb o o' && eff_eqb e e' | _, _ => false end.
Definition cs_eqb (a b : cs_expr) := match a, b with CSNew x, CSNew y => Z.eqb x y | CSOld, CSOld | CSNone, CSNone => true | _, _ => false end.
(* 0 agree, 1 differ, 2 the model declines to compute (PyHuge: result above the resource bound) *)
Definition agree (m e : out) : Z := match m, e with
  | OP PyHuge, _ => 2
  | OP a, OP b => if pyres_eqb a b then 0 else 1
  | OS b c, OS b' c' => if Bool.eqb b b' && cs_eqb c c' then 0 else 1
  | OZ a, OZ b => if Z.eqb a b then 0 else 1
  | OU (Some a), OU (Some b) => if Z.eqb a b then 0 else 1
  | OU None, OU None => 0
  | ORR a, ORR b => if rr_eqb a b then 0 else 1
  | _, _ => 1 end.
Definition codes (l : list (out * out)) := map (fun p => agree (fst p) (snd p)) l.
Fixpoint idx (c : Z) (n : nat) (l : list Z) : list nat := match l with [] => [] | x :: t => (if Z.eqb x c then [n] else []) ++ idx c (S n) t end.
"""


def zc(n):
    return "(%s0x%x)" % ("-" if n < 0 else "", abs(n))


def cstr(s):
    return '"' + s.replace('"', '""') + '"%string'


def copnd(o):
    return "OInt %s" % zc(o) if type(o) is int else "OVar %d" % o[1]


def model_expr(case):
    k = case[0]
    if k == "ee":
        return "OP (evaluate_expression default_lim %s %s %s)" % (cstr(case[1]), zc(case[2]), zc(case[3]))
    if k == "cb":
        return "OP (fold2 default_lim %s %s %s)" % (cstr(case[1]), zc(case[2]), zc(case[3]))
    if k == "ee3":
        return "OP (evaluate_expression_ter default_lim %s %s %s %s)" % (cstr(case[1]), zc(case[2]), zc(case[3]), zc(case[4]))
    if k == "ct":
        return "OP (fold3 default_lim %s %s %s %s)" % (cstr(case[1]), zc(case[2]), zc(case[3]), zc(case[4]))
    if k == "cs":
        return "(let r := check_size %s %s %s in OS (fst r) (snd r))" % (zc(case[1]), zc(case[2]), zc(case[3]))
    if k == "nb":
        return "OZ (get_num_bytes_int %s)" % zc(case[1])
    if k == "un":
        _, func, val, sf = case
        if func == "not":
            return "OU (if %s || fold_not_size_ok %s then Some (fold_not %s) else None)" % ("false" if sf else "true", zc(val), zc(val))
        return "OU (Some (fold_iszero %s))" % zc(val)
    if k == "at":
        _, sf, opc, ops = case
        return "ORR (apply_transform %s %s [%s])" % ("true" if sf else "false", cstr(opc), "; ".join(copnd(o) for o in ops))
    raise ValueError(k)


def expected_expr(case, real):
    k = case[0]
    if real in ("timeout", "memory", "crash") or real.startswith("exc "):
        return "OX"
    if k in ("ee", "cb", "ee3", "ct"):
        if real.startswith("PyOk "):
            return "OP (PyOk %s)" % zc(int(real[5:], 16))
        return "OP %s" % real
    if k == "cs":
        m = re.fullmatch(r"\((true|false), (CSOld|CSNew (-?\d+))\)", real)
        return "OS %s %s" % (m.group(1), "CSOld" if m.group(2) == "CSOld" else "(CSNew %s)" % zc(int(m.group(3))))
    if k == "nb":
        return "OZ %s" % zc(int(real))
    if k == "un":
        return "OU None" if real == "uvar" else "OU (Some %s)" % zc(int(real[4:]))
    if k == "at":
        if real in ("NoRule", "RuleNone"):
            return "ORR %s" % real
        m = re.fullmatch(r"Replace \((OInt (-?\d+)|OVar (\d+))\) (-?\d+) (-?\d+) (-?\d+) (.*)", real)
        o = "OInt %s" % zc(int(m.group(2))) if m.group(2) is not None else "OVar %s" % m.group(3)
        return "ORR (Replace (%s) (mkEff %s %s %s %s))" % (o, zc(int(m.group(4))), zc(int(m.group(5))), zc(int(m.group(6))), cstr(json.loads(m.group(7))))
    raise ValueError(k)


def model_compare(cases, reals, chunk=400, timeout=600):
    """Returns (list of indices that differ, list of indices where the model says PyHuge, errors)."""
    shutil.rmtree(CASEDIR, ignore_errors=True)
    os.makedirs(CASEDIR)
    names = []
    for ci in range(0, len(cases), chunk):
        name = "c03_cases_%d_%03d" % (os.getpid(), ci // chunk)
        pairs = ["(%s,\n  %s)" % (model_expr(c), expected_expr(c, r)) for c, r in zip(cases[ci:ci + chunk], reals[ci:ci + chunk])]
        body = CASES_HEADER + "Definition cases : list (out * out) := [\n" + ";\n".join(pairs) + "].\n" \
            "Definition cs := Eval vm_compute in codes cases.\n" \
            "Eval vm_compute in (length cs, idx 1 0 cs, idx 2 0 cs).\n"
        with open(os.path.join(CASEDIR, name + ".v"), "w") as fh:
            fh.write(body)
        names.append((name, ci))

    def one(nc):
        name, ci = nc
        rc, out = common.sh("ulimit -s unlimited 2>/dev/null; timeout %d coqc -Q %s GV %s.v" % (timeout, common.COQ, name),
                            cwd=CASEDIR, timeout=timeout + 30)
        return name, ci, rc, out
    differ, huge, errors = [], [], []
    with cf.ThreadPoolExecutor(max_workers=common.NCPU) as ex:
        for name, ci, rc, out in ex.map(one, names):
            m = re.search(r"=\s*\((\d+)%nat,\s*(\[.*?\]),\s*(\[.*?\])\)", out, re.S)
            if rc != 0 or not m:
                errors.append((name, out[-600:]))
                continue
            n = min(chunk, len(cases) - ci)
            if int(m.group(1)) != n:
                errors.append((name, "evaluated %s cases, expected %d" % (m.group(1), n)))
            differ += [ci + int(x) for x in re.findall(r"(\d+)%nat", m.group(2))]
            huge += [ci + int(x) for x in re.findall(r"(\d+)%nat", m.group(3))]
    return sorted(differ), sorted(huge), errors


# ---------------------------------------------------------------------------------------
# case generation

GRID = [0, 1, 2, 3, 31, 32, 255, 256, 2 ** 64, 2 ** 128, 2 ** 160 - 1, H - 1, H, H + 1, M - 2, M - 1]
POW_OPS = {"^", "shl", "shr", "sar"}


def risky(case):
    """Scheduling heuristic only: calls that are expected not to return on the unchanged tree."""
    k = case[0]
    if k in ("ee", "cb") and case[1] in POW_OPS:
        if case[1] == "^":
            return case[2] > 1 and case[3] * max(1, case[2].bit_length() - 1) > 2 ** 27
        return case[2] > 2 ** 27
    return False


def rand_word(rnd):
    c = rnd.random()
    if c < 0.3:
        return rnd.getrandbits(256)
    if c < 0.5:
        return rnd.getrandbits(rnd.choice([8, 16, 53, 54, 64, 128, 160, 255]))
    if c < 0.7:
        return rnd.choice(GRID)
    if c < 0.85:
        return M - 1 - rnd.getrandbits(rnd.choice([1, 8, 64]))
    return H + rnd.getrandbits(rnd.choice([1, 8, 200])) - rnd.getrandbits(4)


def gen_cases(meta, rnd, tier):
    thorough = tier == "thorough"
    cases = []
    ops2 = list(meta["folded2"])
    ee_ops = sorted({b["op"] for b in meta["fold_branches"] if b["arity"] == 2})
    for op in ops2:
        for a in GRID:
            for b in GRID:
                cases.append(("cb", op, a, b))
    for op in ["slt", "sgt", "sdiv", "byte", "signextend", "nosuchop"]:      # not folded
        for a in (GRID if thorough else GRID[::5]):
            for b in (GRID if thorough else GRID[::5]):
                cases.append(("cb", op, a, b))
    nrand = 400 if thorough else 60
    for op in ops2:
        for _ in range(nrand):
            a, b = rand_word(rnd), rand_word(rnd)
            if op in ("shl", "shr", "sar") and rnd.random() < 0.7:
                a = rnd.randrange(0, 300)
            if op == "^" and rnd.random() < 0.7:
                b = rnd.randrange(0, 70)
            cases.append(("cb", op, a, b))
    for op in ee_ops + ["nosuchop"]:
        for _ in range(nrand if thorough else 30):
            a, b = rnd.choice(GRID), rand_word(rnd)
            if op in POW_OPS and rnd.random() < 0.8:
                a = rnd.randrange(0, 300)
                if op == "^":
                    a, b = b, a % 70
            cases.append(("ee", op, a, b))
    g3 = [0, 1, 2, 255, 2 ** 128, H, M - 2, M - 1] if thorough else [0, 1, 2, H, M - 2, M - 1]
    ee3_ops = sorted({b["op"] for b in meta["fold_branches"] if b["arity"] == 3})
    for a in g3:
        for b in g3:
            for c in g3:
                for op in meta["folded3"] + ["nosuchop"]:
                    cases.append(("ct", op, a, b, c))
                for op in ee3_ops:
                    cases.append(("ee3", op, a, b, c))
    for _ in range(nrand):
        cases.append(("ee3", rnd.choice(ee3_ops), rand_word(rnd), rand_word(rnd), rnd.choice([0, 1, rand_word(rnd)])))
    for a in GRID:
        for b in GRID:
            for e in ((0, a + b, (a * b) % M, a * b + 1, M - 1, M, rand_word(rnd)) if thorough else (a + b, a * b + 1, M - 1, rand_word(rnd))):
                cases.append(("cs", a, b, e))
    for v in GRID + [M, M + 1, 2 ** 300, -1, -2, -H, -M + 1] + [2 ** (8 * k) for k in range(1, 33)] + [2 ** (8 * k) - 1 for k in range(1, 33)]:
        cases.append(("nb", v))
    for v in GRID + [rand_word(rnd) for _ in range(40)]:
        for sf in (False, True):
            cases.append(("un", "not", v, sf))
        cases.append(("un", "iszero", v, False))
    opnds = [("var", 0), ("var", 1), 0, 1, 2, 5, M - 1] + ([M - 2] if thorough else [])
    opcodes = sorted({c for g in meta["groups"] for c in g["opcodes"]} | set(meta["submitted"]) | {"SAR", "BYTE", "SMOD"})
    for opc in opcodes:
        ar = gen_fold.OPCODE_ARITY.get(opc, 2)
        for sf in (False, True):
            if ar == 1:
                for o in opnds + [rand_word(rnd) for _ in range(6)] + [2 ** (8 * k) for k in (1, 16, 31)]:
                    cases.append(("at", sf, opc, [o]))
            else:
                for o0 in opnds:
                    for o1 in opnds:
                        cases.append(("at", sf, opc, [o0, o1]))
                for _ in range(6):
                    cases.append(("at", sf, opc, [rnd.choice(opnds + [rand_word(rnd)]), rnd.choice(opnds + [rand_word(rnd)])]))
    rk = [c for c in cases if risky(c)]
    # each hang-prone call costs a time-out plus a worker restart: sample them
    keep = set(map(id, rnd.sample(rk, min(len(rk), 160 if thorough else 16))))
    return [c for c in cases if not risky(c) or id(c) in keep], len(rk)


# ---------------------------------------------------------------------------------------
# findings: every refuted obligation is replayed on the real code

def hx(v):
    return "%x" % v


def block_for(ob, w):
    """Minimal block instantiating the refuted obligation's witness (first operand = top of stack)."""
    if ob["kind"] == "fold":
        opcode = FUNCT_OPCODE[ob["op"]]
        vals = [w["a"], w["b"]] + ([w["c"]] if ob["arity"] == 3 else [])
        return " ".join("PUSH %s" % hx(v) for v in reversed(vals)) + " " + opcode, 0
    ops = w["ops"]
    opcode = ob["opcode"]
    if len(ops) == 1:
        return ("PUSH %s %s" % (hx(int(ops[0][1])), opcode), 0) if ops[0][0] == "int" else (opcode, 1)
    (k0, v0), (k1, v1) = ops
    if k0 == "int" and k1 == "int":
        return "PUSH %s PUSH %s %s" % (hx(int(v1)), hx(int(v0)), opcode), 0
    if k0 == "int":
        return "PUSH %s %s" % (hx(int(v0)), opcode), 1
    if k1 == "int":
        return "PUSH %s SWAP1 %s" % (hx(int(v1)), opcode), 1
    return ("DUP1 %s" % opcode, 1) if v0 == v1 else (opcode, 2)


def _pipeline(params, text):
    return gasol.optimize_block_text(text, params)


def run_blocks(texts, opts=("-greedy",), timeout=25):
    res = gasol.pmap(_pipeline, texts, init=gasol.setup_process, initargs=(list(opts),), timeout=timeout)
    out = []
    for t, (st, v) in zip(texts, res):
        if st == "ok":
            b = v[0]
            out.append({"block": t, "status": "ok", "emitted": b["new"], "candidate": b["cand"], "checker_says_equal": b["eq"],
                        "rules": b["rules"]})
        else:
            out.append({"block": t, "status": st, "detail": str(v)[:200]})
    return out


def function_replay(ob, w):
    """The call of the real function that exhibits the refuted obligation, and the EVM value."""
    if ob["kind"] == "fold":
        vals = [w["a"], w["b"]] + ([w["c"]] if ob["arity"] == 3 else [])
        case = (("cb" if ob["arity"] == 2 else "ct"), ob["op"], *vals)
        opcode = FUNCT_OPCODE[ob["op"]]
        ref = (EVM2 if ob["arity"] == 2 else EVM3)[opcode](*vals)
        call = "%s((%s, %r), ...)" % ("compute_binary" if ob["arity"] == 2 else "compute_ternary", ", ".join(map(str, vals)), ob["op"])
        return case, ref, call
    ops = [int(o[1]) if o[0] == "int" else ("var", int(o[1])) for o in w["ops"]]
    case = ("at", bool(w.get("sf")), ob["opcode"], ops)
    rho = [int(x) for x in w["rho"]]
    vals = [o if type(o) is int else rho[o[1]] for o in ops]
    ref = {1: EVM1, 2: EVM2, 3: EVM3}[len(ops)][ob["opcode"]](*vals)
    call = "apply_transform({'disasm': %r, 'inpt_sk': %r}) with s(k) = %s" % (ob["opcode"], [_opnd(o) for o in ops], rho)
    return case, ref, call


def refuted_on_real_code(ob, w, real, ref):
    """Does the real function's outcome exhibit the defect the refutation lemma states?"""
    if ob["kind"] == "fold":
        if ob["aspect"] == "raises":
            return not real.startswith("PyOk ")
        return real.startswith("PyOk ") and int(real[5:], 16) != ref
    m = re.fullmatch(r"Replace \((OInt (-?\d+)|OVar (\d+))\) .*", real)
    if not m:
        return False
    rho = [int(x) for x in w["rho"]]
    val = int(m.group(2)) if m.group(2) is not None else rho[int(m.group(3))]
    return val != ref


def finding_key(ob):
    if ob["kind"] == "fold":
        return {"kind": "fold", "op": ob["op"], "aspect": ob["aspect"]}
    return {"kind": "rule", "branch": ob["branch"]}


def report_findings(run, obs, known, override, tag):
    """Replay every obligation that is refuted (listed and not obsolete) and report it."""
    todo = [ob for ob in obs if ob["id"] in known and override.get(ob["id"]) != "sound"]
    frs = [function_replay(ob, known[ob["id"]]["witness"]) for ob in todo]
    reals = real_outcomes([f[0] for f in frs], timeout=8)
    blocks = [block_for(ob, known[ob["id"]]["witness"]) for ob in todo]
    bres = run_blocks([b[0] for b in blocks])
    for ob, (case, ref, call), real, (btxt, depth), br in zip(todo, frs, reals, blocks, bres):
        w = known[ob["id"]]["witness"]
        confirmed = refuted_on_real_code(ob, w, real, ref)
        diff = None
        if br.get("status") == "ok" and br["emitted"] != btxt:
            diff = first_difference(btxt, br["emitted"], depth)
        rep = {"obligation": ob["id"], "refutation_lemma": ob["alt"], "why": known[ob["id"]].get("why"),
               "function_call": call, "real_outcome": real, "evm_reference_value": hex(ref),
               "confirmed_on_real_function": confirmed, "block": br, "block_differs_on": diff,
               "how": "GASOL_REPO=%s ./check C03 --replay <this file>" % common.REPO}
        if not confirmed:
            run.report({"kind": "model-mismatch", "obligation": ob["id"]},
                       "the generated model refutes %s but the real function does not misbehave on the witness (%s -> %s)" % (ob["id"], call, real),
                       rep, found_input=False)
            continue
        what = "%s: %s gives %s, EVM value %s" % (ob["id"].replace("_sound", "").replace("_total", ""), call, real, hex(ref))
        if diff:
            what += "; block `%s` is rewritten to `%s`, different on stack %s" % (btxt, br["emitted"], diff["stack_top_first"])
        elif br.get("status") != "ok":
            what += "; block `%s`: pipeline %s" % (btxt, br.get("status"))
        run.report(finding_key(ob), what, rep, found_input=True)
        run.cov["distribution"].setdefault("findings_" + tag, []).append(
            {"id": ob["id"], "real": real[:60], "block": btxt, "emitted": br.get("emitted", br.get("status")), "differs": bool(diff)})


def opmap_check(run):
    """ir_block.translateOpcodes0 maps SMOD to the operator '%' of MOD (so SMOD is folded and re-emitted as MOD)."""
    a, b = M - 5, 3                      # sgn(a) = -5: SMOD = -(5 mod 3) = -2, MOD = (2^256-5) mod 3
    blocks = ["PUSH %s PUSH %s SMOD" % (hx(b), hx(a)), "PUSH %s SMOD PUSH %s SMOD" % (hx(b), hx(b))]
    res = run_blocks(blocks)
    for t, br in zip(blocks, res):
        depth = 0 if t.startswith("PUSH 3 PUSH") else 1
        if br.get("status") == "ok" and br["emitted"] != t:
            diff = first_difference(t, br["emitted"], depth)
            if diff:
                run.report({"kind": "opmap", "op": "SMOD"},
                           "SMOD is translated to the internal operator '%%' of MOD: block `%s` becomes `%s` (differs on stack %s)" % (t, br["emitted"], diff["stack_top_first"]),
                           {"block": br, "block_differs_on": diff, "how": "run the block with gasol_asm.py -bl -greedy"}, found_input=True)
                return True
    run.cov["distribution"]["opmap_SMOD"] = [r.get("emitted", r.get("status")) for r in res]
    return False


def spec_level(run):
    """HOOK (coordinator): spec-level comparison rules on / rules off with the spec_of_block validator and
    the ~35 context rules of apply_cond_transformation.  Intentionally does nothing yet."""
    return None


# ---------------------------------------------------------------------------------------

STATE = {}


def _gen(run, override=None):
    files, meta, fobs, robs = gen_fold.generate(override=override)
    STATE.update(meta=meta, fobs=fobs, robs=robs)
    if meta["stale_known_unsound"]:
        run.log("gen/known_unsound.json names obligations that no longer exist (remove them):", meta["stale_known_unsound"])
        run.notes.append("stale known_unsound entries: %s" % meta["stale_known_unsound"])


def search_failing_input(run, ob):
    """A new (unlisted) obligation does not prove: look for operands on which the REAL function
    differs from the EVM reference."""
    rnd = random.Random(run.seed)
    vals = GRID + [rand_word(rnd) for _ in range(40)]
    if ob["kind"] == "fold":
        opcode = FUNCT_OPCODE.get(ob["op"])
        if opcode is None:
            return None
        k = "cb" if ob["arity"] == 2 else "ct"
        cases = [(k, ob["op"], a, b) for a in vals for b in vals] if ob["arity"] == 2 else \
                [(k, ob["op"], a, b, c) for a in vals[:12] for b in vals[:12] for c in vals[:12]]
        cases = [c for c in cases if not risky(c)]
        reals = real_outcomes(cases, timeout=6)
        for c, r in zip(cases, reals):
            ref = (EVM2 if ob["arity"] == 2 else EVM3)[opcode](*c[2:])
            bad = (not r.startswith("PyOk ")) if ob["aspect"] == "raises" else (r.startswith("PyOk ") and int(r[5:], 16) != ref)
            if bad:
                return {"call": list(map(str, c)), "real_outcome": r, "evm_reference_value": hex(ref)}
        return None
    opnds = [("var", 0), ("var", 1)] + vals[:16]
    ar = ob["arity"]
    import itertools
    cases = [("at", sf, ob["opcode"], list(ops)) for sf in (False, True) for ops in itertools.product(opnds, repeat=ar)]
    reals = real_outcomes(cases, timeout=6)
    for c, r in zip(cases, reals):
        m = re.fullmatch(r"Replace \((OInt (-?\d+)|OVar (\d+))\) .*", r)
        if not m:
            continue
        for rho in itertools.product([0, 1, 5, H, M - 1], repeat=2):
            v = [o if type(o) is int else rho[o[1]] for o in c[3]]
            ref = {1: EVM1, 2: EVM2, 3: EVM3}[ar][ob["opcode"]](*v)
            val = int(m.group(2)) if m.group(2) is not None else rho[int(m.group(3))]
            if val != ref:
                return {"call": "apply_transform(%r, %r) size_flag=%s" % (c[2], [_opnd(o) for o in c[3]], c[1]), "returns": r,
                        "variables": {"s(0)": hex(rho[0]), "s(1)": hex(rho[1])}, "evm_reference_value": hex(ref)}
    return None


def proof_with_fallback(run):
    """Proof stage; when the build breaks, classify every obligation on its own."""
    ok = common.proof_stage(run, "Props/C03.v", gen=_gen)
    if ok or run.proof_broken[0] != "build":
        return ok, {}
    meta, obs = STATE["meta"], STATE["fobs"] + STATE["robs"]
    known = meta["known"]
    run.log("build broke at %s: classifying the %d obligations one by one" % (run.proof_broken[1], len(obs)))
    res = classify(obs, known, ["sound", "refuted"])
    override, new_failures, undecided = {}, [], []
    for ob in obs:
        r = res.get(ob["id"], {})
        snd = r.get("sound", (False, ""))[0]
        if ob["id"] in known:
            if r.get("refuted", (False, ""))[0]:
                continue
            if snd:
                override[ob["id"]] = "sound"
                msg = "known_unsound entry obsolete: %s now PROVES on %s; remove it from gen/known_unsound.json and mark the finding fixed in known/C03.json" % (ob["id"], common.REPO)
                print("KNOWN-UNSOUND-ENTRY-OBSOLETE: " + msg, flush=True)
                run.notes.append(msg)
            else:
                undecided.append(ob)
        elif not snd:
            new_failures.append((ob, r.get("sound", (False, ""))[1]))
    run.cov.setdefault("distribution", {})["classification"] = {
        "obsolete_known_unsound": sorted(override), "new_failures": [o["id"] for o, _ in new_failures],
        "undecided": [o["id"] for o in undecided]}
    for ob, tail in new_failures:
        wit = search_failing_input(run, ob)
        run.report({**finding_key(ob), "new": True},
                   "obligation %s (line %s of the source) no longer proves%s" % (ob["id"], ob.get("line", "?"), "" if wit else "; proof script or rule changed"),
                   {"obligation": ob["id"], "statement": ob["sound"], "coq_output": tail, "failing_input": wit,
                    "how": "cd /verif/coq && coqc -Q . GV Gen/%sObligations.v" % ("Fold" if ob["kind"] == "fold" else "LocalRules")},
                   found_input=wit is not None)
    for ob in undecided:
        wit = search_failing_input(run, ob)
        run.report({**finding_key(ob), "witness_stale": True},
                   "listed obligation %s: neither the lemma nor the refutation by the listed witness compiles" % ob["id"],
                   {"obligation": ob["id"], "failing_input": wit}, found_input=wit is not None)
    if new_failures or undecided:
        return False, override
    if override:
        run.cov["obligations"] = 0
        run.cov["discharged"] = 0
        run.proof_broken = None
        ok = common.proof_stage(run, "Props/C03.v", gen=lambda r: _gen(r, override))
        return ok, override
    # build broke elsewhere (hand-written file)
    return False, override


def check(run):
    run.cov["distribution"] = {}
    run.cov["trusted_base"] += [
        "gen/gen_fold.py (Python ast -> Gallina translator, fail closed; cross-checked by the differential run)",
        "coq/Ref/PyInt.v (CPython int semantics incl. correctly rounded int/int -> binary64), coq/Ref/Word.v (EVM words)",
        "hints: utils.number_encoding_size and utils.all_integers are modelled by hand (AST fingerprint checked)",
        "compute_binary/compute_ternary are not translated: shape assertions (argument order, str(val), guards) + differential run",
    ]
    ok, override = proof_with_fallback(run)
    if not ok:
        pb = run.proof_broken
        if pb and pb[0] == "generation":
            run.report({"kind": "generation"}, "translator failed closed: " + str(pb[1])[:300],
                       {"error": pb[1], "how": "PYTHONPATH=/verif GASOL_REPO=%s /venv/bin/python -m gen.gen_fold" % common.REPO}, found_input=False)
            return
        if not run.violations:
            run.report({"kind": "proof-broken", "where": str(pb[1]) if pb else "?"}, "proof stage failed: %s" % (pb,),
                       {"proof_broken": pb}, found_input=False)
    meta = STATE["meta"]
    known = meta["known"]
    # ---- differential check: real functions vs generated definitions under vm_compute
    okb, out = common.coq_make(["Gen/Fold.vo", "Gen/LocalRules.vo", "Gen/CheckSize.vo"])
    if not okb:
        run.report({"kind": "gen-build"}, "generated models do not compile", {"out": out[-1500:]}, found_input=False)
        return
    rnd = random.Random(run.seed)
    cases, nrisky = gen_cases(meta, rnd, run.tier)
    corpus = load_corpus()
    cases = corpus + cases
    run.log("differential: %d cases (%d from corpus; %d hang-prone calls in the grid, %d kept)" % (
        len(cases), len(corpus), nrisky, sum(1 for c in cases if risky(c))))
    reals = real_outcomes(cases, timeout=6)
    differ, huge, errors = model_compare(cases, reals)
    retry = [i for i in differ if reals[i] in ("timeout", "crash", "memory")]
    if retry:      # a loaded machine can time out a call the model computes: ask again with a long timeout
        again = real_outcomes([cases[i] for i in retry], timeout=60)
        for i, r in zip(retry, again):
            reals[i] = r
        d2, h2, e2 = model_compare([cases[i] for i in retry], again)
        differ = sorted((set(differ) - set(retry)) | {retry[j] for j in d2})
        errors += e2
    for name, e in errors:
        run.report({"kind": "cases-file", "file": name}, "cases file failed: " + e[-200:], {"output": e}, found_input=False)
    dist, fired = {}, {}
    for c, r in zip(cases, reals):
        cls = r.split(" ")[0] if not r.startswith("(") else r.split(",")[0][1:]
        dist["%s:%s" % (c[0], cls)] = dist.get("%s:%s" % (c[0], cls), 0) + 1
        if c[0] == "at" and r.startswith("Replace"):
            nm = "%s:%s" % (c[2], json.loads(r.split(" ", 6)[6]))
            fired[nm] = fired.get(nm, 0) + 1
    huge_real = {}
    for i in huge:
        huge_real[reals[i].split(" ")[0]] = huge_real.get(reals[i].split(" ")[0], 0) + 1
    run.cov["evaluations"] = len(cases)
    nontriv = {(c[0],) + tuple(map(str, c[1:])) for c, r in zip(cases, reals)
               if r not in ("NoRule", "PyNone", "RuleNone") and not r.startswith("(false")}
    run.cov["distinct_nontrivial"] = len(nontriv)
    run.cov["rule"] = ("calls of the real evaluate_expression[_ter] / compute_binary / compute_ternary / check_size / get_num_bytes_int / "
                       "update_unary_func / apply_transform on the boundary grid {0,1,2,3,31,32,255,256,2^64,2^128,2^160-1,2^255-1,2^255,2^255+1,2^256-2,2^256-1}^2 "
                       "x all operators, all operand shapes (var/var same, var/var different, const/var, var/const, const/const with 0,1,2,5,2^256-1,2^256-2) x "
                       "size_flag, plus PRNG words; compared with the generated definitions evaluated by vm_compute. "
                       "non-trivial = a fold or rule actually produced a value; distinct by (function, arguments)")
    run.cov["distribution"].update({"by_function_and_outcome": dist, "rule_branches_fired": fired,
                                    "branches_fired": len(fired), "branches_total": len(STATE["robs"]),
                                    "model_declined_PyHuge": len(huge), "real_outcome_when_model_declined": huge_real,
                                    "model_vs_real_disagreements": len(differ)})
    for i in differ[:20]:
        run.report({"kind": "model-vs-code", "function": cases[i][0], "op": str(cases[i][1 if cases[i][0] != "at" else 2])},
                   "generated model and real function disagree on %s: real %s" % (str(cases[i])[:160], reals[i][:120]),
                   {"case": [str(x) for x in cases[i]], "real": reals[i], "model_term": model_expr(cases[i]),
                    "how": "evaluate the term with vm_compute after From GV Require Import Ref.PyInt Gen.Fold Gen.LocalRules Gen.CheckSize"},
                   found_input=True)
    for c, r in list(zip(cases, reals))[len(corpus):len(corpus) + 4]:
        run.add_sample({"case": [str(x)[:80] for x in c], "real": r[:100]})
    for c, r in zip(cases, reals):
        if c[0] == "at" and r.startswith("Replace"):
            run.add_sample({"case": [str(x)[:80] for x in c], "real": r[:100]})
    run.log("differential: %d disagreements, model declined (PyHuge) on %d, %d rule branches (opcode:rule) fired" % (len(differ), len(huge), len(fired)))
    # ---- findings: replay of every refuted obligation on the real code
    report_findings(run, STATE["fobs"] + STATE["robs"], known, override, "refuted")
    opmap_check(run)
    spec_level(run)
    shutil.rmtree(OBDIR, ignore_errors=True)
    shutil.rmtree(CASEDIR, ignore_errors=True)


def load_corpus():
    """corpus/C03/*.json: {"cases": [["cb", "+", 1, 2], ["at", false, "SHL", [0, ["var", 0]]], ...]}"""
    d = os.path.join(common.VERIF, "corpus", "C03")
    res = []
    if os.path.isdir(d):
        for f in sorted(os.listdir(d)):
            if f.endswith(".json"):
                with open(os.path.join(d, f)) as fh:
                    for c in json.load(fh)["cases"]:
                        if c[0] == "at":
                            res.append(("at", bool(c[1]), c[2], [tuple(o) if isinstance(o, list) else o for o in c[3]]))
                        else:
                            res.append(tuple(c))
    return res


def replay(run, path):
    with open(path) as fh:
        d = json.load(fh)
    rep = d.get("replay", d)
    print(json.dumps(d.get("key"), sort_keys=True))
    rc = 0
    blk = rep.get("block", {})
    if isinstance(blk, dict) and blk.get("block"):
        now = run_blocks([blk["block"]])[0]
        print("block   :", blk["block"])
        print("emitted :", now.get("emitted", now.get("status")))
        depth = 2
        diff = first_difference(blk["block"], now["emitted"], depth) if now.get("status") == "ok" and now["emitted"] != blk["block"] else None
        if diff:
            print("DIFFERS on stack (top first)", diff["stack_top_first"], ": original", diff["original_result"], "emitted", diff["emitted_result"])
            rc = 1
        elif now.get("status") != "ok":
            print("pipeline:", now.get("status"), now.get("detail", ""))
            rc = 1
    if rep.get("obligation") and "function_call" in rep:
        _gen(run)
        obs = {o["id"]: o for o in STATE["fobs"] + STATE["robs"]}
        known = STATE["meta"]["known"]
        ob = obs.get(rep["obligation"])
        if ob is not None and ob["id"] in known:
            case, ref, call = function_replay(ob, known[ob["id"]]["witness"])
            real = real_outcomes([case], timeout=8)[0]
            print("call    :", call)
            print("real    :", real)
            print("EVM     :", hex(ref))
            if refuted_on_real_code(ob, known[ob["id"]]["witness"], real, ref):
                rc = 1
    if rep.get("case"):
        print("case:", rep["case"], "recorded real outcome:", rep.get("real"))
    print("REPRODUCED" if rc else "not reproduced")
    return rc
