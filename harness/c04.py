"""C04: the greedy back end returns a sequence that realizes the specification.

Proof part: Props/C04.v (soundness of the validator `realizes`, Val/RealizesProofs.v).
Tie: greedy_from_json(S) is run on specifications S from the front end (generated blocks x
option sets, all sub-blocks of shipped contracts) and on hand-built specifications; whenever it
reports error == 0 the returned ids are checked by the Coq kernel (`check S ids`, vm_compute).
A rejected (S, ids) is the failing input; it is shrunk and written as a replay.

Also provides the generators / Python mirror used by harness/c16.py.
"""
import copy
import json
import os
import random
import re
import time

from harness import common, gasol
from harness import sfs2coq

PID = "C04"
CONTRACT_DIR = os.path.join(common.REPO, "examples", "jsons-solc")
CONTRACT_QUICK = ["0x363c421901B7BDCa0f2a17dA03948D676bE350E4.json_solc"]
CONTRACTS_THOROUGH = CONTRACT_QUICK + [
    "0x140A44558A0f54a40608737c3C51559a7CE5C854.json_solc",      # 450 blocks
    "0x1f2cF791d940Bbb9fbe777271afa6ff9bBA8AbA0.json_solc",
]
OPTION_SETS = [(), ("-storage",), ("-partition",),
               ("-no-simplification",), ("-storage", "-no-simplification"), ("-partition", "-no-simplification")]
EXTRA_OPTION_SETS = [("-push-basic",), ("-push-basic", "-no-simplification")]   # thorough tier


# ---------------------------------------------------------------------------------------------
# Python mirror of Val/Realizes.v.  Used ONLY to shrink failing inputs and to search witnesses
# quickly; every verdict that counts is computed by Coq.

def _isint(x):
    return isinstance(x, int) and not isinstance(x, bool)


def sym_check(sfs, ids, len_bound=None, sk_bound=None):
    """None when ids realizes sfs (within the bounds); else (position, kind, args)."""
    instr = {}
    for ins in sfs["user_instrs"]:
        instr.setdefault(ins["id"], ins)
    stk = list(sfs["src_ws"])
    peak = len(stk)
    for pos, i in enumerate(ids):
        if i in instr:
            u = instr[i]
            n = len(u["inpt_sk"])
            if len(stk) < n:
                return (pos, "EUnderflow", [])
            args = stk[:n]
            ok = args == list(u["inpt_sk"]) or (u.get("commutative") and n == 2 and args == list(u["inpt_sk"])[::-1])
            if not ok:
                return (pos, "EOperands", [i])
            stk = list(u["outpt_sk"]) + stk[n:]
        elif i == "POP":
            if not stk:
                return (pos, "EUnderflow", [])
            stk = stk[1:]
        elif i == "NOP":
            pass
        elif re.fullmatch(r"DUP\d+", i):
            k = int(i[3:])
            if not 1 <= k <= 16:
                return (pos, "EDepth", [k])
            if len(stk) < k:
                return (pos, "EUnderflow", [])
            stk = [stk[k - 1]] + stk
        elif re.fullmatch(r"SWAP\d+", i):
            k = int(i[4:])
            if not 1 <= k <= 16:
                return (pos, "EDepth", [k])
            if len(stk) < k + 1:
                return (pos, "EUnderflow", [])
            stk = [stk[k]] + stk[1:k] + [stk[0]] + stk[k + 1:]
        else:
            m = sfs2coq.PUSHLIT.match(i)
            if m:
                stk = [int(m.group(3), 16)] + stk
            elif i == "PUSH0":
                stk = [0] + stk
            else:
                return (pos, "EUnknownId", [i])
        peak = max(peak, len(stk))
    if stk != list(sfs["tgt_ws"]):
        return (len(ids), "EFinalStack", [])
    for ins in sfs["user_instrs"]:
        if ins.get("storage") and ids.count(ins["id"]) != 1:
            return (len(ids), "EStoreCount", [ins["id"], ids.count(ins["id"])])
    deps = sfs.get("dependencies")
    if deps is None:
        deps = list(sfs.get("storage_dependences", [])) + list(sfs.get("memory_dependences", []))
    for a, b in deps:
        if b in ids:
            j = ids.index(b)
            if a in ids[j:]:
                return (len(ids), "EOrder", [a, b])
    if len_bound is not None and len([i for i in ids if i != "NOP"]) > len_bound:
        return (len(ids), "ELength", [len([i for i in ids if i != "NOP"])])
    if sk_bound is not None and peak > sk_bound:
        return (len(ids), "EPeak", [peak])
    return None


# ---------------------------------------------------------------------------------------------
# block generator (stack-height aware)

BOUNDARY = [0, 1, 2, 3, 0x1f, 0x20, 0x21, 0x3f, 0x40, 0x60, 0x80, 0xff, 0x100, 0xffff,
            2 ** 160 - 1, 2 ** 255 - 1, 2 ** 255, 2 ** 256 - 2, 2 ** 256 - 1]
ADDRS = [0, 0x20, 0x40, 0x1f, 0x21, 0x3f, 0x60, 0x80, 1]
BIN = ["ADD", "MUL", "SUB", "DIV", "SDIV", "MOD", "SMOD", "EXP", "SIGNEXTEND", "LT", "GT", "SLT", "SGT",
       "EQ", "AND", "OR", "XOR", "BYTE", "SHL", "SHR", "SAR"]
UN = ["ISZERO", "NOT"]
TER = ["ADDMOD", "MULMOD"]
ENV0 = ["CALLER", "ADDRESS", "ORIGIN", "CALLVALUE", "CALLDATASIZE", "GASPRICE", "COINBASE", "TIMESTAMP",
        "NUMBER", "CHAINID", "SELFBALANCE", "BASEFEE", "CODESIZE", "RETURNDATASIZE", "GASLIMIT"]
ENV1 = ["CALLDATALOAD", "BALANCE", "EXTCODESIZE", "BLOCKHASH", "EXTCODEHASH"]


def _push(v):
    return "PUSH0" if v == 0 else "PUSH %x" % v


def gen_block(rng, max_len=40, max_need=18):
    """Returns a list of plain instructions.  `need` (source-stack elements touched) is kept
    <= max_need, so DUP16/SWAP16 on a deep stack and heights above 16 are produced."""
    n = rng.choice([1, 2, 2, 3, 3, 4, 5, 6, 8, 10, 12, 15, 20, 25, 30, 40])
    n = min(n, max_len)
    style = rng.choice(["mixed", "mixed", "arith", "mem", "stack", "deep"])
    out, cur, need = [], 0, 0     # cur: height relative to the start; need: source elements used
    if style == "deep":           # start by touching deep source elements
        k = rng.choice([14, 15, 16, 16])
        out.append(rng.choice(["DUP%d" % k, "SWAP%d" % k]))
        need = k + (1 if out[0].startswith("SWAP") else 0)
        cur = 1 if out[0].startswith("DUP") else 0

    def depth_ok(d):              # d elements of the current stack are accessed
        return max(need, d - cur) <= max_need

    def emit(op, pops, pushes):
        nonlocal cur, need
        need = max(need, pops - cur)
        cur += pushes - pops
        out.append(op)

    def address():
        r = rng.random()
        if r < 0.55:
            emit(_push(rng.choice(ADDRS)), 0, 1)
        elif r < 0.8:
            k = rng.randint(1, 4)
            if depth_ok(k):
                emit("DUP%d" % k, k, k + 1)
                if rng.random() < 0.4:
                    emit(_push(rng.choice([1, 0x20, 0x1f])), 0, 1)
                    emit("ADD", 2, 1)
            else:
                emit(_push(rng.choice(ADDRS)), 0, 1)
        # else: use whatever is on top

    while len(out) < n:
        w = {"mixed": [3, 3, 4, 1, 2, 3], "arith": [3, 2, 7, 1, 1, 0.5], "mem": [2, 2, 2, 0.5, 1, 7],
             "stack": [3, 7, 2, 1, 1, 1], "deep": [3, 6, 2, 0.5, 1, 2]}[style]
        kind = rng.choices(["push", "stack", "bin", "unter", "env", "mem"], weights=w)[0]
        if kind == "push":
            v = rng.choice(BOUNDARY) if rng.random() < 0.6 else rng.randint(0, 300)
            emit(_push(v), 0, 1)
        elif kind == "stack":
            r = rng.random()
            kmax = 16 if rng.random() < 0.3 else 5
            k = rng.randint(1, kmax)
            if r < 0.4 and depth_ok(k):
                emit("DUP%d" % k, k, k + 1)
            elif r < 0.8 and depth_ok(k + 1):
                emit("SWAP%d" % k, k + 1, k + 1)
            elif depth_ok(1):
                emit("POP", 1, 0)
        elif kind == "bin":
            if depth_ok(2):
                op = rng.choice(BIN)
                if op in ("EXP", "SHL", "SHR", "SAR") and rng.random() < 0.9:
                    emit(_push(rng.choice([0, 1, 2, 8, 255, 256])), 0, 1)   # small shift/exponent first operand
                    if op == "EXP" and rng.random() < 0.5:
                        emit("SWAP1", 2, 2)
                emit(op, 2, 1)
        elif kind == "unter":
            if rng.random() < 0.75:
                if depth_ok(1):
                    emit(rng.choice(UN), 1, 1)
            elif depth_ok(3):
                emit(rng.choice(TER), 3, 1)
        elif kind == "env":
            if rng.random() < 0.7:
                emit(rng.choice(ENV0), 0, 1)
            elif depth_ok(1):
                emit(rng.choice(ENV1), 1, 1)
        else:
            op = rng.choices(["MLOAD", "MSTORE", "MSTORE8", "SLOAD", "SSTORE", "KECCAK256"], weights=[3, 3, 1, 2, 2, 1])[0]
            address()
            pops, pushes = {"MLOAD": (1, 1), "SLOAD": (1, 1), "MSTORE": (2, 0), "MSTORE8": (2, 0),
                            "SSTORE": (2, 0), "KECCAK256": (2, 1)}[op]
            if depth_ok(pops):
                emit(op, pops, pushes)
    return out[:max(n, 1) + 3]


# ---------------------------------------------------------------------------------------------
# hand-built specification generator (well-formed within the JSON format)

HB_OPS = [("ADD", 2, True), ("MUL", 2, True), ("AND", 2, True), ("OR", 2, True), ("XOR", 2, True), ("EQ", 2, True),
          ("SUB", 2, False), ("DIV", 2, False), ("LT", 2, False), ("GT", 2, False), ("SHL", 2, False), ("EXP", 2, False),
          ("ISZERO", 1, False), ("NOT", 1, False), ("CALLDATALOAD", 1, False), ("BALANCE", 1, False),
          ("ADDMOD", 3, False), ("MULMOD", 3, False),
          ("CALLER", 0, False), ("ADDRESS", 0, False), ("CALLVALUE", 0, False), ("TIMESTAMP", 0, False)]
GAS = {"SLOAD": 700, "SSTORE": 5000, "KECCAK256": 30, "BALANCE": 700, "EXP": 60, "ADDMOD": 8, "MULMOD": 8,
       "MUL": 5, "DIV": 5, "CALLER": 2, "ADDRESS": 2, "CALLVALUE": 2, "TIMESTAMP": 2}


def gen_spec(rng, allow_const=False):
    """Random term DAG (<= 12 value nodes), 0-4 stores, loads, acyclic dependency pairs among
    memory/storage instructions that are consistent with the data flow, 0-18 source variables,
    repeated targets.  Follows the front end's naming (ids OP_k, variables s(k))."""
    nsrc = rng.choice([0, 0, 1, 1, 2, 2, 3, 3, 4, 5, 6, 8, 10, 12, 14, 16, 17, 18])
    src = ["s(%d)" % i for i in range(nsrc)]
    nxt = nsrc
    counter = {}
    instrs, values = [], list(src)          # values usable as operands, in creation order
    order = []                              # all instructions in a data-flow-consistent order

    def fresh():
        nonlocal nxt
        v = "s(%d)" % nxt
        nxt += 1
        return v

    def mk(op, inputs, out, comm=False, storage=False, push=False, value=None):
        k = counter.get(op, 0)
        counter[op] = k + 1
        d = {"id": "%s_%d" % (op, k), "opcode": "00", "disasm": op, "inpt_sk": list(inputs),
             "outpt_sk": [out] if out else [], "push": push, "gas": GAS.get(op, 3), "commutative": comm,
             "storage": storage, "size": 1}
        if value is not None:
            d["value"] = [value]
            d["size"] = 1 + max(1, (value.bit_length() + 7) // 8)
        instrs.append(d)
        order.append(d)
        return d

    def pick():
        if allow_const and rng.random() < 0.15:
            return rng.choice([0, 1, 32, 2 ** 256 - 1])
        if not values or rng.random() < 0.12:
            v = fresh()
            val = rng.choice(BOUNDARY) if rng.random() < 0.5 else rng.randint(0, 200)
            for i in instrs:                # one PUSH per constant, as the front end does
                if i["push"] and i.get("value") == [val]:
                    return i["outpt_sk"][0]
            mk("PUSH", [], v, push=True, value=val)
            values.append(v)
            return v
        if rng.random() < 0.5:
            return values[-1 - min(len(values) - 1, int(rng.expovariate(0.7)))]
        return rng.choice(values)

    nnodes = rng.randint(0, 12)
    nstores = rng.choice([0, 0, 1, 1, 2, 3, 4])
    plan = ["node"] * nnodes + ["store"] * nstores
    rng.shuffle(plan)
    for what in plan:
        if what == "store":
            op = rng.choice(["MSTORE", "MSTORE", "SSTORE", "MSTORE8"])
            mk(op, [pick(), pick()], None, storage=True)
        else:
            r = rng.random()
            if r < 0.25:
                op = rng.choice(["MLOAD", "SLOAD", "MLOAD", "KECCAK256"])
                ins = [pick()] if op != "KECCAK256" else [pick(), pick()]
                v = fresh()
                mk(op, ins, v)
            else:
                op, ar, comm = rng.choice(HB_OPS)
                v = fresh()
                mk(op, [pick() for _ in range(ar)], v, comm=comm)
            values.append(v)
    # targets: repeated values allowed; every value node must be used somewhere
    tgt = []
    for _ in range(rng.choice([0, 1, 1, 2, 2, 3, 4, 6, 8])):
        if values:
            tgt.append(rng.choice(values) if rng.random() < 0.7 else values[-1])
    if allow_const and rng.random() < 0.3:
        tgt.insert(rng.randint(0, len(tgt)), rng.choice([0, 7]))
    if nsrc and rng.random() < 0.3:        # keep a suffix of the source stack in place
        keep = rng.randint(1, nsrc)
        tgt = tgt + src[nsrc - keep:]
    used = set(tgt)
    for i in instrs:
        used.update(x for x in i["inpt_sk"] if isinstance(x, str))
    for i in instrs:
        if i["outpt_sk"] and i["outpt_sk"][0] not in used:
            tgt.insert(rng.randint(0, len(tgt)), i["outpt_sk"][0])
    # dependency pairs, forward in `order` only (so the union with the data flow is acyclic)
    mem = [i["id"] for i in order if i["disasm"] in ("MSTORE", "MSTORE8", "MLOAD", "KECCAK256")]
    sto = [i["id"] for i in order if i["disasm"] in ("SSTORE", "SLOAD")]

    def deps_of(lst):
        out = []
        for a in range(len(lst)):
            for b in range(a + 1, len(lst)):
                if "STORE" not in lst[a] and "STORE" not in lst[b]:
                    continue                 # two loads never conflict
                if rng.random() < 0.45:
                    out.append([lst[a], lst[b]])
        return out
    md, sd = deps_of(mem), deps_of(sto)
    rng.shuffle(instrs)                      # JSON order of user_instrs is not topological
    ninstr = len(instrs)
    sfs = {"init_progr_len": 3 * ninstr + 2 * len(tgt) + nsrc + 5, "max_progr_len": 3 * ninstr + 2 * len(tgt) + nsrc + 5,
           "max_sk_sz": nsrc + ninstr + len(tgt) + 2,
           "vars": ["s(%d)" % i for i in range(nxt)], "src_ws": src, "tgt_ws": tgt, "user_instrs": instrs,
           "current_cost": sum(i["gas"] for i in instrs), "storage_dependences": sd, "memory_dependences": md,
           "dependencies": sd + md, "is_revert": False, "rules_applied": False, "rules": [],
           "original_instrs": ""}
    return sfs


# ---------------------------------------------------------------------------------------------
# workers (run inside gasol.pmap)

def _init_frontend(opts, contract_file=None):
    p = gasol.setup_process(list(opts) + ["-greedy"])
    st = {"p": p, "blocks": None}
    if contract_file:
        st["blocks"] = contract_blocks(contract_file)
    return st


def contract_blocks(path):
    """All blocks of a solc asm json, in the order gasol_asm.optimize_asm_contract visits them."""
    from sfs_generator.parser_asm import parse_asm
    asm = parse_asm(path)
    out = []
    for c in asm.contracts:
        if not c.has_asm_field:
            continue
        for b in c.init_code:
            out.append(b)
        for ident in c.get_data_ids_with_code():
            for b in c.get_run_code(ident):
                out.append(b)
    return out


def _run_greedy(sfs):
    from greedy.block_generation import greedy_from_json
    work = copy.deepcopy(sfs)               # the greedy mutates its argument
    r = greedy_from_json(work)
    return {"ids": r[3], "res": r[2], "err": r[4]}


def _frontend(st, item):
    """item: ("text", "PUSH 1 ...") or ("block", index into the parsed contract)."""
    import gasol_asm
    kind, payload = item
    block = gasol.parse_block(payload) if kind == "text" else st["blocks"][payload]
    if block.instructions_to_optimize_plain() == []:
        return {"subs": [], "sub_block_list": [], "plain": block.to_plain()}
    sfs_dict, subl = gasol_asm.compute_original_sfs_with_simplifications(block, st["p"])
    subs = []
    for name, s in sfs_dict["syrup_contract"].items():
        s0 = json.loads(json.dumps(s))      # what would be written to disk
        g = _run_greedy(s0)
        subs.append({"name": name, "sfs": s0, "greedy": g})
    return {"subs": subs, "sub_block_list": subl, "plain": block.to_plain(),
            "to_optimize": block.instructions_to_optimize_plain()}


def _init_hand():
    gasol.setup_process(["-greedy"])
    return {}


def _hand(st, sfs):
    from smt_encoding.json_with_dependencies import extended_json_with_minlength
    try:
        s1 = extended_json_with_minlength(copy.deepcopy(sfs))   # the front end's last step
    except Exception as e:  # noqa
        s1 = copy.deepcopy(sfs)
        s1["minlength_error"] = "%s: %s" % (type(e).__name__, str(e)[:100])
    s1 = json.loads(json.dumps(s1))
    return {"sfs": s1, "greedy": _run_greedy(s1)}


# ---------------------------------------------------------------------------------------------
# Coq evaluation of cases

def coq_check_cases(prefix, cases, bounded=False, extra=None, timeout=900):
    """cases: list of dicts with 'sfs', 'ids' (and 'len', 'sk' when bounded).
    Returns list of dicts {'verdict': None|(pos,kind,args), 'wf': bool, 'tables': Tables, ...} or
    {'format_error': msg}.  `extra(spec_name, ids_name)` may return additional Coq expressions
    (list of (label, text)) evaluated per case; their raw printed values are returned under the label."""
    res = [None] * len(cases)
    files = []
    per = 150
    for f0 in range(0, len(cases), per):
        body = [sfs2coq.HEADER]
        if extra is not None and getattr(extra, "header", None):
            body.append(extra.header)
        idx = []
        for k in range(f0, min(f0 + per, len(cases))):
            c = cases[k]
            try:
                st, t = sfs2coq.spec_term(c["sfs"])
                it = sfs2coq.ids_term(c["ids"], t)
            except (sfs2coq.SfsFormatError, KeyError, TypeError, ValueError) as e:
                res[k] = {"format_error": "%s: %s" % (type(e).__name__, e)}
                continue
            res[k] = {"tables": t}
            body.append("Definition S%d : spec := %s." % (k, st))
            body.append("Definition q%d : list step := %s." % (k, it))
            if bounded:
                body.append("Eval vm_compute in (%d%%nat, check_bounded S%d q%d %d %d, wf_spec S%d, peak_of S%d q%d)." %
                            (k, k, k, max(0, int(c["len"])), max(0, int(c["sk"])), k, k, k))
            else:
                body.append("Eval vm_compute in (%d%%nat, check S%d q%d, wf_spec S%d, peak_of S%d q%d)." % (k, k, k, k, k, k))
            if extra is not None:
                for lab, txt in extra("S%d" % k, "q%d" % k, c):
                    body.append("Eval vm_compute in (%d%%nat, %s, (%s))." % (k, coq_label(lab), txt))
            idx.append(k)
        if idx:
            files.append(("%s_%d" % (prefix, f0 // per), "\n".join(body) + "\n"))
    out = run_case_files(files, timeout=timeout) if files else {}
    broken = []
    for name, (ok, txt) in sorted(out.items()):
        if not ok:
            broken.append((name, txt[-1500:]))
            continue
        for val in parse_evals(txt):
            m = re.match(r"\((\d+), (.*)\)$", val, re.S)
            if not m:
                continue
            k = int(m.group(1))
            rest = m.group(2)
            ml = re.match(r'"([a-z_0-9]+)", (.*)$', rest, re.S)
            if ml:
                res[k].setdefault("extra", {})[ml.group(1)] = ml.group(2).strip()
                continue
            mv = re.match(r"(None|Some \(\d+, E\w+(?: \d+)*\)), (true|false), (\d+)$", rest.strip())
            if not mv:
                res[k]["unparsed"] = rest
                continue
            res[k]["verdict"] = sfs2coq.parse_verdict(mv.group(1))
            res[k]["wf"] = mv.group(2) == "true"
            res[k]["peak"] = int(mv.group(3))
            res[k]["evaluated"] = True
    return res, broken


CASES_DIR = "CasesC04"     # private: other checks wipe coq/Cases while they run


def run_case_files(named_bodies, timeout=900):
    """Like common.run_cases_parallel, but in a directory of our own (coq/CasesC04/<pid>_<n>) that
    is removed afterwards.  Returns {name: (ok, output)}."""
    import concurrent.futures as cf
    import shutil
    import uuid
    sub = os.path.join(CASES_DIR, "r" + uuid.uuid4().hex[:8])
    d = os.path.join(common.COQ, sub)
    os.makedirs(d, exist_ok=True)
    for n, b in named_bodies:
        with open(os.path.join(d, n + ".v"), "w") as fh:
            fh.write(b)

    def one(n):
        rc, out = common.sh("ulimit -s unlimited 2>/dev/null; timeout %d coqc -Q . GV %s/%s.v" % (timeout, sub, n),
                            cwd=common.COQ, timeout=timeout + 30)
        return n, (rc == 0, out)
    res = {}
    try:
        with cf.ThreadPoolExecutor(max_workers=common.NCPU) as ex:
            for n, r in ex.map(one, [n for n, _ in named_bodies]):
                res[n] = r
    finally:
        shutil.rmtree(d, ignore_errors=True)
        try:
            os.rmdir(os.path.join(common.COQ, CASES_DIR))
        except OSError:
            pass
    return res


def parse_evals(out):
    """Values printed by a sequence of `Eval vm_compute in ...` commands (whitespace collapsed)."""
    vals, cur = [], None
    for line in out.splitlines():
        if re.match(r"^\s+= ", line):
            if cur is not None:
                vals.append(cur)
            cur = [line.split("=", 1)[1]]
        elif re.match(r"^\s+: ", line):
            if cur is not None:
                vals.append(cur)
            cur = None
        elif cur is not None:
            cur.append(line)
    if cur is not None:
        vals.append(cur)
    return [re.sub(r"\s+", " ", " ".join(v)).strip() for v in vals]


def coq_label(lab):
    return '"%s"' % lab


# ---------------------------------------------------------------------------------------------
# shrinking a rejected (S, ids): the failure must persist for the greedy's *own* answer on the
# smaller specification

def _prune(sfs):
    """Drop instructions that are no longer reachable and dependency pairs over dropped ids."""
    s = copy.deepcopy(sfs)
    live = set(x for x in s["tgt_ws"] if isinstance(x, str))
    keep = []
    changed = True
    instrs = s["user_instrs"]
    while changed:
        changed = False
        for i in instrs:
            if i in keep:
                continue
            if i.get("storage") or (i["outpt_sk"] and i["outpt_sk"][0] in live):
                keep.append(i)
                live.update(x for x in i["inpt_sk"] if isinstance(x, str))
                changed = True
    s["user_instrs"] = [i for i in instrs if i in keep]
    ids = set(i["id"] for i in s["user_instrs"])
    for f in ("dependencies", "memory_dependences", "storage_dependences"):
        if f in s:
            s[f] = [p for p in s[f] if p[0] in ids and p[1] in ids]
    return s


def shrink_candidates(sfs):
    """Smaller specifications: drop a target, drop a store, drop a dependency pair, drop the
    deepest unused source variable."""
    out = []
    for k in range(len(sfs["tgt_ws"])):
        s = copy.deepcopy(sfs)
        del s["tgt_ws"][k]
        out.append(_prune(s))
    for i in sfs["user_instrs"]:
        if i.get("storage"):
            s = copy.deepcopy(sfs)
            s["user_instrs"] = [j for j in s["user_instrs"] if j["id"] != i["id"]]
            out.append(_prune(s))
    for f in ("memory_dependences", "storage_dependences"):
        for k in range(len(sfs.get(f, []))):
            s = copy.deepcopy(sfs)
            p = s[f][k]
            del s[f][k]
            s["dependencies"] = [d for d in s.get("dependencies", []) if d != p]
            out.append(s)
    if sfs["src_ws"]:
        last = sfs["src_ws"][-1]
        used = last in sfs["tgt_ws"][:-1] or any(last in i["inpt_sk"] for i in sfs["user_instrs"])
        if not used:
            s = copy.deepcopy(sfs)
            s["src_ws"] = s["src_ws"][:-1]
            if s["tgt_ws"] and s["tgt_ws"][-1] == last:
                s["tgt_ws"] = s["tgt_ws"][:-1]
            out.append(s)
    return out


def _greedy_on_specs(specs, timeout=20):
    r = gasol.pmap(lambda st, s: _run_greedy(s), specs, init=_init_hand, timeout=timeout,
                   procs=max(1, min(8, len(specs))))
    return r


def shrink(sfs, ids, verdict, rounds=15):
    """Greedy-driven shrinking; the Python mirror decides during the loop (the final input is
    re-checked by Coq by the caller)."""
    cur, cur_ids, cur_v = sfs, ids, verdict
    for _ in range(rounds):
        cands = shrink_candidates(cur)
        if not cands:
            break
        rs = _greedy_on_specs(cands)
        nxt = None
        for c, r in zip(cands, rs):
            if r[0] != "ok" or r[1]["err"] != 0 or r[1]["ids"] is None:
                continue
            v = sym_check(c, r[1]["ids"])
            if v is not None and v[1] == cur_v[1]:
                nxt = (c, r[1]["ids"], v)
                break
        if nxt is None:
            break
        cur, cur_ids, cur_v = nxt
    return cur, cur_ids, cur_v


# ---------------------------------------------------------------------------------------------
# collecting specifications (shared with C16)

def spec_key(sfs):
    return json.dumps(sfs, sort_keys=True)


def structured_blocks(rng, cap):
    """Small structured blocks (a sample of `cap`, always containing the first of each family):
    * a constant expression whose folded value is used once, twice, or as both operands (every binary operation);
    * `U SWAP1 C` shapes: a computed operand and a free stack element under a commutative / non-commutative operation;
    * every block of length <= 2 and a sample of length 3 over a small vocabulary."""
    from harness import blockgen
    fam = []
    for op in blockgen.OP2:
        for a, b in (("1", "5"), ("3", "9"), ("2", "3")):
            base = "PUSH %s PUSH %s %s" % (a, b, op)
            fam += [base, base + " DUP1", base + " DUP1 MUL", base + " DUP1 DUP3 ADD SWAP2 MUL", base + " DUP1 SWAP2 SUB",
                    base + " " + base + " ADD"]
    for u in ("NOT", "ISZERO", "PUSH 1 ADD", "DUP1 MUL"):
        for c in ("ADD", "MUL", "AND", "OR", "XOR", "EQ", "SUB", "LT", "DIV"):
            fam += ["%s SWAP1 %s" % (u, c), "%s %s" % (u, c), "ADD %s SWAP1 %s" % (u, c), "%s SWAP1 %s %s DUP1" % (u, c, u),
                    "LT SWAP1 ADD %s PUSH ff" % u, "%s SWAP1 %s SWAP1 %s" % (u, c, c)]
    voc = ["NOT", "ISZERO", "ADD", "SUB", "AND", "SWAP1", "SWAP2", "DUP1", "DUP2", "PUSH 1", "POP", "MLOAD", "MSTORE"]
    small = [a for a in voc] + ["%s %s" % (a, b) for a in voc for b in voc]
    tri = ["%s %s %s" % (a, b, c) for a in voc for b in voc for c in voc]
    rng.shuffle(tri)
    head = fam[::6] + small[:40]
    rest = [x for x in fam + small + tri[:600] if x not in set(head)]
    rng.shuffle(rest)
    return (head + rest)[:cap]


def collect_frontend(run, rng, nblocks, option_sets, contracts, timeout=6, pid=PID, contract_option_sets=None):
    """Runs the front end + greedy.  Returns list of case dicts:
    {'origin', 'opts', 'block', 'name', 'sfs', 'greedy', 'sub_block_list', 'sub_index'} and stats."""
    blocks = []
    seen = set()
    while len(blocks) < nblocks:
        b = " ".join(gen_block(rng))
        if b not in seen:
            seen.add(b)
            blocks.append(b)
    corpus = load_corpus_blocks(pid) + structured_blocks(rng, 260 if nblocks <= 150 else 1200)
    cases, stats = [], {"frontend_status": {}, "blocks": 0}
    for opts in option_sets:
        items = [("text", b) for b in corpus + blocks]
        rs = gasol.pmap(_frontend, items, init=_init_frontend, initargs=(opts,), timeout=timeout)
        _absorb(cases, stats, rs, items, opts, "generated")
    for cf in contracts:
        path = os.path.join(CONTRACT_DIR, cf)
        nb = len(contract_blocks(path))
        for opts in (contract_option_sets or option_sets):
            items = [("block", i) for i in range(nb)]
            rs = gasol.pmap(_frontend, items, init=_init_frontend, initargs=(opts, path), timeout=timeout)
            _absorb(cases, stats, rs, items, opts, "contract:" + cf[:10])
    return cases, stats


def _absorb(cases, stats, rs, items, opts, origin):
    for (status, val), item in zip(rs, items):
        stats["blocks"] += 1
        key = status if status != "exc" else "exc:" + str(val).split(":")[0]
        stats["frontend_status"][key] = stats["frontend_status"].get(key, 0) + 1
        if status != "ok":
            continue
        for k, sub in enumerate(val["subs"]):
            cases.append({"origin": origin, "opts": list(opts), "block": item[1] if item[0] == "text" else val["plain"],
                          "name": sub["name"], "sfs": sub["sfs"], "greedy": sub["greedy"],
                          "sub_block_list": val["sub_block_list"], "sub_index": k,
                          "nsubs": len(val["subs"]), "to_optimize": val.get("to_optimize")})


def collect_hand(run, rng, n, timeout=10):
    specs = [gen_spec(rng, allow_const=(k % 10 == 9)) for k in range(n)]
    for s in load_corpus_specs():
        specs.insert(0, s)
    rs = gasol.pmap(_hand, specs, init=_init_hand, timeout=timeout)
    cases, stats = [], {"hand_status": {}}
    for (status, val), s in zip(rs, specs):
        key = status if status != "exc" else "exc:" + str(val).split(":")[0]
        stats["hand_status"][key] = stats["hand_status"].get(key, 0) + 1
        if status == "ok":
            cases.append({"origin": "hand", "opts": [], "block": None, "name": "hand", "sfs": val["sfs"],
                          "greedy": val["greedy"], "sub_block_list": None, "sub_index": 0, "nsubs": 1})
    return cases, stats


def load_corpus_blocks(pid=PID):
    d = os.path.join(common.VERIF, "corpus", pid)
    out = []
    if os.path.isdir(d):
        for f in sorted(os.listdir(d)):
            if f.endswith(".json"):
                with open(os.path.join(d, f)) as fh:
                    j = json.load(fh)
                if j.get("block"):
                    out.append(j["block"])
    return out


def load_corpus_specs(pid=PID):
    d = os.path.join(common.VERIF, "corpus", pid)
    out = []
    if os.path.isdir(d):
        for f in sorted(os.listdir(d)):
            if f.endswith(".json"):
                with open(os.path.join(d, f)) as fh:
                    j = json.load(fh)
                if j.get("sfs"):
                    out.append(j["sfs"])
    return out


def bucket(n, edges=(0, 1, 2, 4, 8, 12, 16, 24, 40)):
    for e in edges:
        if n <= e:
            return "<=%d" % e
    return ">%d" % edges[-1]


def hist(d, k):
    d[k] = d.get(k, 0) + 1


def describe(cases):
    """Measured distribution of the specifications."""
    dist = {"n_instrs": {}, "n_stores": {}, "n_deps": {}, "n_src": {}, "n_tgt": {}, "origin": {}, "opts": {},
            "greedy_error": {}, "id_kinds": {}, "ids_len": {}, "max_dup_swap_depth": {}}
    for c in cases:
        s = c["sfs"]
        hist(dist["n_instrs"], bucket(len(s["user_instrs"])))
        hist(dist["n_stores"], str(sum(1 for i in s["user_instrs"] if i.get("storage"))))
        hist(dist["n_deps"], bucket(len(s.get("dependencies", []))))
        hist(dist["n_src"], bucket(len(s["src_ws"]), (0, 1, 2, 4, 8, 12, 16, 18)))
        hist(dist["n_tgt"], bucket(len(s["tgt_ws"]), (0, 1, 2, 4, 8, 12, 16, 18)))
        hist(dist["origin"], c["origin"])
        hist(dist["opts"], " ".join(c["opts"]) or "default")
        g = c["greedy"]
        hist(dist["greedy_error"], str(g["err"]))
        if g["err"] == 0 and g["ids"] is not None:
            hist(dist["ids_len"], bucket(len(g["ids"])))
            t = sfs2coq.Tables()
            t.ins = {i["id"]: 0 for i in s["user_instrs"]}
            deep = 0
            for i in g["ids"]:
                hist(dist["id_kinds"], sfs2coq.id_kind(i, t))
                m = re.fullmatch(r"(?:DUP|SWAP)(\d+)", i)
                if m:
                    deep = max(deep, int(m.group(1)))
            hist(dist["max_dup_swap_depth"], bucket(deep, (0, 1, 2, 4, 8, 12, 15, 16)))
    return dist


# ---------------------------------------------------------------------------------------------

def classify(case, verdict, tables):
    """Key of a violation (matched against known findings)."""
    s = case["sfs"]
    return {"function": "greedy_from_json", "failure": verdict[1] if verdict else "format",
            "origin": "hand" if case["origin"] == "hand" else "frontend"}


def preload():
    """Import GASOL's modules once in the parent so that forked workers start instantly."""
    import gasol_asm  # noqa: F401
    import greedy.block_generation  # noqa: F401
    import smt_encoding.json_with_dependencies  # noqa: F401


def check(run):
    rng = random.Random(run.seed)
    preload()
    ok = common.proof_stage(run, "Props/C04.v")
    thorough = run.tier == "thorough"
    nblocks = 600 if thorough else 100
    nhand = 6000 if thorough else 1000
    option_sets = OPTION_SETS + (EXTRA_OPTION_SETS if thorough else [])
    contracts = CONTRACTS_THOROUGH if thorough else CONTRACT_QUICK
    t0 = time.time()
    fe, st1 = collect_frontend(run, rng, nblocks, option_sets, contracts,
                               contract_option_sets=OPTION_SETS[:4] if thorough else [OPTION_SETS[0], OPTION_SETS[1], OPTION_SETS[3]])
    run.log("front end + greedy: %d specifications from %d block runs (%.0fs) %s" %
            (len(fe), st1["blocks"], time.time() - t0, st1["frontend_status"]))
    t0 = time.time()
    hb, st2 = collect_hand(run, rng, nhand)
    run.log("hand-built specifications: %d (%.0fs) %s" % (len(hb), time.time() - t0, st2["hand_status"]))
    allc = fe + hb
    # distinct by (specification, ids)
    seen, todo = set(), []
    for c in allc:
        g = c["greedy"]
        if g["err"] != 0 or g["ids"] is None:
            continue
        k = spec_key(c["sfs"]) + "|" + " ".join(g["ids"])
        if k in seen:
            continue
        seen.add(k)
        todo.append(c)
    cases = [{"sfs": c["sfs"], "ids": c["greedy"]["ids"]} for c in todo]
    t0 = time.time()
    res, broken = coq_check_cases("c04", cases)
    run.log("Coq evaluated %d (S, ids) pairs (%.0fs)" % (len(cases), time.time() - t0))
    if not ok:
        run.report({"kind": "proof-broken", "what": str(run.proof_broken)[:200]},
                   "the proof of realizes_sound no longer checks: %s" % (str(run.proof_broken)[:300]),
                   {"theorem": "Props/C04.v", "detail": str(run.proof_broken)[:2000],
                    "cmd": "cd /verif/coq && make Props/C04.vo"}, found_input=False)
    for name, txt in broken:
        run.report({"kind": "cases-broken", "file": name}, "cases file %s did not evaluate: %s" % (name, txt[-300:]),
                   {"file": name, "output": txt}, found_input=False)
    accepted = rejected = 0
    shrunk_kinds = {}
    nontrivial = 0
    wf_false = 0
    for c, r in zip(todo, res):
        if r is None or ("format_error" not in r and not r.get("evaluated")):
            if not broken:
                run.report({"kind": "cases-broken", "file": "?"}, "a case was not evaluated by Coq",
                           {"case": c["name"]}, found_input=False)
            continue
        if "format_error" in r:
            v, tables = (0, "EFormat", [r["format_error"]]), None
        else:
            v, tables = r["verdict"], r["tables"]
            if not r["wf"]:
                wf_false += 1
        if v is None:
            accepted += 1
            if len(c["greedy"]["ids"]) >= 3:
                nontrivial += 1
            continue
        rejected += 1
        shrunk_kinds[v[1]] = shrunk_kinds.get(v[1], 0) + 1
        report_rejection(run, c, v, tables, do_shrink=shrunk_kinds[v[1]] <= 2)
    run.cov["evaluations"] = len(cases)
    run.cov["distinct_nontrivial"] = nontrivial
    run.cov["rule"] = ("specifications: front end on generated blocks (stack-height-aware generator, lengths 1-40, "
                       "source depth up to 18) under %d option sets, every sub-block of %d shipped contract(s), and "
                       "hand-built term DAGs; an evaluation = Coq's `check S ids` on greedy_from_json's answer with "
                       "error == 0; distinct by (canonical specification JSON, ids); non-trivial = accepted with >= 3 ids"
                       % (len(option_sets), len(contracts)))
    dist = describe(allc)
    dist["frontend_status"] = st1["frontend_status"]
    dist["hand_status"] = st2["hand_status"]
    dist["coq_verdicts"] = {"accepted": accepted, "rejected": rejected, "wf_spec_false": wf_false}
    run.cov["distribution"] = dist
    for c in todo[:3] + todo[-3:]:
        run.add_sample({"origin": c["origin"], "opts": c["opts"], "block": c["block"],
                        "src_ws": c["sfs"]["src_ws"], "tgt_ws": c["sfs"]["tgt_ws"],
                        "n_instrs": len(c["sfs"]["user_instrs"]), "ids": c["greedy"]["ids"]})
    run.log("accepted %d, rejected %d (wf_spec false on %d); greedy errors: %s" %
            (accepted, rejected, wf_false, dist["greedy_error"]))


def report_rejection(run, c, v, tables, do_shrink=True):
    sfs, ids = c["sfs"], c["greedy"]["ids"]
    small, small_ids, small_v = sfs, ids, v
    if common.match_known(run.known, run.pid, classify(c, v, tables)) is not None:
        do_shrink = False                  # a recorded finding: no need to minimise it again
    if v[1] != "EFormat" and do_shrink:
        try:
            small, small_ids, small_v = shrink(sfs, ids, v)
        except Exception as e:  # noqa
            run.log("shrinking failed:", e)
        # confirm the shrunk input in Coq
        r2, _ = coq_check_cases("c04s", [{"sfs": small, "ids": small_ids}])
        if r2 and r2[0] and r2[0].get("evaluated") and r2[0]["verdict"] is not None:
            small_v, tables = r2[0]["verdict"], r2[0]["tables"]
        else:
            small, small_ids, small_v = sfs, ids, v
    expl = sfs2coq.explain(small_v, small_ids, tables) if tables is not None else str(small_v)
    key = classify(c, small_v, tables)
    key["n_instrs"] = len(small["user_instrs"])
    what = ("greedy_from_json returned error 0 with a sequence that does not realize the specification: %s; ids=%s"
            % (expl, small_ids))
    replay = {"kind": "spec", "sfs": small, "ids_observed": small_ids, "verdict": list(small_v), "explanation": expl,
              "origin": c["origin"], "opts": c["opts"], "block": c["block"], "original_sfs": sfs, "original_ids": ids,
              "tables": tables.as_dict() if tables is not None else None,
              "cmd": "cd /verif && ./check C04 --replay <this file>"}
    run.report(key, what, replay, found_input=True)


def replay(run, path):
    """Re-runs greedy_from_json on the recorded specification and lets Coq judge the answer."""
    with open(path) as fh:
        j = json.load(fh)
    rp = j.get("replay", j)
    preload()
    if "sfs" not in rp and (rp.get("block") or j.get("block")):
        block = rp.get("block") or j.get("block")
        rs = gasol.pmap(_frontend, [("text", block)], init=_init_frontend, initargs=(tuple(rp.get("opts", [])),),
                        timeout=60)
        status, val = rs[0]
        if status != "ok":
            print("front end:", status, val)
            return 2
        rc = 0
        for sub in val["subs"]:
            g = sub["greedy"]
            print("sub-block", sub["name"], "greedy error", g["err"], "ids", g["ids"])
            if g["err"] != 0:
                continue
            res, broken = coq_check_cases("c04r", [{"sfs": sub["sfs"], "ids": g["ids"]}])
            v = res[0].get("verdict") if res[0] else "?"
            print("  Coq verdict:", v, "--", sfs2coq.explain(v, g["ids"], res[0]["tables"]) if res[0] else "")
            print("  dependencies:", sub["sfs"].get("dependencies"))
            if v is not None:
                rc = 1
        return rc
    if "sfs" not in rp:
        print("replay names a broken proof obligation:", rp.get("theorem") or rp.get("file"))
        ok = common.proof_stage(run, "Props/C04.v")
        print("proof stage:", "ok" if ok else "BROKEN %s" % (run.proof_broken,))
        return 0 if ok else 1
    sfs = rp["sfs"]
    rs = _greedy_on_specs([sfs])
    status, val = rs[0]
    print("greedy_from_json:", status, (val if status != "ok" else {"err": val["err"], "ids": val["ids"]}))
    if status != "ok" or val["err"] != 0:
        print("the greedy no longer reports success on this specification: property holds vacuously here")
        return 0
    res, broken = coq_check_cases("c04r", [{"sfs": sfs, "ids": val["ids"]}])
    if broken or not res[0] or not res[0].get("evaluated"):
        print("Coq evaluation failed", broken, res)
        return 2
    v = res[0]["verdict"]
    print("Coq verdict:", v, "--", sfs2coq.explain(v, val["ids"], res[0]["tables"]))
    print("src_ws:", sfs["src_ws"], "tgt_ws:", sfs["tgt_ws"])
    for i in sfs["user_instrs"]:
        print("  ", i["id"], i["inpt_sk"], "->", i["outpt_sk"], "comm" if i.get("commutative") else "",
              "storage" if i.get("storage") else "")
    print("dependencies:", sfs.get("dependencies"))
    return 1 if v is not None else 0
