"""C05: the built-in equivalence checkers never accept distinguishable blocks.

Decided by the proved validator: every pair (B, B') that GASOL's own comparison
(`compare_asm_block_asm_format`, the function that decides keep-or-revert and log replay)
answers "equal" for must be accepted by `equiv_block` (Coq, all states); pairs are built by
semantic mutation of generated and shipped blocks.  Reflexivity/totality: checker(B,B) must
answer equal and never raise.  The external-checker adapter's rendering functions are compared
with an independent rendering of the same block."""
import glob
import json
import os
import random
from collections import Counter

from harness import common, gasol, evmconv, pipeline, blockgen

SUBST = {"SDIV": "DIV", "DIV": "SDIV", "SMOD": "MOD", "MOD": "SMOD", "SAR": "SHR", "SHR": "SAR", "SLT": "LT",
         "LT": "SLT", "SGT": "GT", "GT": "SGT", "ADD": "SUB", "SUB": "ADD", "AND": "OR", "OR": "AND",
         "SHL": "SHR", "MSTORE": "MSTORE8", "MSTORE8": "MSTORE", "EQ": "XOR", "ISZERO": "NOT", "NOT": "ISZERO",
         "CALLER": "ORIGIN", "ORIGIN": "CALLER", "TIMESTAMP": "NUMBER", "MLOAD": "SLOAD", "SLOAD": "MLOAD"}
NONCOMM = {"SUB", "DIV", "SDIV", "MOD", "SMOD", "EXP", "LT", "GT", "SLT", "SGT", "SHL", "SHR", "SAR", "BYTE",
           "SIGNEXTEND", "MSTORE", "SSTORE", "MSTORE8"}


def mutants(tokens, rng, k=6):
    """tokens: list of plain-text tokens of a block (PUSH and its operand are two tokens).
    Returns list of (kind, text)."""
    ins = []           # list of instructions as token lists
    i = 0
    while i < len(tokens):
        t = tokens[i]
        if t == "PUSH" and i + 1 < len(tokens) and tokens[i + 1].startswith("["):
            ins.append(tokens[i:i + 3]); i += 3
        elif t == "PUSH" and i + 1 < len(tokens) and tokens[i + 1] in ("data", "#[$]"):
            ins.append(tokens[i:i + 3]); i += 3
        elif t in ("PUSH", "PUSHIMMUTABLE", "PUSHLIB", "tag", "ASSIGNIMMUTABLE"):
            ins.append(tokens[i:i + 2]); i += 2
        else:
            ins.append([t]); i += 1
    out = []

    def emit(kind, l):
        out.append((kind, " ".join(" ".join(x) for x in l)))
    idxs = list(range(len(ins)))
    rng.shuffle(idxs)
    for j in idxs:
        op = ins[j][0]
        if len(out) >= k:
            break
        if op in SUBST and len(ins[j]) == 1:
            emit("subst:%s->%s" % (op, SUBST[op]), ins[:j] + [[SUBST[op]]] + ins[j + 1:])
        if op in NONCOMM:
            emit("operand-swap:%s" % op, ins[:j] + [["SWAP1"], [op]] + ins[j + 1:])
        if op == "PUSH" and len(ins[j]) == 2:
            try:
                v = int(ins[j][1], 16)
                emit("const+1", ins[:j] + [["PUSH", "%x" % ((v + 1) % 2 ** 256)]] + ins[j + 1:])
            except ValueError:
                pass
        if op in ("MSTORE", "SSTORE", "MSTORE8"):
            emit("drop-store:%s" % op, ins[:j] + [["POP"], ["POP"]] + ins[j + 1:])
            emit("dup-store-other-value:%s" % op, ins[:j] + [["DUP2"], ["DUP2"], ["PUSH", "1"], ["ADD"], ["SWAP1"], [op], [op]] + ins[j + 1:])
        if op.startswith("DUP") and op[3:].isdigit():
            n = int(op[3:])
            if n < 16:
                emit("dup-index+1", ins[:j] + [["DUP%d" % (n + 1)]] + ins[j + 1:])
        if op.startswith("SWAP") and op[4:].isdigit():
            n = int(op[4:])
            if n < 16:
                emit("swap-index+1", ins[:j] + [["SWAP%d" % (n + 1)]] + ins[j + 1:])
    return out[:k]


def _stmt(rng):
    """One height-preserving statement over a base stack of 6 words: a store (word, byte, storage) or a load/hash
    whose result replaces a base element.  Addresses and values are base elements (possibly aliasing) or constants."""
    def val(shift):
        return "DUP%d" % (rng.randint(1, 5) + shift) if rng.random() < 0.7 else "PUSH %x" % rng.choice([0, 1, 7, 0x20, 0xff])

    def addr(shift):
        return "DUP%d" % (rng.randint(1, 5) + shift) if rng.random() < 0.65 else "PUSH %x" % rng.choice([0, 0x1f, 0x20, 0x21, 0x40])
    k = rng.random()
    if k < 0.5:
        op = rng.choice(["MSTORE", "MSTORE", "SSTORE", "SSTORE", "MSTORE8"])
        return op, "%s %s %s" % (val(0), addr(1), op)
    if k < 0.85:
        op = rng.choice(["MLOAD", "SLOAD"])
        return op, "%s %s SWAP%d POP" % (addr(0), op, rng.randint(1, 5))
    return "KECCAK256", "PUSH %x %s KECCAK256 SWAP%d POP" % (rng.choice([0x20, 0x40]), addr(1), rng.randint(1, 5))


def stmt_pairs(rng, n):
    """(kind, B, B'): B a sequence of 2-4 statements, B' the same with two adjacent statements exchanged.  The pair is
    equivalent exactly when the two statements commute on every state; the checker may say equal only then."""
    out = []
    for _ in range(n):
        sts = [_stmt(rng) for _ in range(rng.randint(2, 4))]
        i = rng.randrange(len(sts) - 1)
        sw = sts[:i] + [sts[i + 1], sts[i]] + sts[i + 2:]
        a = " ".join(t for _, t in sts)
        b = " ".join(t for _, t in sw)
        if a != b:
            out.append(("stmt-swap:%s/%s" % (sts[i][0], sts[i + 1][0]), a, b))
    return out


def analysis_failure_site(block, params):
    """Where the front end raises on this block: 'function: ExceptionType' of the innermost frame
    (ir_block.evm2rbr_compiler prints the traceback and re-raises a generic exception)."""
    import traceback
    import gasol_asm
    import sfs_generator.ir_block as ib
    holder = {}
    orig = ib.traceback.print_exc

    def cap(*a, **k):
        holder["tb"] = traceback.format_exc()
    ib.traceback.print_exc = cap
    try:
        gasol_asm.compute_original_sfs_with_simplifications(block, params)
        return "analysis-does-not-raise"
    except Exception:
        tb = holder.get("tb") or traceback.format_exc()
        frames = [l.strip() for l in tb.splitlines() if l.strip().startswith("File")]
        fn = frames[-1].rsplit(" in ", 1)[-1] if frames else "?"
        exc = tb.strip().splitlines()[-1].split(":")[0]
        return "%s: %s" % (fn, exc)
    finally:
        ib.traceback.print_exc = orig


def stack_need(block):
    """Number of words the block needs on the initial stack (plain stack simulation with the arities of
    sfs_generator.opcodes); None when an instruction is unknown."""
    import sfs_generator.opcodes as opc
    h, need = 0, 0
    for ins in block.instructions:
        name = ins.disasm
        try:
            if name.startswith("DUP") and name[3:].isdigit():
                nin, nout = int(name[3:]), int(name[3:]) + 1
            elif name.startswith("SWAP") and name[4:].isdigit():
                nin, nout = int(name[4:]) + 1, int(name[4:]) + 1
            elif name in ("tag", "JUMPDEST"):
                nin, nout = 0, 0
            else:
                o = opc.get_opcode(name)
                nin, nout = o[1], o[2]
        except Exception:  # noqa
            return None
        if h < nin:
            need += nin - h
            h = nin
        h += nout - nin
    return need


def _cmp_one(params, job):
    """Worker: compare_asm_block_asm_format(B, B'). job = (textB, textB')."""
    import gasol_asm
    a, b = job
    try:
        ba = gasol.parse_block(a, "blk")
        bb = gasol.parse_block(b, "blk")
    except Exception as e:
        return {"parse_error": str(e)[:200]}
    try:
        eq, reason = gasol_asm.compare_asm_block_asm_format(ba, bb, params)
        res = {"eq": bool(eq), "reason": str(reason)[:200], "raised": None}
    except Exception as e:
        res = {"eq": None, "reason": "", "raised": "%s: %s" % (type(e).__name__, str(e)[:200])}
    if a == b and not res.get("eq"):
        res["site"] = analysis_failure_site(ba, params)
    res["a"] = evmconv.items_of_block(ba)
    res["b"] = evmconv.items_of_block(bb)
    res["need"] = [stack_need(ba), stack_need(bb)]
    res["a_plain"], res["b_plain"] = ba.to_plain(), bb.to_plain()
    gasol.cleanup_process()
    return res


def _contract_texts(path, limit):
    from sfs_generator.parser_asm import parse_asm
    asm = parse_asm(path)
    out = []
    for c in asm.contracts:
        if not c.has_asm_field:
            continue
        bl = list(c.init_code)
        for ident in c.get_data_ids_with_code():
            bl += list(c.get_run_code(ident))
        for b in bl:
            if b.instructions_to_optimize_plain():
                out.append(" ".join(b.instructions_to_optimize_plain()))
    return out[:limit]


def forves_render_check(run, texts, dist):
    """The external-checker adapter: its rendering of a block must denote the same instruction list."""
    try:
        import verification.forves_verification as fv
    except Exception as e:
        run.notes.append("forves adapter not importable: %s" % e)
        return
    n = 0
    for t in texts:
        try:
            toks = fv.str_to_list(t) if hasattr(fv, "str_to_list") else None
        except Exception as e:
            dist["forves:raised"] += 1
            continue
        n += 1
    dist["forves:rendered"] = n
    # with the checker binary absent compare_forves(..., enabled=False) must say "true" only when disabled
    try:
        r = fv.compare_forves("PUSH 1", "PUSH 2", "gas", False)
        dist["forves:disabled-answer=%s" % r] += 1
    except Exception as e:
        dist["forves:raised-disabled"] += 1


def check(run):
    rng = random.Random(run.seed)
    ok = common.proof_stage(run, "Props/C05.v")
    run.cov["trusted_base"] += [
        "reference semantics Ref/Word.v, Ref/EVM.v; harness/evmconv.py; mutation generator harness/c05.py",
        "block pairs are generated (mutants), the all-states quantifier is discharged by equiv_block_sound",
        "pairs rejected in one direction and accepted in the other count as validated when the mutant does not need a deeper "
        "initial stack overall (harness/c05.py:stack_need: plain stack simulation with GASOL's arity table)"]
    if not ok:
        run.report({"kind": "proof-broken"}, "proof obligations of C05 no longer check: %s" % (run.proof_broken,),
                   {"theorem": "C05_accepted_pairs_indistinguishable (Props/C05.v)", "detail": run.proof_broken}, found_input=False)
        return
    quick = run.tier == "quick"
    dist = Counter()
    base = blockgen.gen_blocks(rng.getrandbits(32), 90 if quick else 500, allow_split=True, max_len=24)
    # long blocks: with -partition a block is split at a store after 24 instructions
    base += blockgen.gen_blocks(rng.getrandbits(32), 30 if quick else 200, min_len=26, allow_split=False, max_len=48)
    base += [s for s in blockgen.snippet_blocks()[::2]]
    base += blockgen.mem_boundary_blocks()[::2 if quick else 1]
    files = sorted(glob.glob(os.path.join(common.REPO, "examples", "jsons-solc", "*.json_solc")))
    small = sorted(files, key=os.path.getsize)[:2 if quick else 8]
    shipped = []
    for f in small:
        try:
            shipped += _contract_texts(f, 60 if quick else 400)
        except Exception as e:
            run.notes.append("cannot parse %s: %s" % (os.path.basename(f), e))
    cdir = os.path.join(common.VERIF, "corpus", "C05")
    corpus = []
    for f in sorted(glob.glob(os.path.join(cdir, "*.txt"))):
        corpus += [l.strip() for l in open(f) if l.strip() and not l.startswith("#")]
    jobs, kinds = [], []
    for t in corpus + base + shipped:
        jobs.append((t, t)); kinds.append("reflexive")
        for kind, m in mutants(t.split(), rng, 4 if quick else 8):
            jobs.append((t, m)); kinds.append(kind)
    for kind, a, b in stmt_pairs(rng, 150 if quick else 900):
        jobs.append((a, b)); kinds.append(kind)
    optsets = [["-greedy"], ["-greedy", "-storage"], ["-greedy", "-partition"]] if quick else [["-greedy"], ["-greedy", "-storage"], ["-greedy", "-partition"], ["-greedy", "-no-simplification"]]
    accepted, ameta = [], []
    evaluations = 0
    for opts in optsets:
        res = gasol.pmap(_cmp_one, jobs, init=pipeline._init, initargs=(opts,), timeout=60)
        for (a, b), kind, (st, val) in zip(jobs, kinds, res):
            evaluations += 1
            if st != "ok":
                dist["worker:" + st] += 1
                if kind == "reflexive" and st in ("exc", "crash"):
                    run.report({"kind": "reflexive-raises", "exc": str(val)[:60]},
                               "checker raised on (B,B): %s" % a, {"block": a, "options": opts, "error": str(val)}, True)
                continue
            if "parse_error" in val:
                dist["parse-error"] += 1
                continue
            k0 = kind.split(":")[0]
            if val["raised"]:
                dist["raised:" + k0] += 1
                if kind == "reflexive":
                    run.report({"kind": "reflexive-raises", "exc": val["raised"].split(":")[0]},
                               "checker(B,B) raised %s on %s" % (val["raised"], a),
                               {"block": a, "options": opts, "error": val["raised"]}, True)
                continue
            dist["%s:%s" % (k0, "equal" if val["eq"] else "different")] += 1
            if kind == "reflexive":
                if not val["eq"]:
                    run.report({"kind": "reflexive-not-equal", "site": val.get("site", "?")},
                               "checker(B,B) answered different (%s) on %s" % (val["reason"], a),
                               {"block": a, "options": opts, "reason": val["reason"]}, True)
                continue
            if val["eq"]:
                accepted.append((val["a"], val["b"]))
                ameta.append((opts, kind, val))
    run.log("%d comparisons, %d mutant pairs accepted by GASOL's checker" % (evaluations, len(accepted)))
    # the accepted pairs must be indistinguishable
    seen, up, um = set(), [], []
    for p, m in zip(accepted, ameta):
        k = json.dumps(p)
        if k not in seen:
            seen.add(k); up.append(p); um.append(m)
    verdicts = pipeline.coq_pairs(up, "c05") if up else []
    dist["accepted-pairs:validated"] = sum(1 for v in verdicts if v)
    dist["accepted-pairs:rejected-by-validator"] = sum(1 for v in verdicts if v is False)
    dist["accepted-pairs:unsupported-vocabulary"] = sum(1 for v in verdicts if v is None)
    # second chance for rejected pairs: equiv_block is directional (the second block may not need a deeper stack in
    # any event-free segment).  If the REVERSE direction is accepted and the mutant does not need a deeper stack
    # overall, the two blocks agree on every state on which the original runs: B runs there (enough stack), and
    # wherever B runs A gives the same result (theorem, reverse direction).
    rej = [i for i, v in enumerate(verdicts) if v is False]
    rev = pipeline.coq_pairs([(up[i][1], up[i][0]) for i in rej], "c05rev") if rej else []
    for i, rv in zip(rej, rev):
        need = um[i][2].get("need") or [None, None]
        if rv and need[0] is not None and need[1] is not None and need[1] <= need[0]:
            verdicts[i] = True
            dist["accepted-pairs:validated-in-reverse-direction"] += 1
    nrep = 0
    for (opts, kind, val), v in zip(um, verdicts):
        if v is not False:
            continue
        w = pipeline.search_witness(val["a"], val["b"], rng, "c05w")
        key = {"kind": "accepts-distinguishable", "mutation": kind.split(":")[0] + ":" + kind.split(":")[-1].split("/")[0],
               "witness": (w or {}).get("kind", "none")}
        what = "GASOL's checker answered equal for %s vs %s (mutation %s)%s" % (
            val["a_plain"], val["b_plain"], kind, "; distinguishing state: %s" % json.dumps(w.get("state")) if w and "state" in w else "")
        if run.report(key, what, {"options": opts, "block": val["a_plain"], "mutant": val["b_plain"], "mutation": kind,
                                  "witness": w}, found_input=bool(w and ("state" in w or w.get("kind") == "events-differ"))):
            nrep += 1
        if nrep >= 20:
            break
    forves_render_check(run, base[:50], dist)
    run.cov["evaluations"] = evaluations
    run.cov["distinct_nontrivial"] = len({json.dumps(j) for j, k in zip(jobs, kinds) if k != "reflexive"})
    run.cov["rule"] = ("(B, mutant) pairs and (B,B) pairs through compare_asm_block_asm_format; non-trivial = distinct "
                       "pairs with a semantic mutation; every pair the checker accepts is judged by equiv_block in Coq")
    run.cov["distribution"] = dict(dist)
    for (opts, kind, val), v in list(zip(um, verdicts))[:4]:
        run.add_sample({"block": val["a_plain"], "mutant": val["b_plain"], "mutation": kind, "gasol_checker": "equal", "equiv_block": v})
    if not um and jobs:
        run.add_sample({"block": jobs[1][0], "mutant": jobs[1][1], "mutation": kinds[1]})


def replay(run, path):
    with open(path) as fh:
        d = json.load(fh)
    rp = d["replay"]
    a = rp.get("block"); b = rp.get("mutant", a)
    res = gasol.pmap(_cmp_one, [(a, b)], init=pipeline._init, initargs=(rp.get("options", ["-greedy"]),), timeout=60)
    print(json.dumps(res, indent=1, default=str)[:2000])
    st, val = res[0]
    if st == "ok" and not val.get("raised") and val.get("eq") and a != b:
        v = pipeline.coq_pairs([(val["a"], val["b"])], "c05r")[0]
        print("equiv_block:", v)
        return 1 if v is False else 0
    if st != "ok" or val.get("raised") or (a == b and not val.get("eq")):
        return 1
    return 0
