"""C06: every model of the Max-SMT hard constraints decodes to a realizing sequence; the emitted
SMT-LIB text is well formed.   (claimed PARTIAL, see `PARTIAL` below and Props/C06.v)

What is proved (Coq, unbounded):
  * Model/Smt2Proofs.v  script_wf_sound / script_wf_complete / wf_script_declared_once: the boolean
    checker `script_wf` decides an inductive well-sortedness judgement on SMT-LIB scripts.
  * Model/EncodingProofs.v  stage lemmas of `hard_sound` for the model `hard` of the constraint
    generators (see Props/C06.v for the exact list and what stays `_partial`).
What is checked on every run (this file):
  1. script_wf (vm_compute, Coq kernel) on every REAL emitted .smt2 file: specs x option sets.
  2. all models of the emitted hard constraints (enumerated with /usr/bin/z3 through blocking
     clauses on the t_j, decoded by the tool's own reader BlockOptimizer._rebuild_block_from_solver)
     are checked by the proved validator `realizes_bounded` (Val/Realizes.v, vm_compute).
  3. syntactic correspondence: the Python hard-constraint objects (FullEncoding.generate_hard_constraints)
     serialised and compared with `hard O S` computed in Coq.
A model whose decoding is rejected is the failing input.
"""
import copy
import itertools
import json
import os
import random
import re
import shutil
import subprocess
import time
import uuid

from harness import common, gasol, sfs2coq, smt2
from harness import c04

PID = "C06"
Z3 = "/usr/bin/z3"

TERMS = ["uninterpreted_uf", "uninterpreted_int", "int", "stack_vars"]
# CLI flag -> (attribute, value when the flag is given)
BOOL_FLAGS = ["-empty", "-push-basic", "-pop-uninterpreted", "-l-vars", "-order-bounds", "-order-conflicts",
              "-at-most", "-pushed-once", "-no-output-before-pop"]


def cli_opts(term, flags):
    """Option-set description (term encoding, set of BOOL_FLAGS) -> GASOL command-line options."""
    out = ["-solver", "z3", "-term-encoding", term]
    for f in flags:
        if f == "-l-vars":
            out += ["-memory-encoding", "l_vars"]
        else:
            out.append(f)
    return out


def opt_name(term, flags):
    return term + "".join("," + f.lstrip("-") for f in sorted(flags))


# quick tier: every flag at least once on and once off, every term encoding, a few interactions
QUICK_OPTION_SETS = [
    ("uninterpreted_uf", ()),
    ("uninterpreted_int", ()),
    ("int", ()),
    ("stack_vars", ()),
    ("uninterpreted_uf", ("-empty",)),
    ("int", ("-empty", "-pop-uninterpreted")),
    ("uninterpreted_uf", ("-l-vars",)),
    ("stack_vars", ("-l-vars", "-order-conflicts")),
    ("uninterpreted_uf", ("-order-bounds",)),
    ("uninterpreted_int", ("-order-bounds", "-order-conflicts")),
    ("uninterpreted_uf", ("-pop-uninterpreted",)),
    ("int", ("-push-basic",)),
    ("stack_vars", ("-push-basic", "-empty")),
    ("uninterpreted_uf", ("-at-most", "-pushed-once", "-no-output-before-pop")),
    ("uninterpreted_uf", ("-push-basic",)),
]


# ---------------------------------------------------------------------------------------------
# serialisation of the Python constraint objects (canonical text compared with Encoding.show)

def ser_formula(f):
    from smt_encoding.constraints.function import ExpressionReference
    if type(f) == bool:
        return "T" if f else "F"
    if type(f) == int:
        return "i%d" % f
    if type(f) == ExpressionReference:
        args = f.arguments
        if not args:
            return str(f.func)
        return "(" + str(f.func) + " " + " ".join(ser_formula(a) for a in args) + ")"
    return "[" + f.connector_name + " " + " ".join(ser_formula(a) for a in f.arguments) + "]"


# ---------------------------------------------------------------------------------------------
# worker: front end + encoder + solver + the tool's reader

def _init(opts):
    p = gasol.setup_process(list(opts))
    return {"p": p, "opts": list(opts)}


def _hard_objects(sfs, params):
    """The hard constraints as Python objects, bounds and instruction table of a fresh FullEncoding."""
    from smt_encoding.complete_encoding.synthesis_full_encoding import FullEncoding
    fe = FullEncoding(copy.deepcopy(sfs), params, 0)
    try:
        hard = [ser_formula(h.formula) for h in fe.generate_hard_constraints()]
        err = None
    except Exception as e:  # noqa  (an add_or of nothing raises AssertionError)
        hard, err = None, "%s: %s" % (type(e).__name__, str(e)[:200])
    thetas = {}
    for th, ins in fe.theta_to_instr.items():
        thetas[th] = {"id": ins.id, "lb": fe._bounds.lower_bound_theta_value(th),
                      "ub": fe._bounds.upper_bound_theta_value(th),
                      "subset": ins.instruction_subset.name, "unique": bool(ins.unique_ui)}
    terms = {k: ser_formula(v) for k, v in fe._stack_var_to_term.items()}
    return {"hard": hard, "err": err, "thetas": thetas, "terms": terms, "b0": fe.b0, "bs": fe.bs,
            "first": fe._bounds.first_position_sequence, "last": fe._bounds.last_position_sequence}


def _run_z3(path, timeout=20):
    try:
        p = subprocess.run([Z3, "-smt2", path], stdout=subprocess.PIPE, stderr=subprocess.STDOUT,
                           timeout=timeout, text=True)
        return p.stdout
    except subprocess.TimeoutExpired:
        return "timeout"


def _decode_with_tool(bo, model_text):
    """The tool's own reader on a model text: (ids, a-values for the positions decoded as PUSH)."""
    bo._solver._model = model_text
    ids = bo._rebuild_block_from_solver()
    avals = {}
    for j, i in enumerate(ids):
        if i == "PUSH":
            try:
                avals[j] = bo._solver.get_value("a_%d" % j)
            except Exception as e:  # noqa
                avals[j] = None
    return ids, avals


def _theta_term(bo, th):
    return "theta_%d" % th if bo._flags.encode_terms == "uninterpreted_uf" else str(th)


def _enumerate(bo, smt2_text, cap, tout):
    """All assignments of t_0..t_{b0-1} extendable to a model of the hard constraints (up to cap).
    Each model is found by /usr/bin/z3 on the emitted file with the soft part removed and blocking
    clauses appended, and decoded with the tool's reader."""
    import global_params.paths as paths
    fe = bo._full_encoding
    inv = {ins.id: th for th, ins in fe.theta_to_instr.items()}
    hard_lines = smt2.strip_soft(smt2_text)
    models, blocks, status = [], [], "complete"
    path = os.path.join(paths.smt_encoding_path, "enum_%s.smt2" % uuid.uuid4().hex[:8])
    t0 = time.time()
    while True:
        if len(models) >= cap:
            status = "cap"
            break
        if time.time() - t0 > tout:
            status = "time"
            break
        with open(path, "w") as fh:
            fh.write("\n".join(hard_lines + blocks + ["(check-sat)", "(get-model)"]) + "\n")
        out = _run_z3(path)
        head = out.lstrip().split("\n", 1)[0].strip()
        if head == "unsat":
            break
        if head != "sat":
            status = "solver:" + out.strip().replace("\n", " ")[:300]
            break
        try:
            ids, avals = _decode_with_tool(bo, out)
        except Exception as e:  # noqa
            status = "reader:%s: %s" % (type(e).__name__, str(e)[:200])
            models.append({"ids": None, "model": out[:20000]})
            break
        models.append({"ids": ids, "avals": avals})
        eqs = ["(= t_%d %s)" % (j, _theta_term(bo, inv[i])) for j, i in enumerate(ids)]
        if not eqs:
            break
        blocks.append("(assert (not (and %s)))" % " ".join(eqs) if len(eqs) > 1 else "(assert (not %s))" % eqs[0])
    try:
        os.remove(path)
    except OSError:
        pass
    return models, status


def _encode_and_solve(st, sfs, name, cap, tout, want_objects=True):
    """Everything the check needs for one specification under the worker's option set."""
    from smt_encoding.block_optimizer import BlockOptimizer
    p = st["p"]
    res = {"name": name, "sfs": json.loads(json.dumps(sfs))}
    # 1. the emitted file, as -intermediate writes it
    try:
        bo = BlockOptimizer(name, copy.deepcopy(sfs), p, 10)
        bo.generate_intermediate_files()
        with open(bo._encoding_file) as fh:
            res["smt2"] = fh.read()
    except Exception as e:  # noqa
        res["encode_error"] = "%s: %s" % (type(e).__name__, str(e)[:300])
        return res
    # 2. the real optimisation run (soft constraints included), decoded by the tool
    try:
        bo2 = BlockOptimizer(name, copy.deepcopy(sfs), p, 10)
        outcome, _t, ids = bo2.optimize_block()
        res["outcome"] = outcome.name
        res["opt_ids"] = ids
        res["solver_head"] = (bo2._solver._model or "")[:200]
        if "PUSH" in ids:
            res["opt_avals"] = {j: bo2._solver.get_value("a_%d" % j) for j, i in enumerate(ids) if i == "PUSH"}
    except Exception as e:  # noqa
        res["outcome"] = "exception"
        res["opt_error"] = "%s: %s" % (type(e).__name__, str(e)[:300])
        res["solver_head"] = (getattr(bo2._solver, "_model", None) or "")[:300]
    # 3. all models of the hard part
    if res.get("outcome") in ("optimal", "non_optimal", "unsat", "exception"):
        try:
            models, status = _enumerate(bo, res["smt2"], cap, tout)
            res["models"], res["enum_status"] = models, status
        except Exception as e:  # noqa
            res["models"], res["enum_status"] = [], "exception:%s: %s" % (type(e).__name__, str(e)[:200])
    # 4. the constraint objects
    if want_objects:
        try:
            res["objects"] = _hard_objects(sfs, p)
        except Exception as e:  # noqa
            res["objects_error"] = "%s: %s" % (type(e).__name__, str(e)[:300])
    gasol.cleanup_process()
    return res


def _work_block(st, item):
    """item: {"kind": "block", "text":..., "cap":..., "tout":...} or {"kind": "spec", "sfs":...}."""
    import gasol_asm
    cap, tout = item.get("cap", 100), item.get("tout", 20)
    if item["kind"] == "spec":
        return [_encode_and_solve(st, item["sfs"], "hand", cap, tout)]
    block = gasol.parse_block(item["text"])
    if block.instructions_to_optimize_plain() == []:
        return []
    sfs_dict, _subl = gasol_asm.compute_original_sfs_with_simplifications(block, st["p"])
    out = []
    for name, s in sfs_dict["syrup_contract"].items():
        out.append(_encode_and_solve(st, s, name, cap, tout))
    return out
