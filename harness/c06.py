"""C06: every model of the Max-SMT hard constraints decodes to a realizing sequence; the emitted
SMT-LIB text is well formed.   (claimed PARTIAL, see `PARTIAL` below and Props/C06.v)

What is proved (Coq, unbounded):
  * Model/Smt2Proofs.v  script_wf_sound / script_wf_complete / wf_script_declared_once: the boolean
    checker `script_wf` decides an inductive well-sortedness judgement on SMT-LIB scripts.
  * Model/EncodingProofs.v  stage lemmas of `hard_sound` for the model `hard` of the constraint
    generators (see Props/C06.v for the exact list and what stays `_partial`).
What is checked on every run (this file):
  1. script_wf (vm_compute, Coq kernel) on every REAL emitted .smt2 file: specs x option sets.
  2. all models of the emitted hard constraints (enumerated with /usr/bin/z3 through blocking
     clauses on the t_j, decoded by the tool's own reader BlockOptimizer._rebuild_block_from_solver)
     are checked by the proved validator `realizes_bounded` (Val/Realizes.v, vm_compute).
  3. syntactic correspondence: the Python hard-constraint objects (FullEncoding.generate_hard_constraints)
     serialised and compared with `hard O S` computed in Coq.
A model whose decoding is rejected is the failing input.
"""
import copy
import itertools
import json
import os
import random
import re
import shutil
import subprocess
import time
import uuid

from harness import common, gasol, sfs2coq, smt2
from harness import c04

PID = "C06"
Z3 = "/usr/bin/z3"

TERMS = ["uninterpreted_uf", "uninterpreted_int", "int", "stack_vars"]
# CLI flag -> (attribute, value when the flag is given)
BOOL_FLAGS = ["-empty", "-push-basic", "-pop-uninterpreted", "-l-vars", "-order-bounds", "-order-conflicts",
              "-at-most", "-pushed-once", "-no-output-before-pop"]


def cli_opts(term, flags):
    """Option-set description (term encoding, set of BOOL_FLAGS) -> GASOL command-line options."""
    out = ["-solver", "z3", "-term-encoding", term]
    for f in flags:
        if f == "-l-vars":
            out += ["-memory-encoding", "l_vars"]
        else:
            out.append(f)
    return out


def opt_name(term, flags):
    return term + "".join("," + f.lstrip("-") for f in sorted(flags))


# quick tier: every flag at least once on and once off, every term encoding, a few interactions
QUICK_OPTION_SETS = [
    ("uninterpreted_uf", ()),
    ("uninterpreted_int", ()),
    ("int", ()),
    ("stack_vars", ()),
    ("uninterpreted_uf", ("-empty",)),
    ("int", ("-empty", "-pop-uninterpreted")),
    ("uninterpreted_uf", ("-l-vars",)),
    ("stack_vars", ("-l-vars", "-order-conflicts")),
    ("uninterpreted_uf", ("-order-bounds",)),
    ("uninterpreted_int", ("-order-bounds", "-order-conflicts")),
    ("uninterpreted_uf", ("-pop-uninterpreted",)),
    ("int", ("-push-basic",)),
    ("uninterpreted_int", ("-push-basic",)),
    ("stack_vars", ("-push-basic", "-empty")),
    ("uninterpreted_uf", ("-at-most", "-pushed-once", "-no-output-before-pop")),
    ("uninterpreted_uf", ("-push-basic",)),
]


# ---------------------------------------------------------------------------------------------
# serialisation of the Python constraint objects (canonical text compared with Encoding.show)

def ser_formula(f):
    from smt_encoding.constraints.function import ExpressionReference
    if type(f) == bool:
        return "T" if f else "F"
    if type(f) == int:
        return "i%d" % f
    if type(f) == ExpressionReference:
        args = f.arguments
        if not args:
            return str(f.func)
        return "(" + str(f.func) + " " + " ".join(ser_formula(a) for a in args) + ")"
    return "[" + f.connector_name + " " + " ".join(ser_formula(a) for a in f.arguments) + "]"


# ---------------------------------------------------------------------------------------------
# worker: front end + encoder + solver + the tool's reader

def _init(opts):
    p = gasol.setup_process(list(opts))
    return {"p": p, "opts": list(opts)}


def _hard_objects(sfs, params):
    """The hard constraints as Python objects (serialised), bounds and instruction table, obtained
    exactly as BlockOptimizer obtains them (functions_declared() runs before the generators)."""
    from smt_encoding.block_optimizer import BlockOptimizer
    from smt_encoding.constraints.function import ExpressionReference
    bo = BlockOptimizer("objs", copy.deepcopy(sfs), params, 10)
    fe = bo._full_encoding
    try:
        hard = [ser_formula(h.formula) for h in bo._solver._hard]
        err = None
    except Exception as e:  # noqa  (an add_or of nothing raises AssertionError)
        hard, err = None, "%s: %s" % (type(e).__name__, str(e)[:200])
    thetas = {}
    for th, ins in fe.theta_to_instr.items():
        thetas[th] = {"id": ins.id, "lb": fe._bounds.lower_bound_theta_value(th),
                      "ub": fe._bounds.upper_bound_theta_value(th),
                      "subset": ins.instruction_subset.name, "unique": bool(ins.unique_ui)}
    functors = []
    for ins in sfs["user_instrs"]:
        t = fe._stack_var_to_term.get(ins["outpt_sk"][0]) if ins["outpt_sk"] else None
        functors.append(str(t.func) if type(t) == ExpressionReference else "?")
    th_of = {ins.id: th for th, ins in fe.theta_to_instr.items()}
    depgraph = []
    try:
        for iid, deps in fe._dependency_graph.items():
            depgraph.append([th_of[iid], list({th_of[d] for d in deps})])
    except KeyError as e:
        depgraph = None
    from smt_encoding.complete_encoding.synthesis_pre_order import happens_before_direct
    from smt_encoding.instructions.instruction_bounds_simple import DumbInstructionBounds
    probe = happens_before_direct(0, fe._term_factory, DumbInstructionBounds(0, 3), 0, 1)
    return {"hard": hard, "err": err, "thetas": thetas, "functors": functors, "depgraph": depgraph,
            "b0": fe.b0, "bs": fe.bs, "hb_fix": probe is not None, "terminal": bool(fe._terminal),
            "first": fe._bounds.first_position_sequence, "last": fe._bounds.last_position_sequence}


def _run_z3(path, timeout=20):
    try:
        p = subprocess.run([Z3, "-smt2", path], stdout=subprocess.PIPE, stderr=subprocess.STDOUT,
                           timeout=timeout, text=True)
        return p.stdout
    except subprocess.TimeoutExpired:
        return "timeout"


def _decode_with_tool(bo, model_text):
    """The tool's own reader on a model text: (ids, a-values for the positions decoded as PUSH)."""
    bo._solver._model = model_text
    ids = bo._rebuild_block_from_solver()
    avals = {}
    for j, i in enumerate(ids):
        if i == "PUSH":
            try:
                avals[j] = bo._solver.get_value("a_%d" % j)
            except Exception as e:  # noqa
                avals[j] = None
    return ids, avals


def _theta_term(bo, th):
    return "theta_%d" % th if bo._flags.encode_terms == "uninterpreted_uf" else str(th)


class _Z3Session:
    """One interactive /usr/bin/z3 process (-in): the hard part of the emitted script is sent once,
    blocking clauses are added incrementally."""

    def __init__(self, tout):
        self.p = subprocess.Popen([Z3, "-in", "-smt2", "-T:%d" % max(1, int(tout))], stdin=subprocess.PIPE,
                                  stdout=subprocess.PIPE, stderr=subprocess.STDOUT, text=True, bufsize=1)

    def ask(self, cmds):
        try:
            self.p.stdin.write(cmds + '\n(echo "<<END>>")\n')
            self.p.stdin.flush()
        except (BrokenPipeError, OSError):
            return "timeout"
        out = []
        while True:
            line = self.p.stdout.readline()
            if not line:
                return "".join(out) + "timeout"
            if line.strip().strip('"') == "<<END>>":
                break
            out.append(line)
        return "".join(out)

    def close(self):
        try:
            self.p.stdin.close()
        except Exception:  # noqa
            pass
        try:
            self.p.kill()
        except Exception:  # noqa
            pass
        self.p.wait()


def _enumerate(bo, smt2_text, cap, tout):
    """All assignments of t_0..t_{b0-1} extendable to a model of the hard constraints (up to cap).
    The commands of the emitted file up to its assert-soft part are sent to /usr/bin/z3 verbatim;
    after each model the clause (not (and (= t_0 v_0) ...)) is added.  Every model text is decoded
    with the tool's reader."""
    fe = bo._full_encoding
    inv = {ins.id: th for th, ins in fe.theta_to_instr.items()}
    hard_lines = smt2.strip_soft(smt2_text)
    models, status = [], "complete"
    z = _Z3Session(tout)
    try:
        first = z.ask("\n".join(hard_lines))
        if first.strip():
            if "timeout" in first and "error" not in first:
                return [], "time"           # the session timed out while loading (machine under load): nothing is concluded
            return [], "solver:" + first.strip().replace("\n", " ")[:300]
        t0 = time.time()
        while True:
            if len(models) >= cap:
                status = "cap"
                break
            if time.time() - t0 > tout:
                status = "time"
                break
            out = z.ask("(check-sat)\n(get-model)")
            head = out.lstrip().split("\n", 1)[0].strip()
            if head == "unsat":
                break
            if head != "sat":
                status = ("time" if "timeout" in out else "solver:" + out.strip().replace("\n", " ")[:300])
                break
            try:
                ids, avals = _decode_with_tool(bo, out)
            except Exception as e:  # noqa
                status = "reader:%s: %s" % (type(e).__name__, str(e)[:200])
                models.append({"ids": None, "model": out[:20000]})
                break
            models.append({"ids": ids, "avals": avals})
            eqs = ["(= t_%d %s)" % (j, _theta_term(bo, inv[i])) for j, i in enumerate(ids)]
            if not eqs:
                break
            z.ask("(assert (not (and %s)))" % " ".join(eqs) if len(eqs) > 1 else "(assert (not %s))" % eqs[0])
    finally:
        z.close()
    return models, status


def _encode_and_solve(st, sfs, name, cap, tout, want_objects=True):
    """Everything the check needs for one specification under the worker's option set."""
    from smt_encoding.block_optimizer import BlockOptimizer
    p = st["p"]
    res = {"name": name, "sfs": json.loads(json.dumps(sfs))}
    # 1. the emitted file, as -intermediate writes it
    try:
        bo = BlockOptimizer(name, copy.deepcopy(sfs), p, 10)
        bo.generate_intermediate_files()
        with open(bo._encoding_file) as fh:
            res["smt2"] = fh.read()
    except Exception as e:  # noqa
        res["encode_error"] = "%s: %s" % (type(e).__name__, str(e)[:300])
        return res
    # 2. the real optimisation run (soft constraints included), decoded by the tool
    try:
        bo2 = BlockOptimizer(name, copy.deepcopy(sfs), p, 10)
        outcome, _t, ids = bo2.optimize_block()
        res["outcome"] = outcome.name
        res["opt_ids"] = ids
        res["solver_head"] = (bo2._solver._model or "")[:200]
        if "PUSH" in ids:
            res["opt_avals"] = {j: bo2._solver.get_value("a_%d" % j) for j, i in enumerate(ids) if i == "PUSH"}
    except Exception as e:  # noqa
        res["outcome"] = "exception"
        res["opt_error"] = "%s: %s" % (type(e).__name__, str(e)[:300])
        res["solver_head"] = (getattr(bo2._solver, "_model", None) or "")[:300]
    # 3. all models of the hard part
    if res.get("outcome") in ("optimal", "non_optimal", "unsat", "exception"):
        try:
            models, status = _enumerate(bo, res["smt2"], cap, tout)
            res["models"], res["enum_status"] = models, status
        except Exception as e:  # noqa
            res["models"], res["enum_status"] = [], "exception:%s: %s" % (type(e).__name__, str(e)[:200])
    # 4. the constraint objects
    if want_objects:
        try:
            res["objects"] = _hard_objects(sfs, p)
        except Exception as e:  # noqa
            res["objects_error"] = "%s: %s" % (type(e).__name__, str(e)[:300])
    gasol.cleanup_process()
    return res


def _work_block(st, item):
    """item: {"kind": "block", "text":..., "cap":..., "tout":...} or {"kind": "spec", "sfs":...}."""
    import gasol_asm
    cap, tout = item.get("cap", 100), item.get("tout", 20)
    if item["kind"] == "spec":
        return [_encode_and_solve(st, item["sfs"], "hand", cap, tout)]
    block = gasol.parse_block(item["text"])
    if block.instructions_to_optimize_plain() == []:
        return []
    sfs_dict, _subl = gasol_asm.compute_original_sfs_with_simplifications(block, st["p"])
    out = []
    for name, s in sfs_dict["syrup_contract"].items():
        out.append(_encode_and_solve(st, s, name, cap, tout))
    return out


def _work_chunk(_st, chunk):
    """One fresh worker per chunk: {"opts": cli options, "items": [...]}; the option set is installed
    in this process only (option state leaks between option sets otherwise)."""
    st = _init(chunk["opts"])
    out = []
    for it in chunk["items"]:
        t0 = time.time()
        try:
            r = _work_block(st, it)
            out.append({"item": it, "status": "ok", "subs": r, "t": time.time() - t0})
        except BaseException as e:  # noqa
            out.append({"item": it, "status": "exc", "error": "%s: %s" % (type(e).__name__, str(e)[:300]),
                        "t": time.time() - t0})
    return out


# ---------------------------------------------------------------------------------------------
# inputs

VOCAB = ["PUSH 1", "PUSH 2", "POP", "DUP1", "DUP2", "SWAP1", "SWAP2", "ADD", "SUB", "ISZERO", "MLOAD", "MSTORE",
         "SLOAD", "SSTORE", "CALLVALUE"]
TINY_VOCAB = ["PUSH 1", "POP", "DUP1", "SWAP1", "ADD"]              # exhaustive enumeration (stack/arith)
TINY_MEM_VOCAB = ["DUP1", "SWAP1", "MSTORE", "MLOAD", "POP"]        # exhaustive enumeration (memory)


def gen_blocks(rng, n, maxlen):
    out, seen = [], set()
    while len(out) < n:
        k = rng.choice([1, 2, 2, 3, 3, 3] + [4] * 4 + ([5] * 4 if maxlen >= 5 else []))
        k = min(k, maxlen)
        b = " ".join(rng.choice(VOCAB) for _ in range(k))
        if b not in seen:
            seen.add(b)
            out.append(b)
    return out


def all_blocks(vocab, maxlen):
    for k in range(1, maxlen + 1):
        for t in itertools.product(vocab, repeat=k):
            yield " ".join(t)


def hand_specs():
    """Hand-built specifications (front-end JSON format) that the front end does not produce from
    the small vocabulary: slack in init_progr_len, two dependent stores whose operands already sit
    on the stack, a load between stores, a commutative instruction with equal operands."""
    def ins(i, op, inp, out, comm=False, sto=False, gas=3):
        return {"id": i, "opcode": "00", "disasm": op, "inpt_sk": inp, "outpt_sk": out, "push": False, "gas": gas,
                "commutative": comm, "storage": sto, "size": 1}

    def spec(src, tgt, instrs, b0, bs, sto=(), mem=()):
        nv = 0
        for x in src + tgt + [y for i in instrs for y in i["inpt_sk"] + i["outpt_sk"]]:
            m = sfs2coq.VAR.match(x) if isinstance(x, str) else None
            if m:
                nv = max(nv, int(m.group(1)) + 1)
        return {"init_progr_len": b0, "max_progr_len": b0, "max_sk_sz": bs, "vars": ["s(%d)" % i for i in range(nv)],
                "src_ws": src, "tgt_ws": tgt, "user_instrs": instrs, "current_cost": sum(i["gas"] for i in instrs),
                "storage_dependences": [list(p) for p in sto], "memory_dependences": [list(p) for p in mem],
                "is_revert": False, "rules_applied": False, "rules": [], "original_instrs": "", "min_length": 0}
    s = ["s(%d)" % i for i in range(8)]
    out = []
    # two stores that may alias, operands of the SECOND one on top of the initial stack
    out.append(("stores-swapped-operands", spec([s[2], s[3], s[0], s[1]], [],
               [ins("SSTORE_0", "SSTORE", [s[0], s[1]], [], sto=True, gas=5000),
                ins("SSTORE_1", "SSTORE", [s[2], s[3]], [], sto=True, gas=5000)], 3, 4,
               sto=[("SSTORE_0", "SSTORE_1")])))
    # store, load, store on possibly aliasing addresses
    out.append(("store-load-store", spec([s[0], s[1], s[2]], [s[3]],
               [ins("MSTORE_0", "MSTORE", [s[0], s[1]], [], sto=True),
                ins("MLOAD_0", "MLOAD", [s[2]], [s[3]])], 4, 4, mem=[("MSTORE_0", "MLOAD_0")])))
    out.append(("load-then-store", spec([s[2], s[0], s[1]], [s[3]],
               [ins("MSTORE_0", "MSTORE", [s[0], s[1]], [], sto=True),
                ins("MLOAD_0", "MLOAD", [s[2]], [s[3]])], 4, 4, mem=[("MLOAD_0", "MSTORE_0")])))
    # commutative with equal operands, slack
    out.append(("comm-equal-operands", spec([s[0]], [s[1]], [ins("ADD_0", "ADD", [s[0], s[0]], [s[1]], comm=True)], 4, 3)))
    # non-commutative binary, unary chain, slack 2
    out.append(("sub-iszero", spec([s[0], s[1]], [s[3]],
               [ins("SUB_0", "SUB", [s[1], s[0]], [s[2]]), ins("ISZERO_0", "ISZERO", [s[2]], [s[3]])], 5, 3)))
    # value used twice in the target
    out.append(("dup-target", spec([s[0]], [s[1], s[1], s[0]], [ins("ISZERO_0", "ISZERO", [s[0]], [s[1]])], 4, 4)))
    # empty specification / identity
    out.append(("identity", spec([s[0], s[1]], [s[0], s[1]], [], 2, 3)))
    out.append(("swap-only", spec([s[0], s[1], s[2]], [s[2], s[1], s[0]], [], 3, 4)))
    out.append(("pop-all", spec([s[0], s[1]], [], [], 3, 2)))
    return out


def load_corpus():
    p = os.path.join(common.VERIF, "corpus", PID, "blocks.json")
    if not os.path.exists(p):
        return []
    with open(p) as fh:
        return json.load(fh)


# ---------------------------------------------------------------------------------------------
# Coq stages

CASE_HEADER = ("From Coq Require Import ZArith List String NArith.\n"
               "From GV Require Import Sym.Spec Val.Realizes Model.Smt2.\n"
               "Import ListNotations.\nOpen Scope string_scope.\n")


def run_case_files(named_bodies, timeout=900):
    """cases files in a private directory under .work (coq/Cases is shared and wiped by others)."""
    import concurrent.futures as cf
    d = os.path.join(common.WORK, "c06_cases_%d_%s" % (os.getpid(), uuid.uuid4().hex[:6]))
    os.makedirs(d, exist_ok=True)
    for n, b in named_bodies:
        with open(os.path.join(d, n + ".v"), "w") as fh:
            fh.write(b)

    def one(n):
        rc, out = common.sh("ulimit -s unlimited 2>/dev/null; timeout %d coqc -Q %s GV %s.v" % (timeout, common.COQ, n),
                            cwd=d, timeout=timeout + 30)
        return n, (rc == 0, out)
    res = {}
    try:
        with cf.ThreadPoolExecutor(max_workers=common.NCPU) as ex:
            for n, r in ex.map(one, [n for n, _ in named_bodies]):
                res[n] = r
    finally:
        shutil.rmtree(d, ignore_errors=True)
    return res


def coq_script_wf(texts, per=12):
    """texts: list of .smt2 texts -> list of verdict strings ('VOk' | 'VUnreadable n' | 'VIllFormed n' |
    'read-error: ..'), computed by the Coq kernel with Smt2.check_text."""
    res = [None] * len(texts)
    files = []
    for f0 in range(0, len(texts), per):
        it = smt2.CoqInterner()
        evs = []
        for k in range(f0, min(f0 + per, len(texts))):
            try:
                evs.append("Eval vm_compute in (%d%%nat, check_text %s)." % (k, it.script(texts[k])))
            except smt2.Smt2ReadError as e:
                res[k] = "read-error: %s" % e
        files.append(("c06wf_%d" % (f0 // per), CASE_HEADER + "\n".join(it.defs) + "\n" + "\n".join(evs) + "\n"))
    broken = []
    for name, (ok, out) in sorted(run_case_files(files).items()):
        if not ok:
            broken.append((name, out[-800:]))
            continue
        for val in c04.parse_evals(out):
            m = re.match(r"\((\d+), (V\w+(?: \d+)?)\)$", val)
            if m:
                res[int(m.group(1))] = m.group(2)
    return res, broken


def ids_for_coq(ids, avals):
    """Decoded ids -> ids the validator understands: the bare 'PUSH' of -push-basic gets the value
    of a_j (read from the same model).  Returns (ids', problem or None)."""
    out = []
    for j, i in enumerate(ids):
        if i == "PUSH":
            v = (avals or {}).get(j, (avals or {}).get(str(j)))
            m = re.fullmatch(r"\d+", v or "")
            if not m:
                return None, "a_%d has no numeral value in the model: %r" % (j, v)
            out.append("PUSH %x" % int(v))
        else:
            out.append(i)
    return out, None


def coq_realizes(groups, per=40):
    """groups: list of (sfs, [ids, ...]).  Returns list (per group) of lists of verdicts
    (None = realizes within the bounds, (pos, kind, args) otherwise, or ('format', msg))."""
    res = [[None] * len(g[1]) for g in groups]
    files = []
    for f0 in range(0, len(groups), per):
        body = [CASE_HEADER]
        for g in range(f0, min(f0 + per, len(groups))):
            sfs, seqs = groups[g]
            try:
                st, t = sfs2coq.spec_term(sfs)
            except (sfs2coq.SfsFormatError, KeyError, TypeError, ValueError) as e:
                for m in range(len(seqs)):
                    res[g][m] = ("format", "%s: %s" % (type(e).__name__, e))
                continue
            body.append("Definition S%d : spec := %s." % (g, st))
            for m, ids in enumerate(seqs):
                try:
                    it = sfs2coq.ids_term(ids, t)
                except (sfs2coq.SfsFormatError, KeyError, TypeError, ValueError) as e:
                    res[g][m] = ("format", "%s: %s" % (type(e).__name__, e))
                    continue
                res[g][m] = ("pending",)
                body.append("Eval vm_compute in (%d%%nat, %d%%nat, check_bounded S%d %s %d %d)." %
                            (g, m, g, it, max(0, int(sfs["init_progr_len"])), max(0, int(sfs["max_sk_sz"]))))
        files.append(("c06rz_%d" % (f0 // per), "\n".join(body) + "\n"))
    broken = []
    for name, (ok, out) in sorted(run_case_files(files).items()):
        if not ok:
            broken.append((name, out[-800:]))
            continue
        for val in c04.parse_evals(out):
            m = re.match(r"\((\d+), (\d+), (.*)\)$", val, re.S)
            if m:
                res[int(m.group(1))][int(m.group(2))] = sfs2coq.parse_verdict(m.group(3))
    return res, broken


# ---------------------------------------------------------------------------------------------
# the check

PARTIAL = {
    "proved_unbounded": [
        "script_wf_sound / script_wf_complete / wf_script_declared_once / has_sort_unique (Model/Smt2Proofs.v): the "
        "checker evaluated on every emitted file decides the inductive well-sortedness judgement",
        "hard_sound stages (Model/EncodingProofs.v), all option sets with o_empty = false, all term encodings, all "
        "bounds, all assignments: constructors never strengthen (mk_and/or/not/imp/eq), move, initial-stack "
        "constraints => invariant at 0 (init_inv), NOP / POP / DUPk transition => exec_step succeeds and invariant at j+1",
    ],
    "hard_sound_proved_for_option_sets": [],
    "hard_sound_not_closed": [
        "SWAPk and uninterpreted (non_comm/comm/store/pop) transitions, final stack (needs injectivity of the term "
        "assignment from the distinct constraint), decode defined (restrict_t_domain + distinct thetas), stores "
        "exactly once, order constraints (false for the code as it stands without bounds: C06-F1), the induction over "
        "positions; every -empty variant",
    ],
    "checked_per_instance_only": [
        "for EVERY option set (incl. the default): syntactic correspondence of Encoding.hard with the Python "
        "constraint objects + all models of the emitted hard constraints (z3 enumeration, tool's reader) validated by "
        "the proved validator realizes_bounded -- finite, per instance",
    ],
}


def option_sets_for(tier, rng):
    if tier == "quick":
        return list(QUICK_OPTION_SETS)
    sets = list(QUICK_OPTION_SETS)
    flags = [f for f in BOOL_FLAGS if f not in ("-at-most", "-pushed-once", "-no-output-before-pop")]
    allsets = [(t, tuple(f for f, b in zip(flags, bits) if b)) for t in TERMS
               for bits in itertools.product([0, 1], repeat=len(flags))]
    rng.shuffle(allsets)
    for s in allsets[:10]:
        if s not in sets:
            sets.append(s)
    return sets


def key_of(kind, term, flags, **kw):
    k = {"kind": kind, "term": term, "push_basic": "-push-basic" in flags, "pop_uninterpreted": "-pop-uninterpreted" in flags,
         "empty": "-empty" in flags, "memory": "l_vars" if "-l-vars" in flags else "direct",
         "order_bounds": "-order-bounds" not in flags, "order_conflicts": "-order-conflicts" not in flags}
    k.update(kw)
    return k


def collect(run, sets, blocks, specs, cap, tout, chunk_size=6, timeout=400):
    """Runs every (option set, block/spec).  Returns list of instance dicts."""
    chunks = []
    for term, flags in sets:
        opts = cli_opts(term, flags)
        items = [{"kind": "block", "text": b, "cap": cap, "tout": tout} for b in blocks]
        items += [{"kind": "spec", "sfs": s, "label": lab, "cap": cap, "tout": tout} for lab, s in specs]
        for c0 in range(0, len(items), chunk_size):
            chunks.append({"opts": opts, "term": term, "flags": list(flags), "items": items[c0:c0 + chunk_size]})
    rs = gasol.pmap(_work_chunk, chunks, timeout=timeout, fresh_each=True, mem_gb=6)
    inst, failures = [], []
    for ch, (st, val) in zip(chunks, rs):
        if st != "ok":
            failures.append({"term": ch["term"], "flags": ch["flags"], "status": st, "detail": str(val)[:300],
                             "items": [i.get("text", i.get("label")) for i in ch["items"]]})
            continue
        for r in val:
            src = r["item"].get("text", r["item"].get("label"))
            if r["status"] != "ok":
                inst.append({"term": ch["term"], "flags": tuple(ch["flags"]), "source": src, "frontend_error": r["error"]})
                continue
            for sub in r["subs"]:
                sub.update({"term": ch["term"], "flags": tuple(ch["flags"]), "source": src, "t": r["t"]})
                inst.append(sub)
    return inst, failures


def _hist(d, k, n=1):
    d[k] = d.get(k, 0) + n


class _Reporter:
    """One replay per violation class (key): the first witness is reported, the others are counted."""

    def __init__(self, run, enabled):
        self.run, self.enabled, self.seen = run, enabled, {}

    def report(self, key, what, replay, found_input=True):
        if not self.enabled:
            return
        k = json.dumps(key, sort_keys=True)
        if k in self.seen:
            self.seen[k][2] += 1
            return
        self.seen[k] = [key, (what, replay, found_input), 1]

    def flush(self):
        for key, (what, replay, found), n in self.seen.values():
            replay = dict(replay)
            replay["witnesses_of_this_class_in_the_run"] = n
            self.run.report(key=key, what="%s  [%d witness(es) of this class in the run]" % (what, n), replay=replay,
                            found_input=found)


def analyse(run_, inst, failures, report=True):
    """Stages 1 and 2 on the collected instances.  Returns a summary dict; reports violations."""
    run = _Reporter(run_, report)
    run.log = run_.log
    cov = {"instances": 0, "frontend_errors": {}, "encode_errors": {}, "smt2_files": 0, "smt2_distinct": 0,
           "smt2_verdicts": {}, "optima_checked": 0, "models_enumerated": 0, "models_checked": 0,
           "enum_status": {}, "by_option_set": {}, "by_b0": {}, "step_kinds": {}, "models_per_instance": {},
           "reader_push_without_value": 0, "rejected": {}}
    good = []
    for r in inst:
        on = opt_name(r["term"], r["flags"])
        if "frontend_error" in r:
            _hist(cov["frontend_errors"], on + " | " + r["frontend_error"][:60])
            continue
        if "encode_error" in r:
            _hist(cov["encode_errors"], on + " | " + r["encode_error"][:60])
            continue
        good.append(r)
    cov["instances"] = len(good)
    # ---- stage 1: script_wf on every emitted file (distinct texts are evaluated once)
    texts, idx = [], {}
    for r in good:
        if r["smt2"] not in idx:
            idx[r["smt2"]] = len(texts)
            texts.append(r["smt2"])
    cov["smt2_files"], cov["smt2_distinct"] = len(good), len(texts)
    t0 = time.time()
    verdicts, broken = coq_script_wf(texts, per=12 if len(texts) <= 600 else 30)
    run.log("script_wf: %d files (%d distinct) in %.0fs" % (len(good), len(texts), time.time() - t0))
    if broken:
        run.report(key={"kind": "coq-cases-failed", "stage": "script_wf"}, what="cases file failed: " + broken[0][1][-300:],
                   replay={"file": broken[0][0], "tail": broken[0][1]}, found_input=False)
    for r in good:
        v = verdicts[idx[r["smt2"]]]
        r["wf"] = v
        _hist(cov["smt2_verdicts"], str(v).split(" ")[0])
        if v != "VOk" and report:
            pos = int(v.split(" ")[1]) if v and v.startswith("V") and " " in v else None
            cmds = smt2.read_all(r["smt2"]) if not str(v).startswith("read-error") else []
            bad = smt2.show(cmds[pos])[:300] if pos is not None and pos < len(cmds) else None
            run.report(key=key_of("smt2-ill-formed", r["term"], r["flags"]),
                       what="emitted SMT-LIB script is not well formed (%s): %s ; z3 says: %s" %
                            (v, bad, (r.get("solver_head") or "")[:120].replace("\n", " ")),
                       replay={"source": r["source"], "sfs": r["sfs"], "opts": cli_opts(r["term"], r["flags"]),
                               "verdict": v, "first_bad_command": bad, "smt2": r["smt2"],
                               "cmd": "./check C06 --replay <this file>"})
    # ---- stage 2: decoded optimum and all enumerated models through realizes_bounded
    groups, meta = [], []
    for r in good:
        seqs, tags = [], []
        if r.get("outcome") in ("optimal", "non_optimal") and r.get("opt_ids") is not None:
            seqs.append((r["opt_ids"], r.get("opt_avals")))
            tags.append("optimum")
        for m in r.get("models") or []:
            if m.get("ids") is not None:
                seqs.append((m["ids"], m.get("avals")))
                tags.append("model")
        _hist(cov["enum_status"], (r.get("enum_status") or "none").split(":")[0])
        _hist(cov.setdefault("outcomes", {}), "%s %s" % (opt_name(r["term"], r["flags"]), r.get("outcome")))
        cov["models_enumerated"] += len(r.get("models") or [])
        _hist(cov["models_per_instance"], c04.bucket(len(r.get("models") or []), (0, 1, 2, 5, 10, 20, 50, 100, 200)))
        _hist(cov["by_option_set"], opt_name(r["term"], r["flags"]))
        _hist(cov["by_b0"], str(r["sfs"]["init_progr_len"]))
        conv = []
        for (ids, avals), tag in zip(seqs, tags):
            if "PUSH" in ids:
                cov["reader_push_without_value"] += 1
                if report:
                    run.report(key=key_of("reader-push-without-value", r["term"], r["flags"]),
                               what="the tool's reader returns the id 'PUSH' without the pushed value a_j: %s" % ids,
                               replay={"source": r["source"], "sfs": r["sfs"], "opts": cli_opts(r["term"], r["flags"]),
                                       "decoded": ids, "a_values": avals})
            ids2, prob = ids_for_coq(ids, avals)
            conv.append((ids2, prob, ids, tag))
            for i in ids:
                _hist(cov["step_kinds"], re.sub(r"[_\d].*$", "", i) if i not in ("NOP", "POP", "PUSH") else i)
        groups.append((r["sfs"], [c[0] if c[0] is not None else [] for c in conv]))
        meta.append((r, conv))
        st = r.get("enum_status") or ""
        if report and st.startswith("reader:"):
            run.report(key=key_of("reader-failed", r["term"], r["flags"]),
                       what="the tool's model reader failed on a model of the hard constraints: " + st,
                       replay={"source": r["source"], "sfs": r["sfs"], "opts": cli_opts(r["term"], r["flags"]),
                               "model": (r["models"][-1].get("model") if r.get("models") else None)})
        if report and st.startswith("solver:") and r.get("wf") == "VOk":
            run.report(key=key_of("solver-rejects-script", r["term"], r["flags"]),
                       what="z3 rejects a script that script_wf accepts: " + st[:200],
                       replay={"source": r["source"], "sfs": r["sfs"], "opts": cli_opts(r["term"], r["flags"]),
                               "smt2": r["smt2"]})
    t0 = time.time()
    verd, broken = coq_realizes(groups)
    run.log("realizes_bounded: %d sequences of %d instances in %.0fs" %
            (sum(len(g[1]) for g in groups), len(groups), time.time() - t0))
    if broken:
        run.report(key={"kind": "coq-cases-failed", "stage": "realizes"}, what="cases file failed: " + broken[0][1][-300:],
                   replay={"file": broken[0][0], "tail": broken[0][1]}, found_input=False)
    rejected = []
    for (r, conv), vs in zip(meta, verd):
        for (ids2, prob, ids, tag), v in zip(conv, vs):
            if tag == "optimum":
                cov["optima_checked"] += 1
            else:
                cov["models_checked"] += 1
            if prob is not None:
                v = ("format", prob)
            if v is None:
                continue
            if v == ("pending",):
                v = ("format", "no verdict printed by Coq")
            kind = v[1] if len(v) == 3 else v[0]
            _hist(cov["rejected"], "%s %s %s" % (opt_name(r["term"], r["flags"]), tag, kind))
            rejected.append((r, ids, ids2, tag, v))
            if report:
                try:
                    t = sfs2coq.build_tables(r["sfs"])
                    expl = sfs2coq.explain(v, ids2, t) if len(v) == 3 else str(v)
                except Exception:  # noqa
                    expl = str(v)
                run.report(key=key_of("optimum-not-realizing" if tag == "optimum" else "model-not-realizing",
                                      r["term"], r["flags"], err=kind),
                           what="%s decodes (tool's reader) to %s which does not realize the specification: %s [%s | %s]" %
                                ("the solver's optimum" if tag == "optimum" else "a model of the hard constraints", ids,
                                 expl, opt_name(r["term"], r["flags"]), r["source"]),
                           replay={"source": r["source"], "sfs": r["sfs"], "opts": cli_opts(r["term"], r["flags"]),
                                   "decoded": ids, "with_push_values": ids2, "verdict": list(v) if v else None,
                                   "explanation": expl, "smt2": r["smt2"],
                                   "cmd": "./check C06 --replay <this file>"})
    cov["rejected_total"] = len(rejected)
    run.flush()
    return cov, good, rejected


def sanity_across_term_encodings(good):
    """Report only: for one source and one flag set the set of decoded sequences should not depend
    on the term encoding (complete enumerations only)."""
    table = {}
    for r in good:
        if r.get("enum_status") != "complete" or "-push-basic" in r["flags"]:
            continue
        k = (r["source"], r["name"], tuple(sorted(r["flags"])))
        table.setdefault(k, {})[r["term"]] = frozenset(tuple(m["ids"]) for m in r["models"] if m.get("ids"))
    diff, same = [], 0
    for k, d in table.items():
        if len(d) < 2:
            continue
        if len(set(d.values())) == 1:
            same += 1
        else:
            diff.append({"source": k[0], "flags": list(k[2]), "counts": {t: len(v) for t, v in d.items()}})
    return {"groups_equal": same, "groups_different": len(diff), "examples": diff[:5]}


def probe_generate_pops():
    """generate_pops reuses one dict for all POP instructions (-pop-uninterpreted): probe the code."""
    try:
        r = gasol.pmap(lambda st, x: __import__("sfs_generator.gasol_optimization", fromlist=["x"]).generate_pops(x),
                       [["s(0)", "s(1)"]], init=lambda: gasol.setup_process(["-solver", "z3"]), timeout=60, procs=1)
        st, val = r[0]
        if st != "ok":
            return {"status": st, "detail": str(val)[:200]}
        return {"status": "ok", "ids": [p["id"] for p in val], "inputs": [p["inpt_sk"] for p in val]}
    except Exception as e:  # noqa
        return {"status": "error", "detail": str(e)[:200]}


def check(run):
    rng = random.Random(run.seed)
    quick = run.tier == "quick"
    ok = common.proof_stage(run, "Props/C06.v")
    if not ok:
        run.report(key={"kind": "proof-broken", "what": str(getattr(run, "proof_broken", "?"))[:80]},
                   what="proof stage failed: %s" % (getattr(run, "proof_broken", "?"),),
                   replay={"theorems": "Props/C06.v", "broken": str(getattr(run, "proof_broken", "?"))[:2000]},
                   found_input=False)
    sets = option_sets_for(run.tier, rng)
    corpus = load_corpus()
    blocks = []
    for c in corpus:
        if c["block"] not in blocks:
            blocks.append(c["block"])
    for b in gen_blocks(rng, 7 if quick else 21, 4 if quick else 5):
        if b not in blocks:
            blocks.append(b)
    specs = hand_specs()
    cap, tout = (60, 15) if quick else (200, 40)
    t0 = time.time()
    inst, failures = collect(run, sets, blocks, specs, cap, tout)
    run.log("collected %d instances from %d option sets x (%d blocks + %d hand-built specs) in %.0fs; %d chunk failures" %
            (len(inst), len(sets), len(blocks), len(specs), time.time() - t0, len(failures)))
    if not quick:
        # exhaustive part: every block of length <= 4 over TINY_VOCAB under the default option set,
        # every block of length <= 3 over TINY_MEM_VOCAB under four option sets
        tiny4 = list(all_blocks(TINY_VOCAB, 4))
        tiny3 = list(all_blocks(TINY_MEM_VOCAB, 3))
        t0 = time.time()
        i2, f2 = collect(run, [("uninterpreted_uf", ())], tiny4, [], cap, tout, chunk_size=25)
        i3, f3 = collect(run, [("uninterpreted_uf", ()), ("int", ("-empty",)), ("uninterpreted_int", ("-l-vars",)),
                               ("stack_vars", ("-order-bounds", "-order-conflicts"))], tiny3, [], cap, tout, chunk_size=25)
        run.log("exhaustive part: %d + %d instances in %.0fs" % (len(i2), len(i3), time.time() - t0))
        inst += i2 + i3
        failures += f2 + f3
        run.cov["exhaustive_part"] = {"default_option_set": {"vocabulary": TINY_VOCAB, "max_len": 4, "blocks": len(tiny4)},
                                 "four_option_sets": {"vocabulary": TINY_MEM_VOCAB, "max_len": 3, "blocks": len(tiny3)}}
    for f in failures:
        run.notes.append("chunk lost (%s): %s %s" % (f["status"], opt_name(f["term"], f["flags"]), f["items"]))
    if len(failures) > max(3, len(inst) // 50):
        run.report(key={"kind": "harness-chunks-lost"}, what="%d chunks of work were lost (timeouts/crashes)" % len(failures),
                   replay={"failures": failures[:10]}, found_input=False)
    # stage 3 (syntactic correspondence) is evaluated by Coq concurrently with stages 1 and 2
    import threading
    t0 = time.time()
    with_obj = [r for r in inst if r.get("objects") and "smt2" in r]
    seen_obj, uniq = set(), []
    for r in with_obj:                       # one evaluation per distinct (options, specification)
        k = (r["term"], r["flags"], json.dumps(r["sfs"], sort_keys=True))
        if k not in seen_obj:
            seen_obj.add(k)
            uniq.append(r)
    box = {}
    th = threading.Thread(target=lambda: box.update(corr=coq_correspondence(uniq)))
    th.start()
    cov, good, rejected = analyse(run, inst, failures)
    run.cov.update({k: v for k, v in cov.items()})
    th.join()
    corr = box.get("corr") or [("broken", "correspondence thread failed")] * len(uniq)
    stat, by_opt = {}, {}
    for r, (st, detail) in zip(uniq, corr):
        _hist(stat, st)
        if st == "agree":
            _hist(by_opt, opt_name(r["term"], r["flags"]))
        if st in ("differ", "broken"):
            run.report(key=key_of("model-differs-from-code", r["term"], r["flags"], status=st),
                       what="Model/Encoding.v `hard` and FullEncoding.generate_hard_constraints disagree (%s | %s): %s" %
                            (opt_name(r["term"], r["flags"]), r["source"], str(detail)[:300]),
                       replay={"correspondence": "Encoding.hard vs smt_encoding FullEncoding.generate_hard_constraints",
                               "source": r["source"], "sfs": r["sfs"], "opts": cli_opts(r["term"], r["flags"]),
                               "detail": detail}, found_input=False)
    run.log("correspondence: %s over %d distinct (option set, specification) in %.0fs" % (stat, len(uniq), time.time() - t0))
    run.cov["correspondence"] = {"status": stat, "agree_by_option_set": by_opt,
                                 "hb_fix_variant": sorted({bool(r["objects"].get("hb_fix")) for r in with_obj}),
                                 "objects_errors": len([r for r in good if r.get("objects_error")])}
    run.cov["sanity_term_encodings"] = sanity_across_term_encodings(good)
    run.cov["generate_pops_probe"] = probe_generate_pops()
    run.cov["evaluations"] = cov["smt2_files"] + cov["optima_checked"] + cov["models_checked"]
    run.cov["distinct_nontrivial"] = cov["smt2_distinct"] + len({(json.dumps(r["sfs"], sort_keys=True), tuple(m["ids"]))
                                                                    for r in good for m in (r.get("models") or [])
                                                                    if m.get("ids")})
    run.cov["rule"] = ("instances = (option set, specification) with specifications from the front end on corpus blocks, "
                       "random blocks over a 15-instruction vocabulary (length <= %d) and hand-built specifications; per "
                       "instance: script_wf on the emitted file (distinct = distinct text), the decoded optimum and every "
                       "enumerated model (cap %d) through realizes_bounded (distinct = distinct (spec, decoded sequence))"
                       % (4 if quick else 5, cap))
    run.cov["option_sets"] = [opt_name(t, f) for t, f in sets]
    run.cov["partial"] = PARTIAL
    run.cov["trusted_base"] += [
        "harness/smt2.py s-expression reader (atoms/lists only; commands recognised in Coq)",
        "/usr/bin/z3 4.8.12 as the model enumerator (a model it does not return is not examined; every model it "
        "returns is re-validated by the proved validator realizes_bounded)",
        "harness/sfs2coq.py (SFS JSON -> Coq spec)",
        "Val/Realizes.v as the meaning of 'realizes' (C04)",
    ]
    for r in good[:3]:
        run.add_sample({"source": r["source"], "options": opt_name(r["term"], r["flags"]), "b0": r["sfs"]["init_progr_len"],
                        "wf": r.get("wf"), "outcome": r.get("outcome"), "optimum": r.get("opt_ids"),
                        "models": len(r.get("models") or []), "enum": r.get("enum_status")})
    run.cov["distribution"] = {"by_option_set": cov["by_option_set"], "by_init_progr_len": cov["by_b0"],
                               "step_kinds": cov["step_kinds"], "models_per_instance": cov["models_per_instance"],
                               "enum_status": cov["enum_status"], "frontend_errors": cov["frontend_errors"],
                               "encode_errors": cov["encode_errors"]}


def replay(run, path):
    """Re-run one replay file against the implementation; exit code 1 when the failure persists."""
    with open(path) as fh:
        rp = json.load(fh)
    rep = rp.get("replay", {})
    key = rp.get("key", {})
    if "opts" not in rep:
        run.log("replay has no option set (kind %s): nothing to re-run" % key.get("kind"))
        return 0
    opts = rep["opts"]
    term = opts[opts.index("-term-encoding") + 1]
    flags = tuple(f for f in BOOL_FLAGS if f in opts) + (("-l-vars",) if "l_vars" in opts else ())
    src = rep.get("source")
    blocks = [src] if isinstance(src, str) and " " in src or src in VOCAB else []
    specs = [] if blocks else [("replay", rep["sfs"])]
    inst, failures = collect(run, [(term, flags)], blocks, specs, 300, 60)
    cov, good, rejected = analyse(run, inst, failures, report=False)
    kind = key.get("kind")
    again = False
    if kind == "smt2-ill-formed":
        again = any(r.get("wf") != "VOk" for r in good)
    elif kind in ("model-not-realizing", "optimum-not-realizing"):
        again = any((tag == "optimum") == (kind == "optimum-not-realizing") for _r, _i, _i2, tag, _v in rejected)
    elif kind == "reader-push-without-value":
        again = cov["reader_push_without_value"] > 0
    for r, ids, ids2, tag, v in rejected[:5]:
        run.log("rejected:", tag, ids, v)
    for r in good:
        run.log("instance:", r["source"], "wf", r.get("wf"), "outcome", r.get("outcome"), r.get("opt_ids"),
                "models", len(r.get("models") or []), r.get("enum_status"))
    run.log("replay of %s: %s" % (kind, "REPRODUCED" if again else "not reproduced"))
    return 1 if again else 0


# ---------------------------------------------------------------------------------------------
# stage 3: syntactic correspondence of the model Encoding.hard with the Python constraint objects

ENC_HEADER = ("From Coq Require Import ZArith List String NArith.\n"
              "From GV Require Import Sym.Spec Model.Encoding.\n"
              "Import ListNotations.\nOpen Scope string_scope.\n")

TERM_COQ = {"int": "EncInt", "stack_vars": "EncStackVars", "uninterpreted_uf": "EncUF", "uninterpreted_int": "EncUFInt"}


def options_term(term, flags, hb_fix):
    b = lambda x: "true" if x else "false"  # noqa
    return "(mkOpt %s %s %s %s %s %s %s)" % (TERM_COQ[term], b("-empty" in flags), b("-push-basic" in flags),
                                              b("-pop-uninterpreted" in flags), b("-l-vars" in flags),
                                              b("-order-conflicts" not in flags), b(hb_fix))


def extra_term(sfs, ob):
    n = len(ob["thetas"])
    ths = {int(k): v for k, v in ob["thetas"].items()}
    ids = "[" + "; ".join(sfs2coq.coq_string(i["id"]) for i in sfs["user_instrs"]) + "]"
    fun = "[" + "; ".join(sfs2coq.coq_string(f) for f in ob["functors"]) + "]"
    bnd = "[" + "; ".join("(%s, %s)" % (sfs2coq.z(ths[k]["lb"]), sfs2coq.z(ths[k]["ub"])) for k in range(n)) + "]"
    dg = "[" + "; ".join("(%d, [%s])" % (a, "; ".join(str(x) for x in l)) for a, l in (ob["depgraph"] or [])) + "]"
    return "(mkExtra %s %s %s %s)" % (ids, fun, bnd, dg)


def parse_canon(txt):
    """Canonical text -> tree (lists for [conn ...] and (f ...), str for atoms)."""
    toks = re.findall(r"[\[\]()]|[^\s\[\]()]+", txt)
    stack, top = [], []
    for t in toks:
        if t in "[(":
            stack.append(top)
            top = [t]
        elif t in "])":
            done, top = top, stack.pop()
            top.append(done)
        else:
            top.append(t)
    return top


def normalise(tree):
    """Order-insensitive where the Python side iterates a set: the and-list of
    each_function_is_used_at_most_once ([distinct t_k theta] conjuncts)."""
    if isinstance(tree, str):
        return tree
    kids = [normalise(k) for k in tree]
    if len(kids) > 2 and kids[0] == "[" and kids[1] == "and" and all(
            isinstance(k, list) and len(k) == 4 and k[1] == "distinct" and isinstance(k[2], str) and k[2].startswith("t_")
            for k in kids[2:]):
        kids = kids[:2] + sorted(kids[2:], key=repr)
    return kids


def coq_correspondence(insts, per=10):
    """insts: instances with 'objects'.  Returns list of (status, detail): 'agree' | 'differ' | 'skipped' | 'broken'."""
    res = [("skipped", "no objects")] * len(insts)
    files = []
    for f0 in range(0, len(insts), per):
        body = [ENC_HEADER]
        for k in range(f0, min(f0 + per, len(insts))):
            r = insts[k]
            ob = r.get("objects")
            if not ob:
                continue
            if ob.get("terminal"):
                res[k] = ("skipped", "is_revert specification (-terminal encoding is not modelled)")
                continue
            try:
                st, _t = sfs2coq.spec_term(r["sfs"])
                body.append("Definition S%d : spec := %s." % (k, st))
                body.append("Definition X%d : extra := %s." % (k, extra_term(r["sfs"], ob)))
                body.append("Definition H%d := hard %s S%d X%d." % (k, options_term(r["term"], r["flags"], ob["hb_fix"]), k, k))
                body.append('Eval vm_compute in (%d%%nat, has_err H%d, String.concat "|" (map show H%d)).' % (k, k, k))
                res[k] = ("broken", "no output")
            except (sfs2coq.SfsFormatError, KeyError, TypeError, ValueError) as e:
                res[k] = ("skipped", "format: %s" % e)
        files.append(("c06enc_%d" % (f0 // per), "\n".join(body) + "\n"))
    for name, (ok, out) in sorted(run_case_files(files).items()):
        if not ok:
            for k in range(len(insts)):
                pass
            run_tail = out[-600:]
            f0 = int(name.split("_")[1]) * per
            for k in range(f0, min(f0 + per, len(insts))):
                if res[k][0] == "broken":
                    res[k] = ("broken", run_tail)
            continue
        for val in c04.parse_evals(out):
            m = re.match(r'\((\d+), (true|false), "(.*)"\)$', val, re.S)
            if not m:
                continue
            k = int(m.group(1))
            r = insts[k]
            ob = r["objects"]
            model_err = m.group(2) == "true"
            model = [x.strip() for x in m.group(3).split("|")] if m.group(3) else []
            if ob["hard"] is None:
                res[k] = ("agree", "both raise") if model_err else ("differ", "Python raises %s, the model does not" % ob["err"])
                continue
            if model_err:
                res[k] = ("differ", "the model raises, Python does not")
                continue
            py = ob["hard"]
            a = [normalise(parse_canon(x)) for x in model]
            b = [normalise(parse_canon(x)) for x in py]
            if "-l-vars" in r["flags"]:
                a, b = sorted(a, key=repr), sorted(b, key=repr)
            if a == b:
                res[k] = ("agree", len(py))
            else:
                d = next((i for i in range(min(len(a), len(b))) if a[i] != b[i]), min(len(a), len(b)))
                res[k] = ("differ", {"index": d, "model_len": len(a), "python_len": len(b),
                                     "model": model[d] if d < len(model) and "-l-vars" not in r["flags"] else str(a[d:d + 1])[:400],
                                     "python": py[d] if d < len(py) and "-l-vars" not in r["flags"] else str(b[d:d + 1])[:400]})
    return res
