"""C07: the Max-SMT problem keeps an optimal program and prices it correctly (PARTIAL).

Proof part (Props/C07.v):
  * Model/Soft.v + SoftProofs.v: the weight dictionaries and both soft-constraint generators as data;
    `soft_prices_*`: on every decoded program (every position filled with an instruction of the
    encoding inside its window, every store exactly once) penalty = priced cost + a constant of the
    specification; refuted for the size criterion (weights capped at 5);
    the exhaustive enumerator `enum`/`opt` with completeness and minimality theorems: `opt c S L sk`
    IS the minimum cost over every realizing sequence within the bounds (alphabet stated there);
  * Model/Bounds.v + BoundsProofs.v: model of the dependency graph and of the lower/upper position
    bounds; `lb_cert_sound`: where the certificate `lb_cert S` evaluates to true, every realizing
    sequence respects the lower bounds.
Per instance (finite-domain check, NOT the general theorem), for every small specification S:
  * Coq computes the true optimum per criterion (`opt`, vm_compute);
  * the real BlockOptimizer runs with /usr/bin/z3 under every option set x criterion; the decoded
    ids are checked by `check_bounded` (Coq) and their reference cost is compared with the optimum;
    the objective z3 reports is compared with the model's `penalty` of the decoded program;
  * the assert-soft lines of the emitted .smt2 are compared with `soft c direct S bnd` and the
    bounds objects with Model/Bounds.v.
"""
import ast
import collections
import copy
import hashlib
import json
import os
import random
import re
import shutil
import time
import uuid

from harness import common, gasol, sfs2coq
from harness import c04

PID = "C07"
CRITERIA = [("gas", (), "CGas"), ("size", ("-size",), "CSize"), ("length", ("-length",), "CLength")]
F_BOUNDS, F_CONFL, F_DIRECT = "-order-bounds", "-order-conflicts", "-direct-inequalities"
NOOP_FLAGS = ("-at-most", "-pushed-once", "-no-output-before-pop")
QUICK_SETS = [(), (F_BOUNDS,), (F_CONFL,), (F_BOUNDS, F_CONFL), (F_DIRECT,), (F_DIRECT, F_BOUNDS),
              (F_DIRECT, F_CONFL), ("-at-most", "-pushed-once"), ("-no-output-before-pop",),
              (F_DIRECT, F_BOUNDS, F_CONFL) + NOOP_FLAGS]


def all_option_sets():
    out = []
    flags = (F_BOUNDS, F_CONFL, F_DIRECT) + NOOP_FLAGS
    for m in range(1 << len(flags)):
        out.append(tuple(f for i, f in enumerate(flags) if m >> i & 1))
    return out


def effective(opts):
    """The flags that the encoding reads (the three `additional constraints` switches are not read)."""
    return tuple(f for f in opts if f not in NOOP_FLAGS)


# ---------------------------------------------------------------------------------------------
# instances

SMALL_OPS = [("ADD", 2, 1), ("SUB", 2, 1), ("MUL", 2, 1), ("AND", 2, 1), ("LT", 2, 1), ("EXP", 2, 1),
             ("ISZERO", 1, 1), ("NOT", 1, 1), ("ADDMOD", 3, 1), ("CALLER", 0, 1), ("TIMESTAMP", 0, 1),
             ("CALLDATALOAD", 1, 1), ("BALANCE", 1, 1),
             ("MLOAD", 1, 1), ("SLOAD", 1, 1), ("MSTORE", 2, 0), ("SSTORE", 2, 0), ("MSTORE8", 2, 0),
             ("KECCAK256", 2, 1)]
SMALL_CONSTS = [0, 1, 2, 0x20, 0x40, 0xff, 0x1234, 0xffffffff, 0x123456789a, 2 ** 160 - 1, 2 ** 255, 2 ** 256 - 1]


def gen_small_block(rng, max_len=7, max_need=4):
    """Blocks over a small vocabulary (stack-height aware) whose specification tends to have
    init_progr_len <= 5: pushes of few constants, DUP/SWAP 1..3, POP, a few pure operations, loads
    and stores."""
    n = rng.randint(1, max_len)
    out, cur, need = [], 0, 0
    consts = rng.sample(SMALL_CONSTS, 2)

    def ok(d):
        return max(need, d - cur) <= max_need

    def emit(op, pops, pushes):
        nonlocal cur, need
        need = max(need, pops - cur)
        cur += pushes - pops
        out.append(op)
    while len(out) < n:
        r = rng.random()
        if r < 0.22:
            v = rng.choice(consts)
            emit("PUSH0" if v == 0 else "PUSH %x" % v, 0, 1)
        elif r < 0.34:
            k = rng.randint(1, 3)
            if ok(k):
                emit("DUP%d" % k, k, k + 1)
        elif r < 0.48:
            k = rng.randint(1, 3)
            if ok(k + 1):
                emit("SWAP%d" % k, k + 1, k + 1)
        elif r < 0.6:
            if ok(1):
                emit("POP", 1, 0)
        else:
            op, a, b = rng.choice(SMALL_OPS)
            if ok(a):
                emit(op, a, b)
    return out


def gen_small_spec(rng):
    """Hand-built well-formed specification with a small program-length bound: every instruction is a
    store or is reachable from the target stack, one PUSH per constant, variables s(k), source
    variables distinct.  init_progr_len in 1..5 is chosen freely (possibly infeasible)."""
    nsrc = rng.choice([0, 1, 1, 2, 2, 3, 4])
    src = ["s(%d)" % i for i in range(nsrc)]
    nxt = nsrc
    counter, instrs, values, order = {}, [], list(src), []

    def fresh():
        nonlocal nxt
        v = "s(%d)" % nxt
        nxt += 1
        return v

    def mk(op, inputs, out, comm=False, storage=False, push=False, value=None, gas=None, size=1):
        k = counter.get(op, 0)
        counter[op] = k + 1
        d = {"id": "%s_%d" % (op, k), "opcode": "00", "disasm": op, "inpt_sk": list(inputs),
             "outpt_sk": [out] if out else [], "push": push, "gas": c04.GAS.get(op, 3) if gas is None else gas,
             "commutative": comm, "storage": storage, "size": size}
        if value is not None:
            d["value"] = [value]
            d["size"] = 1 if value == 0 else 1 + max(1, (value.bit_length() + 7) // 8)
        instrs.append(d)
        order.append(d)
        return d

    def pick():
        if not values or rng.random() < 0.2:
            val = rng.choice(SMALL_CONSTS)
            for i in instrs:
                if i["push"] and i.get("value") == [val]:
                    return i["outpt_sk"][0]
            v = fresh()
            mk("PUSH", [], v, push=True, value=val)
            values.append(v)
            return v
        return rng.choice(values)
    plan = ["node"] * rng.choice([0, 1, 1, 2, 2, 3]) + ["store"] * rng.choice([0, 0, 0, 1, 1, 2])
    rng.shuffle(plan)
    for what in plan:
        if what == "store":
            mk(rng.choice(["MSTORE", "SSTORE", "MSTORE8"]), [pick(), pick()], None, storage=True)
        else:
            r = rng.random()
            v = fresh()
            if r < 0.2:
                op = rng.choice(["MLOAD", "SLOAD", "KECCAK256"])
                mk(op, [pick()] if op != "KECCAK256" else [pick(), pick()], v)
            else:
                op, ar, comm = rng.choice(c04.HB_OPS)
                mk(op, [pick() for _ in range(ar)], v, comm=comm)
            values.append(v)
    tgt = []
    for _ in range(rng.choice([0, 1, 1, 2, 2, 3])):
        if values:
            tgt.append(rng.choice(values))
    if nsrc and rng.random() < 0.4:
        keep = rng.randint(1, nsrc)
        tgt = tgt + src[nsrc - keep:]
    used = set(tgt)
    for i in instrs:
        used.update(x for x in i["inpt_sk"] if isinstance(x, str))
    for i in instrs:
        if i["outpt_sk"] and i["outpt_sk"][0] not in used:
            tgt.insert(rng.randint(0, len(tgt)), i["outpt_sk"][0])
    mem = [i["id"] for i in order if i["disasm"] in ("MSTORE", "MSTORE8", "MLOAD", "KECCAK256")]
    sto = [i["id"] for i in order if i["disasm"] in ("SSTORE", "SLOAD")]

    def deps_of(lst):
        out = []
        for a in range(len(lst)):
            for b in range(a + 1, len(lst)):
                if "STORE" not in lst[a] and "STORE" not in lst[b]:
                    continue
                if rng.random() < 0.6:
                    out.append([lst[a], lst[b]])
        return out
    md, sd = deps_of(mem), deps_of(sto)
    rng.shuffle(instrs)
    L = rng.choice([1, 2, 3, 3, 4, 4, 5, 5])
    sk = max(nsrc, len(tgt), 1) + rng.choice([1, 1, 2, 3])
    return {"init_progr_len": L, "max_progr_len": L, "max_sk_sz": sk,
            "vars": ["s(%d)" % i for i in range(nxt)], "src_ws": src, "tgt_ws": tgt, "user_instrs": instrs,
            "current_cost": sum(i["gas"] for i in instrs), "storage_dependences": sd, "memory_dependences": md,
            "dependencies": sd + md, "is_revert": False, "rules_applied": False, "rules": [],
            "original_instrs": ""}


def _init_front(opts):
    return {"p": gasol.setup_process(list(opts))}


def _front(st, text):
    import gasol_asm
    block = gasol.parse_block(text)
    if block.instructions_to_optimize_plain() == []:
        return []
    sfs_dict, _ = gasol_asm.compute_original_sfs_with_simplifications(block, st["p"])
    return [(name, json.loads(json.dumps(s))) for name, s in sfs_dict["syrup_contract"].items()]


def supported(sfs):
    """Specifications inside the modelled fragment: default encoding (PUSH uninterpreted: no integer
    operands), unique ids, not a REVERT-terminal block."""
    if sfs.get("is_revert"):
        return False
    for u in sfs["user_instrs"]:
        if any(c04._isint(x) for x in u["inpt_sk"]):
            return False
    if any(c04._isint(x) for x in sfs["tgt_ws"] + sfs["src_ws"]):
        return False
    ids = [u["id"] for u in sfs["user_instrs"]]
    return len(ids) == len(set(ids))


def collect_instances(run, rng, nblocks, nhand, lmax, skmax, front_opts=((), ("-size",))):
    inst, seen = [], set()
    stats = collections.Counter()

    def add(origin, block, sfs):
        if not supported(sfs):
            stats["unsupported"] += 1
            return
        if not (0 < sfs["init_progr_len"] <= lmax and 0 < sfs["max_sk_sz"] <= skmax):
            stats["too_large"] += 1
            return
        k = json.dumps([sfs[f] for f in ("src_ws", "tgt_ws", "user_instrs", "storage_dependences",
                                        "memory_dependences", "init_progr_len", "max_sk_sz")], sort_keys=True)
        if k in seen:
            stats["duplicate"] += 1
            return
        seen.add(k)
        inst.append({"origin": origin, "block": block, "sfs": sfs})
    for c in load_corpus():
        add("corpus", c.get("block"), c["sfs"])
    blocks, bs = [], set()
    while len(blocks) < nblocks:
        b = " ".join(gen_small_block(rng))
        if b not in bs:
            bs.add(b)
            blocks.append(b)
    for fopts in front_opts:
        rs = gasol.pmap(_front, blocks, init=_init_front, initargs=(fopts,), timeout=10, procs=min(common.NCPU, 8))
        for b, (status, val) in zip(blocks, rs):
            stats["frontend_" + status] += 1
            if status == "ok":
                for name, s in val:
                    add("frontend" + ("" if not fopts else ":" + fopts[0]), b, s)
    from harness import c16
    tries = 0
    while stats["hand_kept"] < nhand and tries < 40 * nhand:
        tries += 1
        s = gen_small_spec(rng)
        # shortest realizing sequence by the Python mirror (generation only; Coq decides later)
        w, complete = c16.search_witness(s, lmax, s["max_sk_sz"], 20000)
        if w is None:
            stats["hand_infeasible_or_unknown"] += 1
            if rng.random() < 0.9:
                continue
        else:
            s["init_progr_len"] = s["max_progr_len"] = min(lmax, max(1, len(w)) + rng.choice([0, 0, 0, 1, 1, 2]))
        n0 = len(inst)
        add("hand", None, s)
        stats["hand_kept"] += len(inst) - n0
    return inst, dict(stats)


def load_corpus():
    d = os.path.join(common.VERIF, "corpus", PID)
    out = []
    if os.path.isdir(d):
        for f in sorted(os.listdir(d)):
            if f.endswith(".json"):
                with open(os.path.join(d, f)) as fh:
                    j = json.load(fh)
                for c in (j if isinstance(j, list) else [j]):
                    if "sfs" in c:
                        out.append(c)
    return out


# ---------------------------------------------------------------------------------------------
# the implementation: BlockOptimizer + z3

SOFT_RE = re.compile(r"^\(assert-soft (.*) :weight (-?\d+) :id (\w+)\)$")
PAIR_RE = re.compile(r"t_(\d+) theta_(\d+)")


def parse_soft(lines):
    """assert-soft lines -> [(weight, position, polarity, [theta...])] in file order."""
    out = []
    for ln in lines:
        m = SOFT_RE.match(ln.strip())
        if not m:
            raise ValueError("unparsed assert-soft: " + ln[:120])
        body, w = m.group(1), int(m.group(2))
        pairs = PAIR_RE.findall(body)
        pos = set(int(a) for a, _ in pairs)
        if len(pos) != 1:
            raise ValueError("assert-soft over several positions: " + ln[:120])
        shape = re.sub(r"t_\d+ theta_\d+", "@", body)
        shape = re.sub(r"\s+", " ", shape)
        if shape == "(= @)" or re.fullmatch(r"\(or( \(= @\))+\)", shape):
            pol = True
        elif shape == "(distinct @)":
            pol = False
        else:
            raise ValueError("assert-soft of unknown shape: " + ln[:120])
        out.append((w, pos.pop(), pol, [int(b) for _, b in pairs]))
    return out


def _init_z3():
    gasol.setup_process(["-solver", "z3"])
    return {"params": {}}


def _params(st, opts, tout):
    key = (tuple(opts), tout)
    if key not in st["params"]:
        st["params"][key] = gasol.make_params(["-solver", "z3", "-tout", str(tout), "-direct-tout"] + list(opts))
    return st["params"][key]


def _smt2_body(path):
    with open(path) as fh:
        text = fh.read()
    os.remove(path)
    lines = text.splitlines()
    return lines, "\n".join(ln for ln in lines if not ln.startswith("(set-option :timeout"))


def bounds_objects(fe):
    """The dependency graph the bounds are computed from and the iteration order of the memory-only predecessors
    (number_instr_needed: sorted(set(dependent_instr_ids).difference(analyzed_instr_ids)))."""
    from smt_encoding.instructions.instruction_dependencies import generate_dependency_graph_minimum
    instrs = fe._uninterpreted_instructions
    s2id = {i.output_stack: i.id for i in instrs if i.output_stack is not None}
    dg = generate_dependency_graph_minimum(instrs, fe.mem_order, s2id)
    mo = {}
    for i in instrs:
        analyzed = set()
        for e in i.input_stack:
            if e in s2id:
                analyzed.add(s2id[e])
        # number_instr_needed traverses this set in sorted order (since fix 2b1d7c75 in /repo)
        mo[i.id] = sorted(set(dg[i.id]).difference(analyzed))
    return {"dep_graph": {k: list(v) for k, v in dg.items()}, "mem_only_order": mo}


def _z3_job(st, job):
    """job = (sfs, opts, tout, variants).  Runs the real encoder and z3 under `opts`; for every option
    set in `variants` (same flags plus switches the encoder does not read) only the .smt2 is
    generated and compared with the one solved."""
    from smt_encoding.block_optimizer import BlockOptimizer
    from smt_encoding.instructions.instruction_bounds_with_dependencies import InstructionBoundsWithDependencies
    sfs, opts, tout, variants = job
    p = _params(st, opts, tout)
    name = "b" + uuid.uuid4().hex[:10]
    bo = BlockOptimizer(name, copy.deepcopy(sfs), p, tout)
    t0 = time.time()
    outcome, _, ids = bo.optimize_block()
    wall = time.time() - t0
    lines, body = _smt2_body(bo._encoding_file)
    soft_lines = [ln for ln in lines if ln.startswith("(assert-soft")]
    fe = bo._full_encoding
    th = {t: i.id for t, i in fe.theta_to_instr.items()}
    bnds = {}
    for t, i in fe.theta_to_instr.items():
        bnds[i.id] = [fe._bounds.lower_bound_theta_value(t), fe._bounds.upper_bound_theta_value(t)]
    model = bo._solver.get_model() or ""
    mo = re.search(r"\(objectives\s*\(\s*(\w+)\s+(-?\d+)\s*\)", model)
    sha = hashlib.sha1(body.encode()).hexdigest()
    res = {"outcome": outcome.name, "ids": ids, "wall": round(wall, 3), "theta": th, "bounds": bnds,
           "soft": parse_soft(soft_lines), "n_hard": sum(1 for ln in lines if ln.startswith("(assert ")),
           "smt2_sha": sha, "objective": int(mo.group(2)) if mo else None,
           "bounds_class": type(fe._bounds).__name__, "variants": {}}
    if isinstance(fe._bounds, InstructionBoundsWithDependencies):
        res.update(bounds_objects(fe))
    for v in variants:
        pv = _params(st, v, tout)
        b2 = BlockOptimizer("v" + uuid.uuid4().hex[:10], copy.deepcopy(sfs), pv, tout)
        b2.generate_intermediate_files()
        _, body2 = _smt2_body(b2._encoding_file)
        res["variants"][" ".join(v)] = hashlib.sha1(body2.encode()).hexdigest() == sha
    return res


def z3_replay_text(sfs, opts):
    return ("cd /verif && PYTHONPATH=/repo:/verif /venv/bin/python -c \"from harness import c07; "
            "c07.replay_cli('<this file>')\"   # or: ./check C07 --replay <this file>")


# ---------------------------------------------------------------------------------------------
# Coq side

HEADER = sfs2coq.HEADER + "From GV Require Import Model.Soft Model.Bounds.\n"


def coq_z(n):
    return "(%d)%%Z" % n


def to_py(txt):
    """Coq printed value (lists, tuples, Z/nat numerals, bool, option) -> Python value."""
    t = txt.replace("%Z", "").replace("%nat", "").replace(";", ",")
    t = re.sub(r"\btrue\b", "True", t)
    t = re.sub(r"\bfalse\b", "False", t)
    return ast.literal_eval(t)


STEP_RE = re.compile(r"SPop|SNop|SDup \d+|SSwap \d+|SIns \d+|SPushC \(?-?\d+\)?(?:%Z)?")


def steps_to_ids(txt, t):
    out = []
    for m in STEP_RE.findall(txt):
        if m == "SPop":
            out.append("POP")
        elif m == "SNop":
            out.append("NOP")
        elif m.startswith("SDup"):
            out.append("DUP" + m.split()[1])
        elif m.startswith("SSwap"):
            out.append("SWAP" + m.split()[1])
        elif m.startswith("SIns"):
            out.append(t.ins_rev[int(m.split()[1])])
        else:
            out.append(m)
    return out


def bounds_table(sfs, bnds, t):
    """Python bounds {id: [lb, ub]} -> Coq table id -> (lb, ub + 1) over the user instructions."""
    ent = []
    for u in sfs["user_instrs"]:
        lb, ub = bnds[u["id"]]
        ent.append("(%d, (%d, %d))" % (t.ins[u["id"]], max(0, lb), max(0, ub + 1)))
    return "[" + "; ".join(ent) + "]"


CASES_ROOT = "CasesC07"     # private: other checks wipe coq/Cases while they run


def run_case_files(named_bodies, timeout=900):
    """Compile cases files in a private directory under coq/ (removed afterwards)."""
    import concurrent.futures as cf
    sub = os.path.join(CASES_ROOT, "r" + uuid.uuid4().hex[:8])
    d = os.path.join(common.COQ, sub)
    os.makedirs(d, exist_ok=True)
    for n, b in named_bodies:
        with open(os.path.join(d, n + ".v"), "w") as fh:
            fh.write(b)

    def one(n):
        rc, out = common.sh("ulimit -s unlimited 2>/dev/null; timeout %d coqc -Q . GV %s/%s.v" % (timeout, sub, n),
                            cwd=common.COQ, timeout=timeout + 30)
        return n, (rc == 0, out)
    res = {}
    try:
        with cf.ThreadPoolExecutor(max_workers=common.NCPU) as ex:
            for n, r in ex.map(one, [n for n, _ in named_bodies]):
                res[n] = r
    finally:
        shutil.rmtree(d, ignore_errors=True)
        try:
            os.rmdir(os.path.join(common.COQ, CASES_ROOT))
        except OSError:
            pass
    return res


def coq_eval(prefix, items, header=HEADER, per=8, timeout=900):
    """items: list of (spec_text, [(label, coq_expr_using_S)]) -- every expression may mention `S`.
    Returns (list of {label: printed value}, broken files)."""
    files = []
    for f0 in range(0, len(items), per):
        body = [header]
        for k in range(f0, min(f0 + per, len(items))):
            st, exprs = items[k]
            body.append("Module I%d.\nDefinition S : spec := %s." % (k, st))
            for lab, e in exprs:
                body.append('Eval vm_compute in (%d%%nat, "%s", (%s)).' % (k, lab, e))
            body.append("End I%d." % k)
        files.append(("%s_%d" % (prefix, f0 // per), "\n".join(body) + "\n"))
    out = run_case_files(files, timeout=timeout) if files else {}
    res = [dict() for _ in items]
    broken = []
    for name, (ok, txt) in sorted(out.items()):
        if not ok:
            broken.append((name, txt[-1500:]))
            continue
        for val in c04.parse_evals(txt):
            m = re.match(r'\((\d+), "([^"]+)", (.*)\)$', val, re.S)
            if m:
                res[int(m.group(1))][m.group(2)] = m.group(3).strip()
    return res, broken


# ---------------------------------------------------------------------------------------------
# per-instance optimum preservation + correspondences

def explain_exclusion(sfs, q, bnds):
    """Which always-on pruning constraints / windows a sequence (padded with NOPs) violates."""
    why = []
    ids = [u["id"] for u in sfs["user_instrs"]]
    stores = set(u["id"] for u in sfs["user_instrs"] if u.get("storage"))
    missing = [i for i in ids if i not in q]
    if missing:
        why.append("at-least-once:" + ",".join(missing))
    for j in range(len(q) - 1):
        if q[j + 1] == "POP" and not (q[j] == "POP" or q[j].startswith("SWAP") or q[j] in stores):
            why.append("no-output-before-pop@%d" % (j + 1))
    if bnds:
        for j, i in enumerate(q):
            if i in bnds and not (bnds[i][0] <= j <= bnds[i][1]):
                why.append("window:%s@%d not in [%d,%d]" % (i, j, bnds[i][0], bnds[i][1]))
    return why


def compare_bounds(run, it, r, stats, dist, rep, base):
    """Model/Bounds.v against the Python objects of one instance (order bounds on)."""
    s, t = it["sfs"], it["t"]
    ids = [u["id"] for u in s["user_instrs"]]
    err_runs = [z for (e, c), z in it["runs"].items() if "error" in z and F_BOUNDS not in e]
    if "bnd" not in r:
        if err_runs and "bnderr" in r:
            stats["bounds_compared"] += 1
            model_none = r["bnderr"].strip().startswith("None") or "AssertionError" in err_runs[0]["error"]
            if not model_none:
                rep({"check": "bounds-correspondence", "what": "python-raises"},
                    "InstructionBoundsWithDependencies raises (%s) where the model computes bounds" % err_runs[0]["error"],
                    dict(base, error=err_runs[0]["error"], model=r["bnderr"]))
            else:
                stats["bounds_agree"] += 1
        return
    z = it["bnd"]
    stats["bounds_compared"] += 1
    m = re.match(r"\((\[.*\]), (None|Some \[.*\]), (None|Some \[.*\]), (true|false)\)$", r["bnd"], re.S)
    if not m:
        raise RuntimeError("unparsed bounds: " + r["bnd"][:300])
    g_model = {t.ins_rev[a]: [t.ins_rev[x] for x in b] for a, b in to_py(m.group(1))}
    if g_model != z["dep_graph"]:
        rep({"check": "bounds-correspondence", "what": "dependency-graph"},
            "generate_dependency_graph_minimum differs from Model/Bounds.v",
            dict(base, model=g_model, python=z["dep_graph"]))
        return
    py = {i: z["bounds"][i] for i in ids}

    def dict_of(txt):
        if txt == "None":
            return None
        return {t.ins_rev[a]: [lo, hi] for a, (lo, hi) in to_py(txt[5:])}
    mod, mod_canon = dict_of(m.group(2)), dict_of(m.group(3))
    if mod != mod_canon:
        stats["bounds_order_dependent"] += 1
    if mod != py:
        rep({"check": "bounds-correspondence", "what": "bounds"},
            "lower/upper position bounds of InstructionBoundsWithDependencies differ from Model/Bounds.v",
            dict(base, model=mod, python=py, dep_graph=z["dep_graph"], mem_only_order=z["mem_only_order"]))
        return
    stats["bounds_agree"] += 1
    stats["bounds_entries"] += len(py)
    if any(len(v) > 1 for v in z["mem_only_order"].values()):
        stats["bounds_with_several_memory_predecessors"] += 1
    sh = "tree"
    uses = collections.Counter(x for v in z["dep_graph"].values() for x in v)
    if any(c > 1 for c in uses.values()):
        sh = "shared"
    dist["dependency_graph_shape"][sh] += 1
    dist["dependency_graph_edges"][c04.bucket(sum(len(v) for v in z["dep_graph"].values()), (0, 1, 2, 4, 8))] += 1


def check_certs(it, r, stats, dist, rep, base):
    """The per-instance certificates of Props/C07.v (C07_lb_sound_partial, C07_keeps_optimum_partial, side
    conditions of the pricing theorems) and soft_prices per instance, all evaluated by Coq."""
    if "certs" not in r:
        return
    s = it["sfs"]
    lbc, keeps, sides, offs = to_py(r["certs"])
    stats["certificates_evaluated"] += 1
    names = ("gas", "size", "length")
    if not lbc:
        rep({"check": "lower-bounds-exclude-a-realizing-sequence"},
            "lb_checked is false: some realizing sequence within the bounds places an instruction before its lower bound",
            dict(base, true_optimum=it.get("opt")))
    else:
        stats["lb_certified"] += 1
    for cname, (kb, kd) in zip(names, keeps):
        for label, ok in (("order-bounds", kb), ("no-bounds", kd)):
            stats["keeps_optimum_checked"] += 1
            if ok:
                stats["keeps_optimum_certified"] += 1
            else:
                rep({"check": "no-optimal-program-inside-windows-and-pruning", "criterion": cname, "windows": label},
                    "keeps_optimum_checked is false (%s, %s): every optimal program violates a window or a pruning constraint"
                    % (cname, label), dict(base, criterion=cname, true_optimum=it.get("opt")))
    for cname, sd in zip(names, sides):
        stats["pricing_side_conditions"] += 1
        if not all(sd):
            rep({"check": "pricing-side-condition", "criterion": cname},
                "a side condition of C07_soft_prices_* is false for this specification: (direct, grouped+bounds, grouped) = %s" % (sd,),
                dict(base, criterion=cname))
        else:
            stats["pricing_side_conditions_hold"] += 1
    big = [u["id"] for u in s["user_instrs"] if u["size"] > 5 and not u["storage"]]
    for cname, of in zip(names, offs):
        for mode, o in zip(("grouped+bounds", "direct+bounds", "grouped", "direct"), of):
            stats["price_offsets_checked"] += 1
            if len(o) > 1:
                cause = "size-weight-cap" if (cname == "size" and big) else "unknown"
                dist["price_offsets_not_constant"][cname + ":" + cause] += 1
                rep({"check": "soft-prices-instance", "criterion": cname, "cause": cause},
                    "penalty - %s cost is not constant over the realizing programs of this specification (%s): offsets %s; "
                    "instructions larger than 5 bytes: %s" % (cname, mode, o, big),
                    dict(base, criterion=cname, mode=mode, offsets=o, big_instructions=big))
            else:
                stats["price_offsets_constant"] += 1


def run_instances(run, inst, option_sets, tout, stats, dist, max_reports=6):
    """z3 phase, Coq phase, comparison.  Reports through run.report."""
    eff_sets = []
    variants = collections.defaultdict(list)
    for o in option_sets:
        e = effective(o)
        if e not in eff_sets:
            eff_sets.append(e)
        if o != e:
            variants[e].append(o)
    jobs, jidx = [], []
    for k, it in enumerate(inst):
        for e in eff_sets:
            for cname, cflags, _ in CRITERIA:
                # the switches the encoder does not read are compared (text of the .smt2) under one criterion
                jobs.append((it["sfs"], tuple(e) + tuple(cflags), tout,
                             [tuple(v) + tuple(cflags) for v in variants[e]] if cname == "gas" else []))
                jidx.append((k, e, cname))
    t0 = time.time()
    rs = gasol.pmap(_z3_job, jobs, init=_init_z3, timeout=tout * 3 + 60)
    run.log("z3 phase: %d runs of BlockOptimizer+z3 on %d instances x %d effective option sets x 3 criteria (%.0fs)"
            % (len(jobs), len(inst), len(eff_sets), time.time() - t0))
    # a solver timeout (no model / interval only) is inconclusive: retried with few processes and a
    # larger timeout; only `unsat` counts as "no model exists"
    redo = [n for n, (status, val) in enumerate(rs)
            if status in ("timeout", "crash") or (status == "ok" and val["outcome"] in ("no_model", "non_optimal"))]
    if redo:
        rs2 = gasol.pmap(_z3_job, [(jobs[n][0], jobs[n][1], 60, []) for n in redo], init=_init_z3, timeout=240, procs=4)
        for n, r2 in zip(redo, rs2):
            stats["z3_retried"] += 1
            if r2[0] == "ok":
                if rs[n][0] == "ok":
                    r2[1]["variants"] = rs[n][1]["variants"]
                rs[n] = r2
    for it in inst:
        it["runs"] = {}
    for (k, e, cname), (status, val) in zip(jidx, rs):
        stats["z3_runs"] += 1
        stats["z3_status_" + status] += 1
        if status != "ok":
            inst[k]["runs"][(e, cname)] = {"error": "%s %s" % (status, str(val)[:300])}
            continue
        inst[k]["runs"][(e, cname)] = val
        dist["outcome"][val["outcome"]] += 1
        for v, same in val["variants"].items():
            stats["noop_variants_compared"] += 1
            if not same:
                run.report({"check": "noop-flag-changes-encoding", "flags": v},
                           "the emitted .smt2 changes under flags that the encoder is believed not to read: %s" % v,
                           {"kind": "spec", "sfs": inst[k]["sfs"], "opts": v.split(), "base_opts": list(e)})
    # ---- Coq
    items = []
    for it in inst:
        s = it["sfs"]
        stxt, t = sfs2coq.spec_term(s)
        it["t"] = t
        L, sk = s["init_progr_len"], s["max_sk_sz"]
        exprs = [("opt", "opt3 S %d %d" % (L, sk)), ("wf", "wf_spec S")]
        it["qs"], it["softs"] = {}, {}
        for (e, cname), r in it["runs"].items():
            if "error" in r:
                continue
            ccoq = [c[2] for c in CRITERIA if c[0] == cname][0]
            direct = "true" if F_DIRECT in e else "false"
            tbl = bounds_table(s, r["bounds"], t)
            sk_key = (ccoq, direct, tbl)
            if sk_key not in it["softs"]:
                it["softs"][sk_key] = "soft%d" % len(it["softs"])
                exprs.append((it["softs"][sk_key], "soft_out S (soft %s %s S (table_bounds S %s))" % sk_key))
            r["soft_label"] = it["softs"][sk_key]
            if "dep_graph" in r and "bnd" not in it:
                mo = "[" + "; ".join("(%d, [%s])" % (t.ins[k], "; ".join(str(t.ins[x]) for x in v))
                                     for k, v in r["mem_only_order"].items()) + "]"
                it["bnd"] = r
                exprs.append(("bnd", "(dep_graph S, bounds_dict S %s, bounds_dict S [], no_const_inputs S)" % mo))
                exprs.append(("certs", "instance_certs S %s %d %d" % (mo, L, sk)))
            if r["ids"]:
                qk = tuple(r["ids"])
                if qk not in it["qs"]:
                    it["qs"][qk] = "q%d" % len(it["qs"])
                    exprs.append((it["qs"][qk], "(check_bounded S %s %d %d, cost3 S %s)" %
                                  (sfs2coq.ids_term(r["ids"], t), L, sk, sfs2coq.ids_term(r["ids"], t))))
                r["q_label"] = it["qs"][qk]
                r["pen_label"] = "pen_%s_%s" % (r["soft_label"], r["q_label"])
                if r["pen_label"] not in [x[0] for x in exprs]:
                    exprs.append((r["pen_label"], "penalty (soft %s %s S (table_bounds S %s)) %s" %
                                  (sk_key + (sfs2coq.ids_term(r["ids"], t),))))
        if "bnd" not in it and any("error" in z for z in it["runs"].values()):
            exprs.append(("bnderr", "bounds_dict S []"))
        items.append((stxt, exprs))
    t0 = time.time()
    res, broken = coq_eval("c07i", items, per=max(1, min(8, len(items) // common.NCPU + 1)))
    run.log("Coq phase: %d instances, %d expressions (%.0fs)" % (len(items), sum(len(x[1]) for x in items), time.time() - t0))
    for name, txt in broken:
        run.report({"check": "cases-broken", "file": name}, "cases file %s did not evaluate: %s" % (name, txt[-300:]),
                   {"file": name, "output": txt}, found_input=False)
    reported = collections.Counter()

    def rep(key, what, replay):
        cls = json.dumps(key, sort_keys=True)
        reported[cls] += 1
        if reported[cls] <= max_reports:
            run.report(key, what, replay)
    # ---- compare
    for it, r in zip(inst, res):
        s, t = it["sfs"], it["t"]
        if "opt" not in r:
            stats["instances_not_evaluated"] += 1
            continue
        stats["instances"] += 1
        L, sk = s["init_progr_len"], s["max_sk_sz"]
        m = re.match(r"\((.*), (\d+)\)$", r["opt"], re.S)
        nreal = int(m.group(2))
        opts3 = []
        for mm in re.finditer(r"None|Some \(\(?(-?\d+)\)?%Z, (\[[^\]]*\])\)", m.group(1)):
            if mm.group(0) == "None":
                opts3.append(None)
            else:
                opts3.append((int(mm.group(1)), steps_to_ids(mm.group(2), t)))
        if len(opts3) != 3:
            raise RuntimeError("unparsed opt3: " + r["opt"][:300])
        it["opt"] = dict(zip(("gas", "size", "length"), opts3))
        it["n_realizing"] = nreal
        dist["init_progr_len"][L] += 1
        dist["max_sk_sz"][sk] += 1
        dist["n_user_instrs"][len(s["user_instrs"])] += 1
        dist["realizable"][str(nreal > 0)] += 1
        dist["n_realizing_sequences"][c04.bucket(nreal, (0, 1, 2, 5, 20, 100))] += 1
        dist["origin"][it["origin"].split(":")[0]] += 1
        base = {"kind": "spec", "sfs": s, "block": it.get("block"), "origin": it["origin"],
                "cmd": "cd /verif && ./check C07 --replay <this file>"}
        costs_by_set = collections.defaultdict(dict)
        compare_bounds(run, it, r, stats, dist, rep, base)
        check_certs(it, r, stats, dist, rep, base)
        for (e, cname), z in it["runs"].items():
            if "error" in z:
                stats["encoder_errors"] += 1
                dist["encoder_error"][z["error"].split(":")[0][:40] + (" (not realizable)" if it["opt"][cname] is None else " (realizable)")] += 1
                if it["opt"][cname] is not None:
                    rep({"check": "encoder-or-solver-error", "error": z["error"].split(":")[0][:60],
                         "order_bounds": F_BOUNDS not in e},
                        "BlockOptimizer/z3 fails (%s) although %s realizes the specification within the bounds"
                        % (z["error"], it["opt"][cname][1]),
                        dict(base, opts=list(e), criterion=cname, error=z["error"], realizing_sequence=it["opt"][cname][1]))
                continue
            stats["runs_compared"] += 1
            cidx = ("gas", "size", "length").index(cname)
            o = it["opt"][cname]
            rp = dict(base, opts=list(e), criterion=cname, z3_outcome=z["outcome"], z3_ids=z["ids"],
                      z3_objective=z["objective"], bounds=z["bounds"], true_optimum=o, n_realizing=nreal)
            flags = {"order_bounds": F_BOUNDS not in e, "order_conflicts": F_CONFL not in e,
                     "direct_soft": F_DIRECT in e}
            # soft-constraint correspondence
            if z.get("soft_label") and z["soft_label"] in r:
                stats["soft_compared"] += 1
                model_soft = [(a, b, c, list(d)) for a, b, c, d in to_py(r[z["soft_label"]])]
                py_soft = [(a, b, c, list(d)) for a, b, c, d in z["soft"]]
                if model_soft != py_soft:
                    rep({"check": "soft-correspondence", "criterion": cname, "direct_soft": flags["direct_soft"]},
                        "the assert-soft lines of the emitted .smt2 differ from Model/Soft.v", 
                        dict(rp, model_soft=model_soft, python_soft=py_soft))
                else:
                    stats["soft_agree"] += 1
                    stats["soft_constraints_total"] += len(py_soft)
            if z["outcome"] == "no_model" or (z["outcome"] == "non_optimal" and not z["ids"]):
                stats["z3_inconclusive_timeout"] += 1
                continue
            if z["outcome"] == "unsat":
                dist["sat"]["unsat"] += 1
                if o is not None:
                    q = o[1] + ["NOP"] * (L - len(o[1]))
                    why = explain_exclusion(s, q, z["bounds"] if flags["order_bounds"] else None)
                    rep(dict({"check": "unsat-but-realizable"}, **flags, excluded_by=sorted(set(w.split(":")[0].split("@")[0] for w in why))),
                        "z3 reports %s but the sequence %s realizes the specification within init_progr_len=%d, "
                        "max_sk_sz=%d (constraints it violates: %s)" % (z["outcome"], o[1], L, sk, why),
                        dict(rp, realizing_sequence=o[1], violates=why))
                continue
            dist["sat"]["sat"] += 1
            q = r.get(z.get("q_label"))
            if q is None:
                continue
            mq = re.match(r"\((None|Some \(\d+, E\w+(?: \d+)*\)), (\(.*\))\)$", q, re.S)
            if not mq:
                raise RuntimeError("unparsed verdict: " + q[:300])
            costs3 = to_py(mq.group(2))
            verdict = sfs2coq.parse_verdict(mq.group(1))
            cost = int(costs3[cidx])
            if verdict is not None:
                rep({"check": "decoded-not-realizing", "error": verdict[1]},
                    "the program decoded from z3's model does not realize the specification within the bounds: %s"
                    % sfs2coq.explain(verdict, z["ids"], t), dict(rp, verdict=list(verdict)))
                continue
            stats["decoded_realizing"] += 1
            costs_by_set[cname][e] = cost
            # objective = penalty of the decoded program under the model
            if z.get("pen_label") in r and z["objective"] is not None:
                stats["objective_compared"] += 1
                pen = int(re.sub(r"[()%Z]", "", r[z["pen_label"]]))
                if pen != z["objective"]:
                    rep({"check": "objective-vs-penalty", "criterion": cname, "direct_soft": flags["direct_soft"]},
                        "z3's objective %d differs from the model's penalty %d of the decoded program" % (z["objective"], pen),
                        dict(rp, model_penalty=pen))
                else:
                    stats["objective_agree"] += 1
            if z["outcome"] == "optimal":
                stats["optimal_compared"] += 1
                if o is None or cost != o[0]:
                    better = o[1] if o else None
                    qq = (better or []) + ["NOP"] * (L - len(better or []))
                    why = explain_exclusion(s, qq, z["bounds"] if flags["order_bounds"] else None)
                    rep(dict({"check": "optimum-differs", "criterion": cname}, **flags,
                             excluded_by=sorted(set(w.split(":")[0].split("@")[0] for w in why))),
                        "criterion %s: z3 reports optimal with %s of cost %d, but %s of cost %s realizes the specification "
                        "within the bounds (constraints it violates: %s)" % (cname, z["ids"], cost, better, o[0] if o else None, why),
                        dict(rp, decoded_cost=cost, better_sequence=better, violates=why))
                else:
                    stats["optimal_agree"] += 1
            else:
                stats["non_optimal_outcomes"] += 1
        for cname, d in costs_by_set.items():
            if len(set(d.values())) > 1:
                stats["optimum_differs_between_option_sets"] += 1
    return reported


# ---------------------------------------------------------------------------------------------
# larger specifications: encoder objects only (soft constraints, bounds) + feasibility with a
# known witness

def _enc_job(st, job):
    """job = (sfs, opts).  Builds the real encoding (no solver run) and returns the parsed soft
    constraints, the bounds and the dependency graph."""
    from smt_encoding.block_optimizer import BlockOptimizer
    from smt_encoding.instructions.instruction_bounds_with_dependencies import InstructionBoundsWithDependencies
    sfs, opts = job
    p = _params(st, tuple(opts), 10)
    bo = BlockOptimizer("e" + uuid.uuid4().hex[:10], copy.deepcopy(sfs), p, 10)
    bo.generate_intermediate_files()
    lines, _ = _smt2_body(bo._encoding_file)
    fe = bo._full_encoding
    bnds = {i.id: [fe._bounds.lower_bound_theta_value(t), fe._bounds.upper_bound_theta_value(t)]
            for t, i in fe.theta_to_instr.items()}
    res = {"soft": parse_soft([ln for ln in lines if ln.startswith("(assert-soft")]), "bounds": bnds}
    if isinstance(fe._bounds, InstructionBoundsWithDependencies):
        res.update(bounds_objects(fe))
    return res


def larger_specs(run, rng, nblocks, nhand, lmin, lmax):
    """Front-end specifications of generated blocks and hand-built ones (c04's generators) above
    the exhaustive range."""
    out, seen = [], set()
    blocks = []
    while len(blocks) < nblocks:
        b = " ".join(c04.gen_block(rng, max_len=25, max_need=8))
        if b not in blocks:
            blocks.append(b)
    rs = gasol.pmap(_front, blocks, init=_init_front, initargs=((),), timeout=10)
    for b, (status, val) in zip(blocks, rs):
        if status != "ok":
            continue
        for name, s in val:
            if supported(s) and lmin <= s["init_progr_len"] <= lmax and s["max_sk_sz"] <= 17:
                k = json.dumps([s["src_ws"], s["tgt_ws"], s["user_instrs"], s["dependencies"]], sort_keys=True)
                if k not in seen:
                    seen.add(k)
                    out.append({"origin": "frontend-large", "block": b, "sfs": s})
    n = 0
    while n < nhand:
        s = c04.gen_spec(rng)
        if supported(s) and len(s["user_instrs"]) <= 12 and s["init_progr_len"] <= 60:
            s["max_sk_sz"] = min(s["max_sk_sz"], 17)
            out.append({"origin": "hand-large", "block": None, "sfs": s})
            n += 1
    return out


def encoder_correspondence(run, specs, stats, dist):
    """Soft constraints (3 criteria x grouped/direct, order bounds on) and bounds of the real encoder
    against the models on larger specifications."""
    jobs, jidx = [], []
    for k, it in enumerate(specs):
        for cname, cflags, ccoq in CRITERIA:
            for d in ((), (F_DIRECT,)):
                jobs.append((it["sfs"], tuple(d) + tuple(cflags)))
                jidx.append((k, cname, ccoq, bool(d)))
    rs = gasol.pmap(_enc_job, jobs, init=_init_z3, timeout=60)
    items = []
    per_spec = collections.defaultdict(list)
    for (k, cname, ccoq, d), (status, val) in zip(jidx, rs):
        per_spec[k].append((cname, ccoq, d, status, val))
    order = []
    for k, it in enumerate(specs):
        s = it["sfs"]
        try:
            stxt, t = sfs2coq.spec_term(s)
        except sfs2coq.SfsFormatError:
            continue
        it["t"] = t
        exprs = []
        first = None
        for cname, ccoq, d, status, val in per_spec[k]:
            if status != "ok":
                stats["large_encoder_" + status] += 1
                continue
            if first is None:
                first = val
            tbl = bounds_table(s, val["bounds"], t)
            exprs.append(("soft_%s_%s" % (cname, d), "soft_out S (soft %s %s S (table_bounds S %s))" %
                          (ccoq, "true" if d else "false", tbl)))
        if first is None:
            exprs.append(("bnderr", "bounds_dict S []"))
        elif "dep_graph" in first:
            mo = "[" + "; ".join("(%d, [%s])" % (t.ins[a], "; ".join(str(t.ins[x]) for x in v))
                                 for a, v in first["mem_only_order"].items()) + "]"
            exprs.append(("bnd", "(dep_graph S, bounds_dict S %s, bounds_dict S [], no_const_inputs S)" % mo))
            it["bnd"] = first
        it["runs"] = {}
        items.append((stxt, exprs))
        order.append(k)
    res, broken = coq_eval("c07e", items, per=2)
    for name, txt in broken:
        run.report({"check": "cases-broken", "file": name}, "cases file %s did not evaluate: %s" % (name, txt[-300:]),
                   {"file": name, "output": txt}, found_input=False)
    reported = collections.Counter()

    def rep(key, what, replay):
        cls = json.dumps(key, sort_keys=True)
        reported[cls] += 1
        if reported[cls] <= 4:
            run.report(key, what, replay)
    for k, r in zip(order, res):
        it = specs[k]
        s = it["sfs"]
        base = {"kind": "spec", "sfs": s, "block": it.get("block"), "origin": it["origin"],
                "cmd": "cd /verif && ./check C07 --replay <this file>"}
        if not r:
            continue
        stats["large_specs"] += 1
        dist["large_init_progr_len"][c04.bucket(s["init_progr_len"], (5, 10, 20, 40))] += 1
        dist["large_n_user_instrs"][c04.bucket(len(s["user_instrs"]), (2, 4, 8, 12))] += 1
        for cname, ccoq, d, status, val in per_spec[k]:
            lab = "soft_%s_%s" % (cname, d)
            if status != "ok" or lab not in r:
                continue
            stats["soft_compared"] += 1
            model_soft = [(a, b, c, list(e)) for a, b, c, e in to_py(r[lab])]
            py_soft = [(a, b, c, list(e)) for a, b, c, e in val["soft"]]
            if model_soft != py_soft:
                rep({"check": "soft-correspondence", "criterion": cname, "direct_soft": d},
                    "the assert-soft lines of the emitted .smt2 differ from Model/Soft.v",
                    dict(base, criterion=cname, opts=[F_DIRECT] if d else [], model_soft=model_soft[:40], python_soft=py_soft[:40]))
            else:
                stats["soft_agree"] += 1
                stats["soft_constraints_total"] += len(py_soft)
        if "bnd" in it:
            compare_bounds(run, it, r, stats, dist, rep, base)
        elif "bnderr" in r:
            it["runs"] = {((), "gas"): {"error": str(per_spec[k][0][4])}}
            compare_bounds(run, it, r, stats, dist, rep, base)


def larger_feasibility(run, specs, nmax, stats, dist):
    """Larger specifications with a known witness (the sub-block's own instructions, confirmed by Coq):
    the hard constraints must be satisfiable, the decoded program must realize the specification and,
    when z3 reports optimal, must not cost more than the witness."""
    from harness import c16
    cand = []
    for it in specs:
        s = it["sfs"]
        if it["origin"] != "frontend-large" or not (6 <= s["init_progr_len"] <= 12):
            continue
        w = c16.orig_to_ids(s)
        if w is not None and c04.sym_check(s, w, s["init_progr_len"], s["max_sk_sz"]) is None:
            cand.append((it, w))
        if len(cand) >= nmax:
            break
    jobs = [(it["sfs"], tuple(cf), 10, []) for it, w in cand for _, cf, _ in CRITERIA[:2]]
    rs = gasol.pmap(_z3_job, jobs, init=_init_z3, timeout=90)
    items = []
    for k, (it, w) in enumerate(cand):
        s = it["sfs"]
        stxt, t = sfs2coq.spec_term(s)
        L, sk = s["init_progr_len"], s["max_sk_sz"]
        exprs = [("w", "(check_bounded S %s %d %d, cost3 S %s)" % (sfs2coq.ids_term(w, t), L, sk, sfs2coq.ids_term(w, t)))]
        for c in range(2):
            st, z = rs[2 * k + c]
            if st == "ok" and z["ids"]:
                exprs.append(("z%d" % c, "(check_bounded S %s %d %d, cost3 S %s)" %
                              (sfs2coq.ids_term(z["ids"], t), L, sk, sfs2coq.ids_term(z["ids"], t))))
        items.append((stxt, exprs))
    res, broken = coq_eval("c07f", items, per=4)
    for name, txt in broken:
        run.report({"check": "cases-broken", "file": name}, "cases file %s did not evaluate: %s" % (name, txt[-300:]),
                   {"file": name, "output": txt}, found_input=False)

    def parse(v):
        m = re.match(r"\((None|Some \(\d+, E\w+(?: \d+)*\)), (\(.*\))\)$", v, re.S)
        return sfs2coq.parse_verdict(m.group(1)), to_py(m.group(2))
    for k, ((it, w), r) in enumerate(zip(cand, res)):
        s = it["sfs"]
        if "w" not in r:
            continue
        vw, cw = parse(r["w"])
        if vw is not None:
            continue                      # the mirror accepted a witness Coq rejects: not a witness
        stats["large_with_witness"] += 1
        dist["large_witness_init_progr_len"][s["init_progr_len"]] += 1
        for c, (cname, cflags, _) in enumerate(CRITERIA[:2]):
            st, z = rs[2 * k + c]
            base = {"kind": "spec", "sfs": s, "block": it.get("block"), "origin": it["origin"], "opts": [], "criterion": cname,
                    "witness": w, "cmd": "cd /verif && ./check C07 --replay <this file>"}
            if st != "ok":
                stats["large_z3_" + st] += 1
                if st == "exc":
                    run.report({"check": "encoder-or-solver-error", "error": str(z).split(":")[0][:60], "order_bounds": True},
                               "BlockOptimizer/z3 fails (%s) although the sub-block's own instructions realize the specification" % str(z)[:200],
                               dict(base, error=str(z)))
                continue
            stats["large_z3_runs"] += 1
            dist["large_outcome"][z["outcome"]] += 1
            if z["outcome"] == "unsat" or (z["outcome"] == "no_model" and False):
                run.report({"check": "unsat-but-realizable", "order_bounds": True, "order_conflicts": True, "direct_soft": False,
                            "excluded_by": sorted(set(x.split(":")[0].split("@")[0] for x in explain_exclusion(s, w + ["NOP"] * (s["init_progr_len"] - len(w)), z["bounds"])))},
                           "z3 reports unsat but the sub-block's own instructions %s realize the specification within the bounds" % w,
                           dict(base, z3_outcome=z["outcome"], bounds=z["bounds"], realizing_sequence=w))
                continue
            if "z%d" % c in r:
                vz, cz = parse(r["z%d" % c])
                if vz is not None:
                    run.report({"check": "decoded-not-realizing", "error": vz[1]},
                               "the program decoded from z3's model does not realize the specification within the bounds",
                               dict(base, z3_ids=z["ids"], verdict=list(vz)))
                elif z["outcome"] == "optimal" and cz[c] > cw[c]:
                    run.report({"check": "optimum-differs", "criterion": cname, "order_bounds": True, "order_conflicts": True,
                                "direct_soft": False, "excluded_by": ["larger-instance"]},
                               "z3 reports optimal with cost %d but the witness costs %d" % (cz[c], cw[c]),
                               dict(base, z3_ids=z["ids"], decoded_cost=cz[c], witness_cost=cw[c]))
                else:
                    stats["large_feasible_and_realizing"] += 1


# ---------------------------------------------------------------------------------------------

def check(run):
    rng = random.Random(run.seed + 7)
    ok = common.proof_stage(run, "Props/C07.v")
    if not ok:
        run.report({"kind": "proof-broken", "what": str(run.proof_broken)[:200]},
                   "the proofs of Props/C07.v no longer check: %s" % (str(run.proof_broken)[:300]),
                   {"theorem": "Props/C07.v", "detail": str(run.proof_broken)[:2000],
                    "cmd": "cd /verif/coq && make Props/C07.vo"}, found_input=False)
    thorough = run.tier == "thorough"
    lmax = 5 if thorough else 4
    nblocks, nhand = (200, 120) if thorough else (50, 22)
    option_sets = all_option_sets() if thorough else QUICK_SETS
    stats = collections.Counter()
    dist = collections.defaultdict(collections.Counter)
    t0 = time.time()
    if thorough:
        inst, cst = collect_instances(run, rng, nblocks, nhand, lmax, 7)
        inst = inst[:260]
    else:                                 # one front-end pass; a few instances at the thorough bound as well
        allinst, cst = collect_instances(run, rng, nblocks, nhand, 5, 7, front_opts=((),))
        small = [i for i in allinst if i["sfs"]["init_progr_len"] <= 4]
        inst = small[:36] + [i for i in allinst if i["sfs"]["init_progr_len"] == 5][:6]
    run.log("instances: %d (init_progr_len <= %d, max_sk_sz <= 7) from %s (%.0fs)" % (len(inst), lmax, cst, time.time() - t0))
    run_instances(run, inst, option_sets, 10, stats, dist)
    t0 = time.time()
    specs = larger_specs(run, rng, 120 if thorough else 24, 80 if thorough else 8, 6, 40)
    encoder_correspondence(run, specs, stats, dist)
    run.log("larger specifications: %d, encoder objects against the models (%.0fs)" % (len(specs), time.time() - t0))
    t0 = time.time()
    larger_feasibility(run, specs, 24 if thorough else 5, stats, dist)
    run.log("larger specifications with a witness: %d, %d z3 runs (%.0fs)" % (stats["large_with_witness"], stats["large_z3_runs"], time.time() - t0))
    # ---- evidence
    nopt = stats["optimal_compared"]
    run.cov["evaluations"] = stats["runs_compared"] + stats["soft_compared"] + stats["bounds_compared"]
    run.cov["distinct_nontrivial"] = sum(1 for i in inst if i.get("n_realizing", 0) > 0 and i["sfs"]["init_progr_len"] >= 2)
    run.cov["rule"] = (
        "instances: distinct small specifications (front end on generated blocks over a small vocabulary under default "
        "and -size rules; hand-built well-formed specifications; corpus), init_progr_len <= %d, max_sk_sz <= 7; "
        "one evaluation = one run of the real BlockOptimizer+z3 on (instance, option set, criterion) compared with the "
        "Coq-computed optimum, or one soft-constraint list / bounds dictionary compared with the model; non-trivial = "
        "realizable instance with init_progr_len >= 2 (distinct by canonical JSON)" % max([i["sfs"]["init_progr_len"] for i in inst] or [0]))
    run.cov["exhaustive_part"] = {
        "what": "for every instance Coq enumerates (vm_compute of Model/Soft.v:opt3) EVERY sequence of length <= init_progr_len over "
                "the alphabet POP, DUP1..DUP(sk-1), SWAP1..SWAP(sk-1), all user-instruction ids (NOP = padding) that runs "
                "within max_sk_sz and realizes the specification; completeness and minimality are theorems "
                "(C07_enum_complete, C07_opt_is_minimum)",
        "instances": stats["instances"],
        "bound_init_progr_len": max([i["sfs"]["init_progr_len"] for i in inst] or [0]),
        "instances_per_init_progr_len": {str(k): v for k, v in sorted(dist["init_progr_len"].items())},
        "bound_max_sk_sz": 7,
        "enumerations": stats["instances"],
        "option_sets": len(option_sets), "effective_option_sets": len(set(effective(o) for o in option_sets)),
        "criteria": 3, "z3_runs": stats["z3_runs"], "noop_flag_variants_with_identical_smt2": stats["noop_variants_compared"],
        "optimal_outcomes_compared_with_true_optimum": nopt, "agreeing": stats["optimal_agree"]}
    run.cov["partial"] = {
        "proved": ["soft_prices (gas, length; size when no instruction is larger than 5 bytes) for both soft-constraint generators and arbitrary windows",
                   "soft_prices_size refuted (weights min(size,5))",
                   "enum_complete / opt_is_minimum: the Coq enumerator computes the true optimum of an instance",
                   "lb_cert_sound: certified lower bounds are respected by every realizing sequence"],
        "checked_per_instance_only": ["hard constraints satisfiable when realizable", "Max-SMT optimum = true optimum for every option set and criterion",
                                      "upper bounds / pruning constraints keep an optimal program (ub_keeps_optimum is NOT proved)",
                                      "lower bounds outside the certified class"],
        "not_covered": ["-push-basic, -pop-uninterpreted, -memory-encoding l_vars, -term-encoding variants, -empty, REVERT-terminal blocks",
                        "instances with init_progr_len > %d: only model correspondence" % lmax]}
    d = {k: {str(a): b for a, b in v.items()} for k, v in dist.items()}
    d["stats"] = dict(stats)
    d["collect"] = cst
    run.cov["distribution"] = d
    for it in inst[:6]:
        run.add_sample({"origin": it["origin"], "block": it.get("block"), "src_ws": it["sfs"]["src_ws"], "tgt_ws": it["sfs"]["tgt_ws"],
                        "ids": [u["id"] for u in it["sfs"]["user_instrs"]], "init_progr_len": it["sfs"]["init_progr_len"],
                        "max_sk_sz": it["sfs"]["max_sk_sz"], "true_optimum": it.get("opt"),
                        "z3": {" ".join(e) + "|" + c: [z.get("outcome"), z.get("ids")] for (e, c), z in list(it.get("runs", {}).items())[:3]}})
    run.log("stats: %s" % dict(stats))


def replay(run, path):
    """Re-runs one replay file: the real encoder + z3 on the stored specification and options, the
    Coq optimum, and the comparison."""
    with open(path) as fh:
        j = json.load(fh)
    rp = j.get("replay", j)
    if rp.get("kind") != "spec" or "sfs" not in rp:
        print("replay names a broken proof obligation:", rp.get("theorem") or rp.get("file"))
        ok = common.proof_stage(run, "Props/C07.v")
        return 0 if ok else 1

    class R2:
        def __init__(self):
            self.reports = []

        def log(self, *a):
            print(*a, flush=True)

        def report(self, key, what, replay, found_input=True):
            self.reports.append((key, what))
            print("FAILS:", key, "\n   ", what[:700])
    r2 = R2()
    s = rp["sfs"]
    inst = [{"origin": rp.get("origin", "replay"), "block": rp.get("block"), "sfs": s}]
    opts = tuple(o for o in rp.get("opts", []) if o not in ("-size", "-length"))   # criteria are all run
    stats, dist = collections.Counter(), collections.defaultdict(collections.Counter)
    print("specification: src_ws=%s tgt_ws=%s init_progr_len=%s max_sk_sz=%s" % (s["src_ws"], s["tgt_ws"], s["init_progr_len"], s["max_sk_sz"]))
    for u in s["user_instrs"]:
        print("   ", u["id"], u["inpt_sk"], "->", u["outpt_sk"], "gas", u["gas"], "size", u["size"], "storage" if u["storage"] else "")
    print("dependencies:", s.get("storage_dependences"), s.get("memory_dependences"))
    if s["init_progr_len"] <= 7:
        run_instances(r2, inst, [opts, ()], 20, stats, dist)
        it = inst[0]
        print("true optimum per criterion (Coq, exhaustive):", it.get("opt"), "realizing sequences:", it.get("n_realizing"))
        for (e, c), z in it["runs"].items():
            print("  options %s criterion %s: %s" % (list(e), c, {k: z.get(k) for k in ("outcome", "ids", "objective", "error")}))
    encoder_correspondence(r2, inst, stats, dist)
    print("stats:", dict(stats))
    return 1 if r2.reports else 0
