"""C07: the Max-SMT problem keeps an optimal program and prices it correctly (PARTIAL).

Proof part (Props/C07.v):
  * Model/Soft.v + SoftProofs.v: the weight dictionaries and both soft-constraint generators as data;
    `soft_prices_*`: on every decoded program (every position filled with an instruction of the
    encoding inside its window, every store exactly once) penalty = priced cost + a constant of the
    specification; refuted for the size criterion (weights capped at 5);
    the exhaustive enumerator `enum`/`opt` with completeness and minimality theorems: `opt c S L sk`
    IS the minimum cost over every realizing sequence within the bounds (alphabet stated there);
  * Model/Bounds.v + BoundsProofs.v: model of the dependency graph and of the lower/upper position
    bounds; `lb_cert_sound`: where the certificate `lb_cert S` evaluates to true, every realizing
    sequence respects the lower bounds.
Per instance (finite-domain check, NOT the general theorem), for every small specification S:
  * Coq computes the true optimum per criterion (`opt`, vm_compute);
  * the real BlockOptimizer runs with /usr/bin/z3 under every option set x criterion; the decoded
    ids are checked by `check_bounded` (Coq) and their reference cost is compared with the optimum;
    the objective z3 reports is compared with the model's `penalty` of the decoded program;
  * the assert-soft lines of the emitted .smt2 are compared with `soft c direct S bnd` and the
    bounds objects with Model/Bounds.v.
"""
import ast
import collections
import copy
import hashlib
import json
import os
import random
import re
import shutil
import time
import uuid

from harness import common, gasol, sfs2coq
from harness import c04

PID = "C07"
CRITERIA = [("gas", (), "CGas"), ("size", ("-size",), "CSize"), ("length", ("-length",), "CLength")]
F_BOUNDS, F_CONFL, F_DIRECT = "-order-bounds", "-order-conflicts", "-direct-inequalities"
NOOP_FLAGS = ("-at-most", "-pushed-once", "-no-output-before-pop")
QUICK_SETS = [(), (F_BOUNDS,), (F_CONFL,), (F_BOUNDS, F_CONFL), (F_DIRECT,), (F_DIRECT, F_BOUNDS),
              (F_DIRECT, F_CONFL), ("-at-most", "-pushed-once"), ("-no-output-before-pop",),
              (F_DIRECT, F_BOUNDS, F_CONFL) + NOOP_FLAGS]


def all_option_sets():
    out = []
    flags = (F_BOUNDS, F_CONFL, F_DIRECT) + NOOP_FLAGS
    for m in range(1 << len(flags)):
        out.append(tuple(f for i, f in enumerate(flags) if m >> i & 1))
    return out


def effective(opts):
    """The flags that the encoding reads (the three `additional constraints` switches are not read)."""
    return tuple(f for f in opts if f not in NOOP_FLAGS)


# ---------------------------------------------------------------------------------------------
# instances

SMALL_OPS = [("ADD", 2, 1), ("SUB", 2, 1), ("MUL", 2, 1), ("AND", 2, 1), ("LT", 2, 1), ("EXP", 2, 1),
             ("ISZERO", 1, 1), ("NOT", 1, 1), ("ADDMOD", 3, 1), ("CALLER", 0, 1), ("TIMESTAMP", 0, 1),
             ("CALLDATALOAD", 1, 1), ("BALANCE", 1, 1),
             ("MLOAD", 1, 1), ("SLOAD", 1, 1), ("MSTORE", 2, 0), ("SSTORE", 2, 0), ("MSTORE8", 2, 0),
             ("KECCAK256", 2, 1)]
SMALL_CONSTS = [0, 1, 2, 0x20, 0x40, 0xff, 0x1234, 0xffffffff, 0x123456789a, 2 ** 160 - 1, 2 ** 255, 2 ** 256 - 1]


def gen_small_block(rng, max_len=7, max_need=4):
    """Blocks over a small vocabulary (stack-height aware) whose specification tends to have
    init_progr_len <= 5: pushes of few constants, DUP/SWAP 1..3, POP, a few pure operations, loads
    and stores."""
    n = rng.randint(1, max_len)
    out, cur, need = [], 0, 0
    consts = rng.sample(SMALL_CONSTS, 2)

    def ok(d):
        return max(need, d - cur) <= max_need

    def emit(op, pops, pushes):
        nonlocal cur, need
        need = max(need, pops - cur)
        cur += pushes - pops
        out.append(op)
    while len(out) < n:
        r = rng.random()
        if r < 0.22:
            v = rng.choice(consts)
            emit("PUSH0" if v == 0 else "PUSH %x" % v, 0, 1)
        elif r < 0.34:
            k = rng.randint(1, 3)
            if ok(k):
                emit("DUP%d" % k, k, k + 1)
        elif r < 0.48:
            k = rng.randint(1, 3)
            if ok(k + 1):
                emit("SWAP%d" % k, k + 1, k + 1)
        elif r < 0.6:
            if ok(1):
                emit("POP", 1, 0)
        else:
            op, a, b = rng.choice(SMALL_OPS)
            if ok(a):
                emit(op, a, b)
    return out


def gen_small_spec(rng):
    """Hand-built well-formed specification with a small program-length bound: every instruction is a
    store or is reachable from the target stack, one PUSH per constant, variables s(k), source
    variables distinct.  init_progr_len in 1..5 is chosen freely (possibly infeasible)."""
    nsrc = rng.choice([0, 1, 1, 2, 2, 3, 4])
    src = ["s(%d)" % i for i in range(nsrc)]
    nxt = nsrc
    counter, instrs, values, order = {}, [], list(src), []

    def fresh():
        nonlocal nxt
        v = "s(%d)" % nxt
        nxt += 1
        return v

    def mk(op, inputs, out, comm=False, storage=False, push=False, value=None, gas=None, size=1):
        k = counter.get(op, 0)
        counter[op] = k + 1
        d = {"id": "%s_%d" % (op, k), "opcode": "00", "disasm": op, "inpt_sk": list(inputs),
             "outpt_sk": [out] if out else [], "push": push, "gas": c04.GAS.get(op, 3) if gas is None else gas,
             "commutative": comm, "storage": storage, "size": size}
        if value is not None:
            d["value"] = [value]
            d["size"] = 1 if value == 0 else 1 + max(1, (value.bit_length() + 7) // 8)
        instrs.append(d)
        order.append(d)
        return d

    def pick():
        if not values or rng.random() < 0.2:
            val = rng.choice(SMALL_CONSTS)
            for i in instrs:
                if i["push"] and i.get("value") == [val]:
                    return i["outpt_sk"][0]
            v = fresh()
            mk("PUSH", [], v, push=True, value=val)
            values.append(v)
            return v
        return rng.choice(values)
    plan = ["node"] * rng.choice([0, 1, 1, 2, 2, 3]) + ["store"] * rng.choice([0, 0, 0, 1, 1, 2])
    rng.shuffle(plan)
    for what in plan:
        if what == "store":
            mk(rng.choice(["MSTORE", "SSTORE", "MSTORE8"]), [pick(), pick()], None, storage=True)
        else:
            r = rng.random()
            v = fresh()
            if r < 0.2:
                op = rng.choice(["MLOAD", "SLOAD", "KECCAK256"])
                mk(op, [pick()] if op != "KECCAK256" else [pick(), pick()], v)
            else:
                op, ar, comm = rng.choice(c04.HB_OPS)
                mk(op, [pick() for _ in range(ar)], v, comm=comm)
            values.append(v)
    tgt = []
    for _ in range(rng.choice([0, 1, 1, 2, 2, 3])):
        if values:
            tgt.append(rng.choice(values))
    if nsrc and rng.random() < 0.4:
        keep = rng.randint(1, nsrc)
        tgt = tgt + src[nsrc - keep:]
    used = set(tgt)
    for i in instrs:
        used.update(x for x in i["inpt_sk"] if isinstance(x, str))
    for i in instrs:
        if i["outpt_sk"] and i["outpt_sk"][0] not in used:
            tgt.insert(rng.randint(0, len(tgt)), i["outpt_sk"][0])
    mem = [i["id"] for i in order if i["disasm"] in ("MSTORE", "MSTORE8", "MLOAD", "KECCAK256")]
    sto = [i["id"] for i in order if i["disasm"] in ("SSTORE", "SLOAD")]

    def deps_of(lst):
        out = []
        for a in range(len(lst)):
            for b in range(a + 1, len(lst)):
                if "STORE" not in lst[a] and "STORE" not in lst[b]:
                    continue
                if rng.random() < 0.6:
                    out.append([lst[a], lst[b]])
        return out
    md, sd = deps_of(mem), deps_of(sto)
    rng.shuffle(instrs)
    L = rng.choice([1, 2, 3, 3, 4, 4, 5, 5])
    sk = max(nsrc, len(tgt), 1) + rng.choice([1, 1, 2, 3])
    return {"init_progr_len": L, "max_progr_len": L, "max_sk_sz": sk,
            "vars": ["s(%d)" % i for i in range(nxt)], "src_ws": src, "tgt_ws": tgt, "user_instrs": instrs,
            "current_cost": sum(i["gas"] for i in instrs), "storage_dependences": sd, "memory_dependences": md,
            "dependencies": sd + md, "is_revert": False, "rules_applied": False, "rules": [],
            "original_instrs": ""}


def _init_front(opts):
    return {"p": gasol.setup_process(list(opts))}


def _front(st, text):
    import gasol_asm
    block = gasol.parse_block(text)
    if block.instructions_to_optimize_plain() == []:
        return []
    sfs_dict, _ = gasol_asm.compute_original_sfs_with_simplifications(block, st["p"])
    return [(name, json.loads(json.dumps(s))) for name, s in sfs_dict["syrup_contract"].items()]


def supported(sfs):
    """Specifications inside the modelled fragment: default encoding (PUSH uninterpreted: no integer
    operands), unique ids, not a REVERT-terminal block."""
    if sfs.get("is_revert"):
        return False
    for u in sfs["user_instrs"]:
        if any(c04._isint(x) for x in u["inpt_sk"]):
            return False
    if any(c04._isint(x) for x in sfs["tgt_ws"] + sfs["src_ws"]):
        return False
    ids = [u["id"] for u in sfs["user_instrs"]]
    return len(ids) == len(set(ids))


def collect_instances(run, rng, nblocks, nhand, lmax, skmax):
    inst, seen = [], set()
    stats = collections.Counter()

    def add(origin, block, sfs):
        if not supported(sfs):
            stats["unsupported"] += 1
            return
        if not (0 < sfs["init_progr_len"] <= lmax and 0 < sfs["max_sk_sz"] <= skmax):
            stats["too_large"] += 1
            return
        k = json.dumps([sfs[f] for f in ("src_ws", "tgt_ws", "user_instrs", "storage_dependences",
                                        "memory_dependences", "init_progr_len", "max_sk_sz")], sort_keys=True)
        if k in seen:
            stats["duplicate"] += 1
            return
        seen.add(k)
        inst.append({"origin": origin, "block": block, "sfs": sfs})
    for c in load_corpus():
        add("corpus", c.get("block"), c["sfs"])
    blocks, bs = [], set()
    while len(blocks) < nblocks:
        b = " ".join(gen_small_block(rng))
        if b not in bs:
            bs.add(b)
            blocks.append(b)
    for fopts in ((), ("-size",)):
        rs = gasol.pmap(_front, blocks, init=_init_front, initargs=(fopts,), timeout=10)
        for b, (status, val) in zip(blocks, rs):
            stats["frontend_" + status] += 1
            if status == "ok":
                for name, s in val:
                    add("frontend" + ("" if not fopts else ":" + fopts[0]), b, s)
    for _ in range(nhand):
        add("hand", None, gen_small_spec(rng))
    return inst, dict(stats)


def load_corpus():
    d = os.path.join(common.VERIF, "corpus", PID)
    out = []
    if os.path.isdir(d):
        for f in sorted(os.listdir(d)):
            if f.endswith(".json"):
                with open(os.path.join(d, f)) as fh:
                    j = json.load(fh)
                for c in (j if isinstance(j, list) else [j]):
                    if "sfs" in c:
                        out.append(c)
    return out


# ---------------------------------------------------------------------------------------------
# the implementation: BlockOptimizer + z3

SOFT_RE = re.compile(r"^\(assert-soft (.*) :weight (-?\d+) :id (\w+)\)$")
PAIR_RE = re.compile(r"t_(\d+) theta_(\d+)")


def parse_soft(lines):
    """assert-soft lines -> [(weight, position, polarity, [theta...])] in file order."""
    out = []
    for ln in lines:
        m = SOFT_RE.match(ln.strip())
        if not m:
            raise ValueError("unparsed assert-soft: " + ln[:120])
        body, w = m.group(1), int(m.group(2))
        pairs = PAIR_RE.findall(body)
        pos = set(int(a) for a, _ in pairs)
        if len(pos) != 1:
            raise ValueError("assert-soft over several positions: " + ln[:120])
        shape = re.sub(r"t_\d+ theta_\d+", "@", body)
        shape = re.sub(r"\s+", " ", shape)
        if shape == "(= @)" or re.fullmatch(r"\(or( \(= @\))+\)", shape):
            pol = True
        elif shape == "(distinct @)":
            pol = False
        else:
            raise ValueError("assert-soft of unknown shape: " + ln[:120])
        out.append((w, pos.pop(), pol, [int(b) for _, b in pairs]))
    return out


def _init_z3():
    gasol.setup_process(["-solver", "z3"])
    return {"params": {}}


def _z3_job(st, job):
    """job = (sfs, opts, want_detail).  Runs the real encoder and z3."""
    from smt_encoding.block_optimizer import BlockOptimizer
    from smt_encoding.instructions.instruction_bounds_with_dependencies import InstructionBoundsWithDependencies
    import global_params.paths as paths
    sfs, opts, tout = job
    opts = tuple(opts)
    if opts not in st["params"]:
        st["params"][opts] = gasol.make_params(["-solver", "z3", "-tout", str(tout), "-direct-tout"] + list(opts))
    p = st["params"][opts]
    name = "b" + uuid.uuid4().hex[:10]
    bo = BlockOptimizer(name, copy.deepcopy(sfs), p, tout)
    t0 = time.time()
    outcome, _, ids = bo.optimize_block()
    wall = time.time() - t0
    with open(bo._encoding_file) as fh:
        text = fh.read()
    os.remove(bo._encoding_file)
    lines = text.splitlines()
    soft_lines = [ln for ln in lines if ln.startswith("(assert-soft")]
    body = "\n".join(ln for ln in lines if not ln.startswith("(set-option :timeout"))
    fe = bo._full_encoding
    th = {t: i.id for t, i in fe.theta_to_instr.items()}
    bnds = {}
    for t, i in fe.theta_to_instr.items():
        bnds[i.id] = [fe._bounds.lower_bound_theta_value(t), fe._bounds.upper_bound_theta_value(t)]
    model = bo._solver.get_model() or ""
    mo = re.search(r"\(objectives\s*\(\s*(\w+)\s+(-?\d+)\s*\)", model)
    res = {"outcome": outcome.name, "ids": ids, "wall": round(wall, 3), "theta": th, "bounds": bnds,
           "soft": parse_soft(soft_lines), "n_hard": sum(1 for ln in lines if ln.startswith("(assert ")),
           "smt2_sha": hashlib.sha1(body.encode()).hexdigest(), "objective": int(mo.group(2)) if mo else None,
           "bounds_class": type(fe._bounds).__name__}
    if isinstance(fe._bounds, InstructionBoundsWithDependencies):
        res["dep_graph"] = {k: list(v) for k, v in fe._dependency_graph.items()}
    return res


def z3_replay_text(sfs, opts):
    return ("cd /verif && PYTHONPATH=/repo:/verif /venv/bin/python -c \"from harness import c07; "
            "c07.replay_cli('<this file>')\"   # or: ./check C07 --replay <this file>")


# ---------------------------------------------------------------------------------------------
# Coq side

HEADER = sfs2coq.HEADER + "From GV Require Import Model.Soft.\n"


def coq_z(n):
    return "(%d)%%Z" % n


def to_py(txt):
    """Coq printed value (lists, tuples, Z/nat numerals, bool, option) -> Python value."""
    t = txt.replace("%Z", "").replace("%nat", "").replace(";", ",")
    t = re.sub(r"\btrue\b", "True", t)
    t = re.sub(r"\bfalse\b", "False", t)
    return ast.literal_eval(t)


STEP_RE = re.compile(r"SPop|SNop|SDup \d+|SSwap \d+|SIns \d+|SPushC \(?-?\d+\)?(?:%Z)?")


def steps_to_ids(txt, t):
    out = []
    for m in STEP_RE.findall(txt):
        if m == "SPop":
            out.append("POP")
        elif m == "SNop":
            out.append("NOP")
        elif m.startswith("SDup"):
            out.append("DUP" + m.split()[1])
        elif m.startswith("SSwap"):
            out.append("SWAP" + m.split()[1])
        elif m.startswith("SIns"):
            out.append(t.ins_rev[int(m.split()[1])])
        else:
            out.append(m)
    return out


def bounds_table(sfs, bnds, t):
    """Python bounds {id: [lb, ub]} -> Coq table id -> (lb, ub + 1) over the user instructions."""
    ent = []
    for u in sfs["user_instrs"]:
        lb, ub = bnds[u["id"]]
        ent.append("(%d, (%d, %d))" % (t.ins[u["id"]], max(0, lb), max(0, ub + 1)))
    return "[" + "; ".join(ent) + "]"
