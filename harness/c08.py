"""C08  Optimization never makes a block costlier in the chosen criterion.

Stages:
 1. regenerate Gen/{Push0,CostTables,Accept}.v from the checkout (gen/gen_cost.py, fail closed), build the
    cone of Props/C08.v, hygiene, Print Assumptions;
 2. replay of the `_refuted` witnesses on the real Python functions (known findings / proposed fixes);
 3. differential tie: the real Python functions vs the generated Coq definitions (vm_compute) on
    all opcodes x boundary values x flags, all small saving triples x criteria, random selections;
 4. the property on real outputs: shipped-contract blocks, corpus blocks and generated blocks through the
    per-block pipeline (optimize + compare + keep-or-revert, exactly optimize_isolated_asm_block) under
    {gas,-size,-length} x {default,-storage,-partition}; input and output blocks are priced with the
    REFERENCE cost functions (Ref/Cost.v under vm_compute; access keys by this file's own symbolic
    executor) and checked: cost_c(B') <= cost_c(B), B' != B => improves_c; GASOL's own figures, its
    statistics rows and running totals are compared with the reference figures; the hand model of
    AsmBlock.gas_spent (Model/Cost.v) and the generated block_has_been_optimized are compared with the
    implementation on every block / decision of the run.
"""
import json
import os
import random
import re

from harness import common, gasol

CONTRACT = "examples/jsons-solc/0x363c421901B7BDCa0f2a17dA03948D676bE350E4.json_solc"
CRITERIA = {"gas": [], "size": ["-size"], "length": ["-length"]}
SPLITS = {"default": [], "storage": ["-storage"], "partition": ["-partition"]}
CORPUS = os.path.join(common.VERIF, "corpus", "C08")


# --------------------------------------------------------------------------------------------
# Coq helpers

HEADER = ("From Coq Require Import ZArith List Bool String.\n"
          "From GV Require Import Model.CostPrelude Ref.Cost Gen.Push0 Gen.CostTables Gen.Accept Model.Cost "
          "Model.AcceptProofs Model.CostProofs.\n"
          "Import ListNotations.\nOpen Scope string_scope.\nOpen Scope Z_scope.\nSet Printing Depth 1000000.\n"
          "Definition oz (o : option Z) : Z := match o with Some z => z | None => -1 end.\n"
          "Definition ob (b : bool) : Z := if b then 1 else 0.\n")


_MY_CASES = []


def cq(s):
    s = str(s)
    if any(ord(c) < 32 or ord(c) > 126 for c in s):
        s = "".join(c if 32 <= ord(c) <= 126 else "?" for c in s)
    return '"' + s.replace('"', '""') + '"'


def cz(n):
    return "(%d)" % n


def cb(b):
    return "true" if b else "false"


def copt_s(v):
    return "None" if v is None else "(Some %s)" % cq(v)


def eval_Z_lists(prefix, exprs, per_file=400, header=HEADER):
    """exprs: list of Coq expressions of type `list Z`. Returns list of python int lists (None = not evaluated)."""
    files = []
    for k in range(0, len(exprs), per_file):
        chunk = exprs[k:k + per_file]
        body = header + "Definition cases : list (list Z) :=\n [" + ";\n  ".join(chunk) + "].\n" \
            "Eval vm_compute in cases.\n"
        files.append(("%s_p%d_%03d" % (prefix, os.getpid(), k // per_file), body))
    _MY_CASES.extend(n for n, _ in files)
    res = common.run_cases_parallel(files)
    out = []
    for (name, _), k in zip(files, range(0, len(exprs), per_file)):
        ok, txt = res[name]
        n = len(exprs[k:k + per_file])
        if not ok:
            out += [("coq-error", txt[-600:])] * n
            continue
        m = re.search(r"=\s*(\[.*\])\s*:\s*list \(list Z\)", txt, re.S)
        if not m:
            out += [("coq-parse", txt[-300:])] * n
            continue
        lists = re.findall(r"\[([^\[\]]*)\]", m.group(1)[1:-1]) if n else []
        vals = [[int(x) for x in re.findall(r"-?\d+", l)] for l in lists]
        if len(vals) != n:
            out += [("coq-count", "%d/%d" % (len(vals), n))] * n
        else:
            out += vals
    return out


# --------------------------------------------------------------------------------------------
# reference view of a block: our own symbolic executor gives the access keys

ACCOUNT_OPS = ("BALANCE", "EXTCODESIZE", "EXTCODEHASH", "EXTCODECOPY")


def ref_instrs(items, arity):
    """items: [(disasm, value)].  Returns [(op, val:int|None, key:str|None)] with keys interned."""
    st, n_in, out, intern = [], [0], [], {}

    def need(k):
        while len(st) < k:
            st.append("in%d" % n_in[0])
            n_in[0] += 1

    for d, v in items:
        key = None
        if d in ("SLOAD", "SSTORE") or d in ACCOUNT_OPS:
            need(1)
            key = intern.setdefault(st[0], "k%d" % len(intern))
        val = None
        if d == "PUSH":
            val = int(v, 16)
            st.insert(0, str(val))
        elif d == "PUSH0":
            st.insert(0, "0")
        elif d.startswith("PUSH"):
            st.insert(0, "%s:%s" % (d, v))
        elif re.fullmatch(r"DUP\d+", d):
            k = int(d[3:])
            need(k)
            st.insert(0, st[k - 1])
        elif re.fullmatch(r"SWAP\d+", d):
            k = int(d[4:])
            need(k + 1)
            st[0], st[k] = st[k], st[0]
        elif d == "POP":
            need(1)
            st.pop(0)
        elif d in ("tag", "JUMPDEST"):
            pass
        else:
            c, p = arity(d)
            need(c)
            args = [st.pop(0) for _ in range(c)]
            if p:
                st.insert(0, "%s(%s)" % (d, ",".join(args)) if args else d)
        out.append((d, val, key))
    return out


def coq_rlist(ris):
    return "[" + "; ".join("mkR %s %s %s" % (cq(o), "None" if v is None else "(Some %d)" % v, copt_s(k))
                           for o, v, k in ris) + "]"


def coq_items(items):
    return "[" + "; ".join("mkItem %s %s" % (cq(d), copt_s(v)) for d, v in items) + "]"


def norm_items(items, p0):
    """identity of blocks modulo the two spellings of a zero push (same bytecode)"""
    out = []
    for d, v in items:
        if d == "tag":
            continue
        if p0 and ((d == "PUSH" and v == "0") or d == "PUSH0"):
            out.append(("PUSH0", None))
        elif d == "PUSH0":
            out.append(("PUSH", "0"))
        else:
            out.append((d, None if v is None else str(v)))
    return out


# --------------------------------------------------------------------------------------------
# workers (run inside gasol.pmap)

def _w_init(opts):
    import global_params.constants as constants
    st = {"files": {}, "split0": set(constants.split_block), "opts": None, "p": None}
    if opts is not None:
        _w_config(st, opts)
    return st


def _w_config(state, opts):
    """(re)configure this worker process for an option set, as execute_gasol would at start-up"""
    import global_params.constants as constants
    if state["opts"] == list(opts):
        return
    if state["p"] is not None:
        gasol.cleanup_process()
    constants.split_block = set(state["split0"])
    state["p"] = gasol.setup_process(opts)
    state["opts"] = list(opts)
    state["files"] = {}          # blocks are parsed under the PUSH0 setting of the option set


def _blocks_of_item(state, item):
    from sfs_generator.parser_asm import parse_blocks_from_plain_instructions, parse_asm
    if item[0] == "plain":
        bl = []
        for t in item[1]:
            bl += parse_blocks_from_plain_instructions(t, "block", "")
        return bl
    _, path, section, lo, hi = item
    if path not in state["files"]:
        state["files"][path] = parse_asm(path)
    asm = state["files"][path]
    blocks = []
    for c in asm.contracts:
        if not c.has_asm_field:
            continue
        if section == "init":
            blocks += list(c.init_code)
        else:
            for ident in c.get_data_ids_with_code():
                blocks += list(c.get_run_code(ident))
    return blocks[lo:hi]


def _w_chunk(state, item):
    import gasol_asm
    if item[0] == "cfg":         # ("cfg", opts, real item): one pool serves all option sets
        _w_config(state, item[1])
        item = item[2]
    p = state["p"]
    decisions = []
    orig = gasol_asm.block_has_been_optimized
    if not getattr(orig, "_verif_wrapped", False):
        def wrapped(o, n, crit, _orig=orig):
            r = _orig(o, n, crit)
            gasol_asm._verif_decisions.append(((o.bytes_required, o.gas_spent, o.length),
                                               (n.bytes_required, n.gas_spent, n.length), crit, bool(r)))
            return r
        wrapped._verif_wrapped = True
        gasol_asm.block_has_been_optimized = wrapped
    gasol_asm._verif_decisions = decisions
    gasol_asm.init()
    out = []
    for old in _blocks_of_item(state, item):
        rec = {"old": [(i.disasm, None if i.value is None else str(i.value)) for i in old.instructions]}
        del decisions[:]
        try:
            new, log, stats = gasol_asm.optimize_asm_block_asm_format(old, p)
            eq, reason = gasol_asm.compare_asm_block_asm_format(old, new, p)
        except BaseException as e:  # the tool would crash here (C10's subject): block skipped
            rec["exc"] = "%s: %s" % (type(e).__name__, str(e)[:200])
            out.append(rec)
            continue
        kept = new if eq else old
        gasol_asm.update_gas_count(old, kept)
        gasol_asm.update_length_count(old, kept)
        gasol_asm.update_size_count(old, kept)
        rec.update({
            "new": [(i.disasm, None if i.value is None else str(i.value)) for i in kept.instructions],
            "cand": [(i.disasm, None if i.value is None else str(i.value)) for i in new.instructions],
            "eq": bool(eq),
            "g_old": (old.gas_spent, old.bytes_required, old.length),
            "g_new": (kept.gas_spent, kept.bytes_required, kept.length),
            "stats": [(s.get("saved_gas"), s.get("saved_size"), s.get("saved_length"), s.get("outcome"),
                       s.get("chosen_block_tag")) for s in stats],
            "decisions": list(decisions),
        })
        out.append(rec)
    totals = (gasol_asm.previous_gas, gasol_asm.new_gas, gasol_asm.previous_size, gasol_asm.new_size,
              gasol_asm.prev_n_instrs, gasol_asm.new_n_instrs)
    return {"blocks": out, "totals": totals}


# --------------------------------------------------------------------------------------------
# generators

BOUNDARY = [0, 1, 2, 31, 32, 255, 256, 0xffff, 0x10000, 2 ** 160 - 1, 2 ** 255, 2 ** 256 - 2, 2 ** 256 - 1]
POOL1 = ["ADD", "MUL", "SUB", "DIV", "AND", "OR", "XOR", "LT", "GT", "EQ", "SHL", "SHR", "EXP", "BYTE", "SIGNEXTEND", "MOD"]
POOL0 = ["CALLER", "CALLVALUE", "ADDRESS", "CALLDATASIZE", "TIMESTAMP", "SELFBALANCE"]
UN = ["ISZERO", "NOT", "MLOAD", "SLOAD", "CALLDATALOAD", "BALANCE", "EXTCODESIZE", "POP"]


def gen_block(rng):
    n = rng.randint(2, 14)
    depth, ops = rng.randint(0, 3), []
    d = depth
    for _ in range(n):
        r = rng.random()
        if r < 0.30 or d == 0:
            v = rng.choice(BOUNDARY) if rng.random() < 0.6 else rng.randrange(0, 300)
            ops.append("PUSH0" if v == 0 and rng.random() < 0.7 else "PUSH 0x%x" % v)
            d += 1
        elif r < 0.40:
            ops.append(rng.choice(POOL0))
            d += 1
        elif r < 0.55:
            ops.append("DUP%d" % rng.randint(1, min(d, 4)))
            d += 1
        elif r < 0.65 and d >= 2:
            ops.append("SWAP%d" % rng.randint(1, min(d - 1, 4)))
        elif r < 0.80:
            ops.append(rng.choice(UN))
            if ops[-1] == "POP":
                d -= 1
        elif r < 0.86 and d >= 2:
            ops.append(rng.choice(["MSTORE", "SSTORE"]))
            d -= 2
        elif r < 0.90:
            ops.append(rng.choice(["GAS", "PUSH [tag] %d" % rng.randint(1, 9)]))
            d += 1
        elif d >= 2:
            op = rng.choice(POOL1)
            if op in ("SHL", "SHR", "EXP") and ops and ops[-1].startswith("PUSH 0x") and int(ops[-1][5:], 16) > 300:
                op = "ADD"   # huge constant shifts/exponents do not return in GASOL's folding (see C03/C10)
            ops.append(op)
            d -= 1
    return " ".join(ops)


def corpus_blocks():
    out = []
    if os.path.isdir(CORPUS):
        for f in sorted(os.listdir(CORPUS)):
            if f.endswith(".json"):
                with open(os.path.join(CORPUS, f)) as fh:
                    d = json.load(fh)
                out += d.get("blocks", [])
    return out


# --------------------------------------------------------------------------------------------
# stage 2/3: decision level and tables

class Stub:
    def __init__(self, s, g, l):
        self.bytes_required, self.gas_spent, self.length = s, g, l


class IStub:
    def __init__(self, s, g):
        self.bytes_required, self.gas_spent = s, g


def py_improves(c, dg, ds, dl):
    sav = {"gas": dg, "size": ds, "length": dl}[c]
    oth = {"gas": [ds, dl], "size": [dg, dl], "length": [dg, ds]}[c]
    return sav > 0 or (sav == 0 and all(x >= 0 for x in oth) and any(x > 0 for x in oth))


def decision_search(run, bound):
    """all saving triples in [-bound,bound]^3 x criteria on the REAL block_has_been_optimized vs the
    property's predicate; returns (evaluations, witnesses)"""
    import gasol_asm
    wit, n = [], 0
    for c in ("gas", "size", "length"):
        for dg in range(-bound, bound + 1):
            for ds in range(-bound, bound + 1):
                for dl in range(-bound, bound + 1):
                    o, nn = Stub(10, 10, 10), Stub(10 - ds, 10 - dg, 10 - dl)
                    n += 1
                    if gasol_asm.block_has_been_optimized(o, nn, c) and not py_improves(c, dg, ds, dl):
                        wit.append((c, dg, ds, dl))
    return n, wit


def diff_generated(run, rng):
    """real Python functions vs the generated definitions; returns number of evaluations, reports disagreements"""
    import gasol_asm
    import global_params.constants as constants
    import sfs_generator.opcodes as opc
    import sfs_generator.utils as ut
    from sfs_generator.asm_bytecode import AsmBytecode, is_push0
    from smt_encoding.solver.solver import OptimizeOutcome
    from global_params.options import OptimizationParams
    exprs, expect, descr = [], [], []

    def add(coq, exp, d):
        exprs.append("[" + "; ".join(coq) + "]")
        expect.append(list(exp))
        descr.append(d)

    # improves_criterion / block_has_been_optimized
    for _ in range(150 if run.tier == "quick" else 600):
        l = [rng.randint(-3, 3) for _ in range(rng.randint(0, 5))]
        s = rng.randint(-2, 2)
        add(["ob (improves_criterion %s [%s])" % (cz(s), "; ".join(cz(x) for x in l))],
            [int(gasol_asm.improves_criterion(s, *l))], ("improves_criterion", s, l))
    B = 2 if run.tier == "quick" else 3
    for c in ("gas", "size", "length", "other"):
        for dg in range(-B, B + 1):
            coq, exp = [], []
            for ds in range(-B, B + 1):
                for dl in range(-B, B + 1):
                    o, n = Stub(7, 9, 5), Stub(7 - ds, 9 - dg, 5 - dl)
                    coq.append("ob (block_has_been_optimized (bv 7 9 5) (bv %s %s %s) %s)" % (cz(7 - ds), cz(9 - dg), cz(5 - dl), cq(c)))
                    exp.append(int(bool(gasol_asm.block_has_been_optimized(o, n, c))))
            add(coq, exp, ("block_has_been_optimized", c, dg))
    # compare_best_block / choose_best_solution
    tags = {"both_worse_or_equal": 0, "tie": 1, "greedy": 2, "superopt": 3, "greedy_no_model": 4, None: 5}

    def seq(k):
        return [(rng.randint(1, 3), rng.choice([2, 3, 5])) for _ in range(k)]

    def cseq(s):
        return "[" + "; ".join("iv %d %d" % x for x in s) + "]"

    def cost3(s):
        return [sum(a for a, _ in s), sum(b for _, b in s), len(s)]
    for _ in range(200 if run.tier == "quick" else 800):
        o, s, g = seq(rng.randint(0, 4)), seq(rng.randint(0, 4)), seq(rng.randint(0, 4))
        c = rng.choice(["gas", "size", "length"])
        r, tag = gasol_asm.compare_best_block([IStub(*x) for x in o], [IStub(*x) for x in s], [IStub(*x) for x in g], c)
        rr = [(x.bytes_required, x.gas_spent) for x in r]
        add(["py_sum (map v_bytes_required (fst (compare_best_block %s %s %s %s)))" % (cseq(o), cseq(s), cseq(g), cq(c)),
             "py_sum (map v_gas_spent (fst (compare_best_block %s %s %s %s)))" % (cseq(o), cseq(s), cseq(g), cq(c)),
             "py_len (fst (compare_best_block %s %s %s %s))" % (cseq(o), cseq(s), cseq(g), cq(c)),
             "ob (String.eqb (snd (compare_best_block %s %s %s %s)) %s)" % (cseq(o), cseq(s), cseq(g), cq(c), cq(tag))],
            cost3(rr) + [1], ("compare_best_block", o, s, g, c))
        outc = rng.choice(list(OptimizeOutcome))
        gr = None if rng.random() < 0.3 else g
        p = OptimizationParams()
        p.ub_greedy, p.criteria = rng.random() < 0.8, c
        r, tag = gasol_asm.choose_best_solution([IStub(*x) for x in o], [IStub(*x) for x in s],
                                                None if gr is None else [IStub(*x) for x in gr], outc, p)
        rr = [(x.bytes_required, x.gas_spent) for x in r]
        call = "(choose_best_solution %s %s %s %s (mkParams %s %s))" % (
            cseq(o), cseq(s), "None" if gr is None else "(Some %s)" % cseq(gr), cq(outc.name), cb(p.ub_greedy), cq(c))
        add(["py_sum (map v_bytes_required (fst %s))" % call, "py_sum (map v_gas_spent (fst %s))" % call,
             "py_len (fst %s)" % call,
             "ob (match snd %s with Some t => String.eqb t %s | None => %s end)" % (call, cq(tag or ""), cb(tag is None))],
            cost3(rr) + [1], ("choose_best_solution", o, s, gr, outc.name, p.ub_greedy, c))
    # update_*_count
    for _ in range(20):
        a, b = [rng.randint(0, 50) for _ in range(3)], [rng.randint(0, 50) for _ in range(3)]
        gasol_asm.init()
        gasol_asm.previous_gas, gasol_asm.new_gas = 5, 7
        gasol_asm.update_gas_count(Stub(*a), Stub(*b))
        add(["fst (update_gas_count (bv %d %d %d) (bv %d %d %d) 5 7)" % (*a, *b), "snd (update_gas_count (bv %d %d %d) (bv %d %d %d) 5 7)" % (*a, *b)],
            [gasol_asm.previous_gas, gasol_asm.new_gas], ("update_gas_count", a, b))
        gasol_asm.previous_size, gasol_asm.new_size = 1, 2
        gasol_asm.update_size_count(Stub(*a), Stub(*b))
        add(["fst (update_size_count (bv %d %d %d) (bv %d %d %d) 1 2)" % (*a, *b), "snd (update_size_count (bv %d %d %d) (bv %d %d %d) 1 2)" % (*a, *b)],
            [gasol_asm.previous_size, gasol_asm.new_size], ("update_size_count", a, b))
    gasol_asm.init()
    # tables: every name of the vocabulary + junk, all flags
    vocab = list(opc.opcodes.keys()) + ["SELFDESTRUCT", "RETURNDATASIZE", "RETURNDATACOPY", "PUSH0", "PUSH", "tag"] + \
        ["DUP%d" % i for i in range(1, 17)] + ["SWAP%d" % i for i in range(1, 17)] + \
        ["PUSH1", "PUSH32", "JUMPI", "JUMP", "I", "UMP", "MPI", "LOG5", "TLOAD", "BLOBHASH", "", "push", "DUP17", "SWAP0"]
    for op in vocab:
        coq, exp = [], []
        for al in (False, True):
            for sc in (False, True):
                if op.startswith("LOG") and not re.fullmatch(r"LOG[0-4]", op):
                    pass
                coq.append("get_ins_cost %s None %s %s" % (cq(op), cb(al), cb(sc)))
                exp.append(opc.get_ins_cost(op, None, al, sc))
        for val in (None, 0, 255, 2 ** 256 - 1):
            if op == "PUSH" and val is None:
                continue
            coq.append("oz (get_ins_size %s %s 2)" % (cq(op), "None" if val is None else "(Some %d)" % val))
            try:
                exp.append(ut.get_ins_size(op, val))
            except ValueError:
                exp.append(-1)
        add(coq, exp, ("tables", op))
    vals = sorted(set(BOUNDARY + [2 ** (8 * k) for k in range(1, 32)] + [2 ** (8 * k) - 1 for k in range(1, 33)] +
                      [rng.randrange(2 ** 256) for _ in range(20)] + [-1, -255, -256, -2 ** 255, -(2 ** 256) + 1]))
    for k in range(0, len(vals), 10):
        ch = vals[k:k + 10]
        add(["number_encoding_size %s" % cz(v) for v in ch] + ["get_num_bytes_int %s" % cz(v) for v in ch] +
            ["oz (get_ins_size \"PUSH\" (Some %s) 2)" % cz(v) for v in ch if v >= 0],
            [ut.number_encoding_size(v) for v in ch] + [ut.get_num_bytes_int(v) for v in ch] +
            [ut.get_ins_size("PUSH", v) for v in ch if v >= 0], ("number_encoding_size", ch))
    # items: disasm x value x push0
    saved = constants.push0_enabled
    try:
        items = [("PUSH", "%x" % v) for v in BOUNDARY] + [("PUSH", "00"), ("PUSH", "FF"), ("PUSH0", None)] + \
            [(op, None) for op in vocab if op not in ("PUSH",)] + \
            [("PUSH [tag]", "12"), ("PUSH data", "a1"), ("PUSHIMMUTABLE", "ab"), ("PUSH #[$]", "0"), ("PUSHLIB", "1"),
             ("JUMP", "[in]"), ("tag", "7"), ("PUSHDEPLOYADDRESS", None), ("PUSHSIZE", None), ("ASSIGNIMMUTABLE", "ff")]
        for p0 in (True, False):
            constants._set_push0(p0)
            for d, v in items:
                b = AsmBytecode(-1, -1, -1, d, v)
                it = "(mkItem %s %s)" % (cq(d), copt_s(v))
                try:
                    br = b.bytes_required
                except ValueError:
                    br = -1
                add(["oz (AsmBytecode_bytes_required %s %s)" % (cb(p0), it), "AsmBytecode_gas_spent %s %s" % (cb(p0), it),
                     "AsmBytecode_gas_spent_accesses %s %s true false" % (cb(p0), it),
                     "AsmBytecode_gas_spent_accesses %s %s false true" % (cb(p0), it),
                     "ob (is_push0 %s %s %s)" % (cb(p0), cq(d), copt_s(v)),
                     "ob (String.eqb (AsmBytecode_to_plain %s %s) %s)" % (cb(p0), it, cq(b.to_plain()))],
                    [br, b.gas_spent, b.gas_spent_accesses(True, False), b.gas_spent_accesses(False, True),
                     int(bool(is_push0(d, v))), 1], ("item", p0, d, v))
    finally:
        constants._set_push0(saved)
    got = eval_Z_lists("c08_diff", exprs)
    bad = 0
    for g, e, d in zip(got, expect, descr):
        if g != e:
            bad += 1
            run.report({"kind": "generated-model-disagrees", "function": d[0]},
                       "generated Coq definition of %s disagrees with the Python function on %r: model %r, code %r" % (d[0], d[1:], g, e),
                       {"function": d[0], "input": repr(d[1:]), "model": repr(g), "implementation": e,
                        "how": "./check C08 (stage 3: differential cases)"}, found_input=True)
    run.log("differential tie: %d case groups, %d values, %d disagreements" % (len(exprs), sum(len(e) for e in expect), bad))
    return sum(len(e) for e in expect), len(exprs), descr


# --------------------------------------------------------------------------------------------
# stage 4: real outputs

def arity_fn():
    import sfs_generator.opcodes as opc

    def ar(d):
        r = opc.get_opcode(d)
        return r[1], r[2]
    return ar


def real_outputs(run, rng, configs, n_contract, n_gen, chunk=4, timeout=150, label="greedy", extra_texts=(), collect=None):
    """Runs the pipeline and checks the property on the outputs. configs: list of (crit, split, extra opts)."""
    path = os.path.join(common.REPO, CONTRACT)
    with open(path) as fh:
        data = json.load(fh)
    # count blocks per section with GASOL's own parser (pure)
    from sfs_generator.parser_asm import parse_asm
    asm = parse_asm(path)
    n_init = sum(len(c.init_code) for c in asm.contracts if c.has_asm_field)
    n_run = sum(len(c.get_run_code(i)) for c in asm.contracts if c.has_asm_field for i in c.get_data_ids_with_code())
    idx = [("init", i) for i in range(n_init)] + [("run", i) for i in range(n_run)]
    rng.shuffle(idx)
    idx = sorted(idx[:n_contract])
    items = []
    cur = None
    for sec, i in idx:   # consecutive ranges of one section, at most `chunk` blocks
        if cur and cur[2] == sec and cur[4] == i and cur[4] - cur[3] < chunk:
            cur[4] = i + 1
        else:
            if cur:
                items.append(tuple(cur))
            cur = ["file", path, sec, i, i + 1]
    if cur:
        items.append(tuple(cur))
    texts = list(extra_texts) + corpus_blocks() + [gen_block(rng) for _ in range(n_gen)]
    for k in range(0, len(texts), chunk):
        items.append(("plain", texts[k:k + chunk]))
    ar = arity_fn()
    stats = {"blocks": 0, "changed": 0, "reverted": 0, "exc": 0, "lost_chunks": 0, "decisions": 0, "accepted": 0,
             "strict": 0, "tie_accepted": 0, "by_config": {}, "sizes": {}}
    evals = 0
    distinct = set()
    # phase A: pipelines, one clean pool per option set
    per_cfg = []
    for crit, split, extra in configs:
        opts = list(extra) + CRITERIA[crit] + SPLITS[split]
        p0 = "-push0" not in opts
        res = gasol.pmap(_w_chunk, items, init=_w_init, initargs=(opts,), timeout=timeout)
        recs, chunks = [], []
        for it, (st, val) in zip(items, res):
            if st != "ok":
                stats["lost_chunks"] += 1
                continue
            good = [r for r in val["blocks"] if "exc" not in r]
            stats["exc"] += len(val["blocks"]) - len(good)
            chunks.append((good, val["totals"], len(good) == len(val["blocks"])))
            recs += good
        per_cfg.append((crit, split, opts, p0, recs, chunks))
        if collect is not None:
            collect.append((opts, recs))
        run.log("%s/%s/%s: pipeline done on %d blocks" % (label, crit, split, len(recs)))
    # phase B: Coq (one parallel batch): reference prices + hand model of AsmBlock.gas_spent / generated sizes on old
    # and new; generated block_has_been_optimized on the measures of every accept decision
    exprs, dexprs = [], []
    for crit, split, opts, p0, recs, chunks in per_cfg:
        for r in recs:
            ro, rn = ref_instrs(r["old"], ar), ref_instrs(r["new"], ar)
            r["same"] = norm_items(r["old"], p0) == norm_items(r["new"], p0)
            e = []
            for rl, its in ((ro, r["old"]), (rn, r["new"])):
                e += ["oz (ref_block_gas %s %s)" % (cb(p0), coq_rlist(rl)), "oz (ref_block_size %s %s)" % (cb(p0), coq_rlist(rl)),
                      "ref_block_length %s" % coq_rlist(rl),
                      "oz (AsmBlock_gas_spent %s %s)" % (cb(p0), coq_items(its)), "oz (block_size %s %s)" % (cb(p0), coq_items(its)),
                      "block_length %s" % coq_items(its)]
            exprs.append("[" + "; ".join(e) + "]")
            for (o, n, c, res_) in r["decisions"]:
                dexprs.append("[ob (block_has_been_optimized (bv %d %d %d) (bv %d %d %d) %s)]" % (*o, *n, cq(c)))
    allgot = eval_Z_lists("c08_out_%s" % label, exprs, per_file=80)
    alldgot = eval_Z_lists("c08_dec_%s" % label, dexprs, per_file=500) if dexprs else []
    evals += len(exprs) * 12 + len(dexprs)
    gi = di = 0
    # phase C: checks
    for crit, split, opts, p0, recs, chunks in per_cfg:
        got = allgot[gi:gi + len(recs)]
        gi += len(recs)
        dec = []
        for r in recs:
            for (o, n, c, res_) in r["decisions"]:
                dec.append((o, n, c, res_, r))
        dgot = alldgot[di:di + len(dec)]
        di += len(dec)
        cfg = "%s/%s/%s%s" % (label, crit, split, "/push0-disabled" if not p0 else "")
        cst = stats["by_config"].setdefault(cfg, {"blocks": 0, "changed": 0, "saved": 0})
        for r, g in zip(recs, got):
            stats["blocks"] += 1
            cst["blocks"] += 1
            ln = len(r["old"])
            b = "1-5" if ln <= 5 else "6-15" if ln <= 15 else "16-40" if ln <= 40 else ">40"
            stats["sizes"][b] = stats["sizes"].get(b, 0) + 1
            replay = {"kind": "block", "old": r["old"], "opts": opts, "plain_old": " ".join(plain_of(r["old"])),
                      "how": "./check C08 --replay <this file>"}
            if not isinstance(g, list):
                run.report({"kind": "coq-evaluation-failed"}, "reference evaluation failed: %r" % (g,), replay, found_input=False)
                continue
            rgo, rso, rlo, mgo, mso, mlo, rgn, rsn, rln, mgn, msn, mln = g
            # hand/generated models vs implementation figures
            if (mgo, mso, mlo) != tuple(r["g_old"]) or (mgn, msn, mln) != tuple(r["g_new"]):
                run.report({"kind": "cost-model-disagrees"},
                           "Model/Cost.v or Gen/CostTables.v disagree with AsmBlock.{gas_spent,bytes_required,length}: model %r/%r code %r/%r on %s"
                           % ((mgo, mso, mlo), (mgn, msn, mln), r["g_old"], r["g_new"], replay["plain_old"][:200]),
                           dict(replay, model=[mgo, mso, mlo, mgn, msn, mln], impl=[r["g_old"], r["g_new"]]), found_input=True)
            if -1 in (rgo, rso, rgn, rsn):
                run.notes.append("no reference price for a block (item outside Ref/Cost.v): " + replay["plain_old"][:120])
                continue
            dg, ds, dl = rgo - rgn, rso - rsn, rlo - rln
            sav = {"gas": dg, "size": ds, "length": dl}[crit]
            if not r["same"]:
                stats["changed"] += 1
                cst["changed"] += 1
                cst["saved"] += sav
                distinct.add((crit, tuple(norm_items(r["old"], True))))
            if not r["eq"]:
                stats["reverted"] += 1
            replay.update({"new": r["new"], "ref_old": [rgo, rso, rlo], "ref_new": [rgn, rsn, rln], "criterion": crit})
            if sav < 0:
                report_once(run, {"kind": "costlier", "criterion": crit, "cause": cause_of(r, p0)},
                           "output block costlier in %s by reference pricing: %d -> %d (%s)" % (crit, *ref_c(crit, g), replay["plain_old"][:160]),
                           replay, found_input=True)
            elif not r["same"] and not py_improves(crit, dg, ds, dl):
                ign = crit in ("gas", "size") and sav == 0 and dl < 0
                report_once(run, {"kind": "accept-ignores-length" if ign else "changed-without-improving", "criterion": crit,
                            "level": "block"},
                           "block changed without improving by the property's predicate (%s): savings gas %d size %d length %d (%s)"
                           % (crit, dg, ds, dl, replay["plain_old"][:160]), replay, found_input=True)
            # GASOL's own accounting vs the reference
            if (rgo, rso, rlo) != tuple(r["g_old"]) or (rgn, rsn, rln) != tuple(r["g_new"]):
                cause = cause_of(r, p0)
                report_once(run, {"kind": "accounting-differs-from-reference", "cause": cause},
                           "GASOL's figures differ from the reference: old %r vs %r, new %r vs %r, cause %s (%s)"
                           % (r["g_old"], (rgo, rso, rlo), r["g_new"], (rgn, rsn, rln), cause, replay["plain_old"][:120]),
                           dict(replay, gasol_old=r["g_old"], gasol_new=r["g_new"]), found_input=True)
            # statistics rows / decisions vs the block: accepted sub-block savings add up (size, length)
            if r["eq"]:
                acc = [(o, n) for (o, n, c, res_) in r["decisions"] if res_]
                ssz = sum(o[0] - n[0] for o, n in acc)
                sln = sum(o[2] - n[2] for o, n in acc)
                if (ssz, sln) != (r["g_old"][1] - r["g_new"][1], r["g_old"][2] - r["g_new"][2]):
                    report_once(run, {"kind": "rows-do-not-add-up", "cause": cause_of(r, p0)},
                               "accepted sub-block savings (size %d, length %d) differ from the block's (%d, %d) on %s"
                               % (ssz, sln, r["g_old"][1] - r["g_new"][1], r["g_old"][2] - r["g_new"][2], replay["plain_old"][:160]),
                               replay, found_input=True)
                # every accept decision has its statistics row (same savings, same order); rows of sub-blocks whose
                # outcome was an error have a model but no decision
                rows = [s for s in r["stats"] if s[3] == "model"]
                k = 0
                for (o, n, c, res_) in r["decisions"]:
                    want = (o[1] - n[1], o[0] - n[0], o[2] - n[2])
                    while k < len(rows) and tuple(rows[k][:3]) != want:
                        k += 1
                    if k == len(rows):
                        report_once(run, {"kind": "row-differs-from-decision"},
                                    "no statistics row carries the savings (gas,size,length)=%r the accept test saw; rows %r" % (want, [x[:3] for x in rows]),
                                    replay)
                        break
                    k += 1
            if len(run.cov["samples"]) < 6 and not r["same"]:
                run.add_sample({"config": cfg, "old": replay["plain_old"][:200], "new": " ".join(plain_of(r["new"]))[:200],
                                "ref_old_gas_size_len": [rgo, rso, rlo], "ref_new_gas_size_len": [rgn, rsn, rln]})
        # decisions: generated block_has_been_optimized on the measures of the run + property predicate at sub-block level
        for (o, n, c, res_, r), g in zip(dec, dgot):
            stats["decisions"] += 1
            if g != [int(res_)]:
                run.report({"kind": "generated-model-disagrees", "function": "block_has_been_optimized"},
                           "generated block_has_been_optimized disagrees on real measures %r %r %s: model %r code %r" % (o, n, c, g, res_),
                           {"kind": "decision", "o": o, "n": n, "criterion": c, "how": "./check C08 --replay <file>"}, found_input=True)
            if res_:
                stats["accepted"] += 1
                dgs, dss, dls = o[1] - n[1], o[0] - n[0], o[2] - n[2]
                if {"gas": dgs, "size": dss, "length": dls}[c] > 0:
                    stats["strict"] += 1
                else:
                    stats["tie_accepted"] += 1
                if not py_improves(c, dgs, dss, dls):
                    stats["accepted_against_predicate_real"] = stats.get("accepted_against_predicate_real", 0) + 1
                    run.add_sample({"accepted_against_predicate": " ".join(plain_of(r["old"]))[:200], "criterion": c,
                                    "savings_gas_size_length": [dgs, dss, dls]}, cap=12)
                    report_once(run, {"kind": "accept-ignores-length", "criterion": c, "level": "sub-block"},
                               "sub-block accepted although the property's predicate fails (%s): savings gas %d size %d length %d in %s"
                               % (c, dgs, dss, dls, " ".join(plain_of(r["old"]))[:160]),
                               {"kind": "block", "old": r["old"], "opts": opts, "plain_old": " ".join(plain_of(r["old"])),
                                 "how": "./check C08 --replay <file>"}, found_input=True)
        # running totals = sums of the per-block figures (GASOL's and, where they agree, the reference's)
        for good, tot, complete in chunks:
            if not complete:
                continue
            sums = (sum(r["g_old"][0] for r in good), sum(r["g_new"][0] for r in good), sum(r["g_old"][1] for r in good),
                    sum(r["g_new"][1] for r in good), sum(r["g_old"][2] for r in good), sum(r["g_new"][2] for r in good))
            evals += 1
            if tuple(tot) != sums:
                run.report({"kind": "totals-are-not-sums"}, "running totals %r differ from the sums of per-block figures %r" % (tot, sums),
                           {"kind": "totals", "opts": opts, "blocks": [r["old"] for r in good]}, found_input=True)
        run.log("%s: %d blocks, %d changed, saved %s=%d" % (cfg, cst["blocks"], cst["changed"], crit, cst["saved"]))
    return evals, distinct, stats


def clean_my_cases():
    """remove only this check's case files (coq/Cases is shared with the other checks)"""
    d = os.path.join(common.COQ, "Cases")
    mine = set(_MY_CASES)
    if os.path.isdir(d):
        for f in os.listdir(d):
            base = f.lstrip(".").split(".")[0]
            if base in mine:
                try:
                    os.remove(os.path.join(d, f))
                except OSError:
                    pass


def report_once(run, key, what, replay, found_input=True):
    seen = run.__dict__.setdefault("_seen", set())
    k = (json.dumps(key, sort_keys=True), replay.get("plain_old"))
    if k in seen:
        return
    seen.add(k)
    run.report(key, what, replay, found_input=found_input)


def ref_c(crit, g):
    i = {"gas": 0, "size": 1, "length": 2}[crit]
    return g[i], g[6 + i]


def plain_of(items):
    out = []
    for d, v in items:
        if d == "tag":
            continue
        if d == "PUSH":
            out.append("PUSH 0x%s" % v)
        elif v is not None and "JUMP" not in d:
            out.append("%s %s" % (d, v))
        else:
            out.append(d)
    return out


def cause_of(r, p0):
    """why GASOL's accounting and the reference may differ on this block (for known-finding matching)"""
    names = {d for d, _ in r["old"]} | {d for d, _ in r["new"]}
    if "MCOPY" in names:
        return "table:MCOPY"
    if "SHA3" in names:
        return "table:SHA3"
    if p0 and any(d == "PUSH" and v != "0" and int(v, 16) == 0 for d, v in r["old"]):
        return "noncanonical-zero-value"      # PUSHn 0x00 in plain-text input keeps the value string "00"
    spell = {(d, v) for d, v in r["old"] + r["new"] if d == "PUSH0" or (d == "PUSH" and v == "0")}
    touch = names & {"SLOAD", "SSTORE", "BALANCE", "EXTCODESIZE", "EXTCODEHASH", "EXTCODECOPY"}
    if p0 and touch and ("PUSH0", None) in spell:
        return "zero-push-key-spelling"
    return "unexplained"


# --------------------------------------------------------------------------------------------

def known_witnesses(run):
    """Replays the `_refuted` witnesses of Props/C08.v on the real Python functions."""
    import gasol_asm
    import sfs_generator.opcodes as opc
    n = 0
    for c, o, nn in (("gas", (3, 6, 2), (2, 6, 3)), ("size", (3, 7, 2), (3, 6, 3))):
        n += 1
        if gasol_asm.block_has_been_optimized(Stub(*o), Stub(*nn), c):
            dg, ds, dl = o[1] - nn[1], o[0] - nn[0], o[2] - nn[2]
            if not py_improves(c, dg, ds, dl):
                run.report({"kind": "accept-ignores-length", "criterion": c, "level": "decision"},
                           "block_has_been_optimized accepts a block that is equal in %s, better in the one measure it looks at and WORSE in length "
                           "(savings gas %d size %d length %d): the property's 'no worse in the others' is not enforced" % (c, dg, ds, dl),
                           {"kind": "decision", "o": o, "n": nn, "criterion": c,
                            "how": "python: gasol_asm.block_has_been_optimized(stub(size,gas,length)=%r, %r, %r) -> True" % (o, nn, c)},
                           found_input=True)
    for op, ref in (("MCOPY", 3), ("SHA3", 30)):
        n += 1
        got = opc.get_ins_cost(op)
        if got != ref:
            run.report({"kind": "table-disagreement", "opcode": op},
                       "get_ins_cost(%r) = %d, reference (Yellow Paper / EIP) static cost = %d" % (op, got, ref),
                       {"kind": "table", "opcode": op, "expected": ref, "how": "python: sfs_generator.opcodes.get_ins_cost(%r)" % op},
                       found_input=True)
    return n


def search_after_break(run, rng):
    """The proof/generation stage broke: look for a concrete failing input on the implementation."""
    what = "proof stage broke: %r" % (run.proof_broken,)
    found = False
    try:
        n, wit = decision_search(run, 3)
        fresh = [w for w in wit if not (w[0] in ("gas", "size") and w[3] < 0)]   # beyond the known length finding
        for w in fresh[:3]:
            found = True
            run.report({"kind": "accept-decision-violates-property", "criterion": w[0]},
                       what + "; block_has_been_optimized accepts savings (gas,size,length)=%r under %s against the property" % (w[1:], w[0]),
                       {"kind": "decision", "o": (10, 10, 10), "n": (10 - w[2], 10 - w[1], 10 - w[3]), "criterion": w[0],
                        "how": "./check C08 --replay <file>"}, found_input=True)
    except Exception as e:  # noqa
        run.notes.append("decision search failed: %r" % (e,))
    if not found:
        run.report({"kind": "proof-broken", "stage": str(run.proof_broken[0])}, what,
                   {"broken": repr(run.proof_broken), "how": "cd /verif && ./check C08"}, found_input=False)


def check(run):
    from gen import gen_cost
    rng = random.Random(run.seed)
    ok = common.proof_stage(run, "Props/C08.v", gen=gen_cost.generate)
    run.cov["trusted_base"] += [
        "gen/gen_cost.py (Python ast -> Gallina translator, fail closed) and coq/Model/CostPrelude.v (semantics of the Python builtins used)",
        "coq/Ref/Cost.v reference tables (Yellow Paper / EIPs / libevmasm sizes) and their stated conventions",
        "harness/c08.py ref_instrs: symbolic executor giving access keys to the reference pricing (syntactic keys; arities from opcodes.get_opcode)",
        "coq/Model/Cost.v hand model of AsmBlock.gas_spent/execute_asm (pinned by AST hash, compared with the implementation on every block of the run)",
    ]
    if not ok:
        search_after_break(run, rng)
        if run.proof_broken[0] in ("generation", "build", "props"):
            return
    evals = known_witnesses(run)
    n, wit = decision_search(run, 2 if run.tier == "quick" else 4)
    evals += n
    for w in wit:
        if not (w[0] in ("gas", "size") and w[3] < 0 and {"gas": w[1], "size": w[2]}[w[0]] == 0):
            run.report({"kind": "accept-decision-violates-property", "criterion": w[0]},
                       "block_has_been_optimized accepts savings (gas,size,length)=%r under %s against the property" % (w[1:], w[0]),
                       {"kind": "decision", "o": (10, 10, 10), "n": (10 - w[2], 10 - w[1], 10 - w[3]), "criterion": w[0]}, found_input=True)
    nvals, ngroups, _ = diff_generated(run, rng)
    evals += nvals
    configs = [(c, s, ["-greedy"]) for c in CRITERIA for s in SPLITS]
    if run.tier == "quick":
        e, distinct, st = real_outputs(run, rng, configs, n_contract=200, n_gen=100)
    else:
        e, distinct, st = real_outputs(run, rng, configs, n_contract=100000, n_gen=400, timeout=45)
        cfg2 = [(c, "default", ["-ub-greedy", "-solver", "z3", "-tout", "2"]) for c in CRITERIA]
        e2, d2, st2 = real_outputs(run, random.Random(run.seed + 1), cfg2, n_contract=40, n_gen=40, chunk=4, timeout=240, label="ubgreedy_z3")
        e += e2
        distinct |= d2
        for k in ("blocks", "changed", "reverted", "exc", "lost_chunks", "decisions", "accepted", "strict", "tie_accepted"):
            st[k] += st2[k]
        st["by_config"].update(st2["by_config"])
    evals += e
    run.cov["evaluations"] = evals
    run.cov["distinct_nontrivial"] = len(distinct)
    run.cov["rule"] = ("evaluations = reference/model prices computed by vm_compute (12 per block run) + accept decisions + differential "
                       "values + totals; distinct_nontrivial = distinct (criterion, input block modulo zero-push spelling) whose output "
                       "differs from the input. Blocks: shipped contract %s (random subset in quick), corpus/C08, generated "
                       "(stack-consistent random sequences over arithmetic/env/memory/storage/account opcodes with boundary constants)" % CONTRACT)
    run.cov["distribution"] = st
    clean_my_cases()


# --------------------------------------------------------------------------------------------

def replay(run, path):
    with open(path) as fh:
        d = json.load(fh)
    rp = d.get("replay", d)
    kind = rp.get("kind")
    if kind == "decision":
        import gasol_asm
        o, n, c = rp["o"], rp["n"], rp["criterion"]
        r = gasol_asm.block_has_been_optimized(Stub(*o), Stub(*n), c)
        dg, ds, dl = o[1] - n[1], o[0] - n[0], o[2] - n[2]
        bad = bool(r) and not py_improves(c, dg, ds, dl)
        print("block_has_been_optimized(%r, %r, %r) = %r; property predicate improves = %r" % (o, n, c, r, py_improves(c, dg, ds, dl)))
        print("REPRODUCED" if bad else "not reproduced")
        return 1 if bad else 0
    if kind == "table":
        import sfs_generator.opcodes as opc
        got = opc.get_ins_cost(rp["opcode"])
        print("get_ins_cost(%r) = %r, reference %r" % (rp["opcode"], got, rp["expected"]))
        print("REPRODUCED" if got != rp["expected"] else "not reproduced")
        return 1 if got != rp["expected"] else 0
    if kind == "block":
        text = " ".join(plain_of([tuple(x) for x in rp["old"]]))
        res = gasol.pmap(_w_chunk, [("plain", [text])], init=_w_init, initargs=(rp["opts"],), timeout=300, procs=1)
        st, val = res[0]
        print("input :", text)
        if st != "ok":
            print("pipeline:", st, val)
            return 1
        for r in val["blocks"]:
            if "exc" in r:
                print("exception:", r["exc"])
                continue
            print("output:", " ".join(plain_of([tuple(x) for x in r["new"]])))
            print("GASOL (gas,size,length) old %r new %r; decisions %r" % (r["g_old"], r["g_new"], r["decisions"]))
            print("reference figures recorded in the replay: old %r new %r" % (rp.get("ref_old"), rp.get("ref_new")))
            if rp.get("new") is not None and [tuple(x) for x in rp["new"]] == [tuple(x) for x in r["new"]]:
                print("REPRODUCED (same output block as recorded)")
                return 1
        print("output differs from the recorded one")
        return 0
    print("replay file names a broken proof/correspondence: re-run ./check C08")
    return 1
