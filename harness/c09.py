"""C09: non-optimizable code and metadata are preserved; emitted items are well formed.

Theorems (Props/C09.v): on the model of the re-assembly, the skeleton (tags, JUMPDESTs, jumps,
terminals, splitting instructions with all their fields) is preserved for every replacement map
(C09_rebuild_skeleton); an emitted segment accepted by `wf_emitted` contains no skeleton
instruction and only canonical PUSH constants below 2^256 (C09_wf_segment_free, C09_wf_push).
Tie: whole-tool runs on shipped and synthesized documents under several option sets; the emitted
file is read with plain `json`; metadata compared field by field; for every instruction stream
`skeleton_eq` and, for every changed block, `wf_emitted` on the new items are evaluated by the
Coq kernel (vm_compute)."""
import glob
import json
import os
import random
import re
import shutil
from collections import Counter

from harness import common, docgen
from harness.c11 import run_tool

HDR = ("From Coq Require Import ZArith List Bool String.\nImport ListNotations.\n"
       "From GV Require Import Model.Split Model.WfItem.\nOpen Scope string_scope.\n")
BEGIN = {"tag", "JUMPDEST"}
END = {"JUMP", "JUMPI", "STOP", "RETURN", "REVERT", "INVALID", "SELFDESTRUCT"}


def cstr(s):
    return '"' + str(s).replace('"', '""') + '"'


class Payloads:
    def __init__(self):
        self.d = {}

    def of(self, it):
        key = json.dumps({k: v for k, v in it.items() if k not in ("name", "value")}, sort_keys=True)
        return self.d.setdefault(key, len(self.d))


# pseudo-pushes whose operand is a hexadecimal number (a data hash, a sub-assembly index): the assembler reads it
# as a number, so 'ADA3..' / 'ada3..' and '00..01' / '1' are the same real value (GASOL re-emits them in lower case
# and without leading zeros)
HEX_VALUED = {"PUSH data", "PUSH [$]", "PUSH #[$]"}


def item_coq(it, pay):
    v = it.get("value")
    if v is not None and it["name"] in HEX_VALUED:
        v = str(v).lower().lstrip("0") or "0"     # the same number: GASOL re-emits it in lower case without leading zeros
    return "mkI %s %s %d" % (cstr(it["name"]), "None" if v is None else "(Some %s)" % cstr(v), pay.of(it))


def streams(asm, path="asm"):
    """All (path, .code list) of an asm object, recursively through .data."""
    out = []
    if not isinstance(asm, dict):
        return out
    if ".code" in asm:
        out.append((path, asm[".code"]))
    for k, v in (asm.get(".data") or {}).items():
        if isinstance(v, dict):
            out += streams(v, path + "/.data/" + k)
    return out


def meta_of(asm):
    """Everything of an asm object except the instruction streams."""
    if not isinstance(asm, dict):
        return asm
    m = {k: v for k, v in asm.items() if k not in (".code", ".data")}
    if ".data" in asm:
        m[".data"] = {k: (meta_of(v) if isinstance(v, dict) else v) for k, v in asm[".data"].items()}
    m["has_code"] = ".code" in asm
    return m


def blocks(code):
    """Split a stream into basic blocks as the parser does (a block starts at a tag / ends after a terminal)."""
    res, cur = [], []
    for it in code:
        if it["name"] == "tag" and cur:
            res.append(cur); cur = []
        cur.append(it)
        if it["name"] in END:
            res.append(cur); cur = []
    if cur:
        res.append(cur)
    return res


def check(run):
    rng = random.Random(run.seed)
    ok = common.proof_stage(run, "Props/C09.v")
    run.cov["trusted_base"] += ["Model/Split.v is tied to rebuild_optimized_asm_block by C14's correspondence",
                                "harness/c09.py reads input and output with plain json; item fields other than name/value are "
                                "interned into the payload number of the Coq item",
                                "inputs are shipped examples and synthesized documents (sampled)"]
    if not ok:
        run.report({"kind": "proof-broken"}, "proof obligations of C09 no longer check: %s" % (run.proof_broken,),
                   {"theorem": "C09_rebuild_skeleton (Props/C09.v)", "detail": run.proof_broken}, found_input=False)
        return
    import sfs_generator.opcodes as opc
    # the assembler's vocabulary: every name sfs_generator.opcodes.get_opcode accepts
    cand = set(opc.opcodes.keys())
    for nm in dir(opc):
        v = getattr(opc, nm)
        if isinstance(v, (tuple, list, set)) and all(isinstance(x, str) for x in v):
            cand |= set(v)
    cand |= {"RETURNDATASIZE", "RETURNDATACOPY", "EXTCODEHASH", "SHL", "SHR", "SAR", "CREATE2", "STATICCALL", "SELFBALANCE",
             "CHAINID", "BASEFEE", "PUSH0", "MCOPY", "TLOAD", "TSTORE", "SELFDESTRUCT", "REVERT", "INVALID", "KECCAK256"}
    known = []
    for nm in sorted(cand):
        if nm.startswith("---"):
            continue
        try:
            opc.get_opcode(nm)
            known.append(nm)
        except Exception:
            pass
    quick = run.tier == "quick"
    work = os.path.join(common.WORK, "c09_%d" % os.getpid())
    shutil.rmtree(work, ignore_errors=True)
    os.makedirs(work)
    dist = Counter()
    try:
        inputs = sorted(glob.glob(os.path.join(common.REPO, "examples", "jsons-solc", "*.json_solc")), key=os.path.getsize)
        inputs = inputs[:3 if quick else 10]
        for k in range(6 if quick else 30):
            p = os.path.join(work, "synth%d.json_solc" % k)
            docgen.dump(docgen.document(rng.getrandbits(32), nblocks=rng.randint(3, 10), ncontracts=1 + (k % 3 == 0),
                                        with_noasm=(k % 2 == 0), max_len=18, multi_data=(k % 2 == 1), twin=(k % 3 == 1),
                                        failing=(k % 4 == 3)), p)
            inputs.append(p)
        optsets = [["-greedy"], ["-greedy", "-size", "-storage"], ["-greedy", "-push0", "-partition"]] if quick else \
            [["-greedy"], ["-greedy", "-size"], ["-greedy", "-storage"], ["-greedy", "-partition", "-length"], ["-greedy", "-push0"],
             ["-greedy", "-no-simplification"]]
        cases, meta = [], []
        evaluations = 0
        jobs = []
        for path in inputs:
            base = os.path.basename(path).split(".")[0]
            for oi, opts in enumerate(optsets):
                d = os.path.join(work, "%s_o%d" % (base, oi))
                os.makedirs(d)
                jobs.append((path, tuple(opts), d))
        from concurrent.futures import ThreadPoolExecutor
        with ThreadPoolExecutor(max_workers=max(2, min(10, (os.cpu_count() or 4) - 2))) as ex:
            outs = list(ex.map(lambda j: run_tool([j[0]] + list(j[1]), j[2], timeout=1500), jobs))
        tool_out = {(j[0], j[1]): o for j, o in zip(jobs, outs)}
        for path in inputs:
            base = os.path.basename(path).split(".")[0]
            with open(path) as fh:
                din = json.load(fh)
            for oi, opts in enumerate(optsets):
                d = os.path.join(work, "%s_o%d" % (base, oi))
                rc, out = tool_out[(path, tuple(opts))]
                evaluations += 1
                outf = os.path.join(d, base + "_optimized.json_solc")
                if rc != 0 or not os.path.exists(outf):
                    dist["tool-run-failed"] += 1
                    run.report({"kind": "no-output-file", "options": " ".join(opts)}, "no output for %s %s: %s" % (base, opts, out[-300:]),
                               {"input": base, "options": opts, "output": out[-1500:]}, True)
                    continue
                with open(outf) as fh:
                    dout = json.load(fh)
                sto = "-storage" in opts
                # --- metadata
                if {k: v for k, v in din.items() if k != "contracts"} != {k: v for k, v in dout.items() if k != "contracts"}:
                    run.report({"kind": "top-level-metadata"}, "top-level fields differ for %s %s" % (base, opts),
                               {"input": base, "options": opts}, True)
                if list(din["contracts"].keys()) != list(dout["contracts"].keys()):
                    run.report({"kind": "contracts-differ"}, "contract names differ for %s %s" % (base, opts),
                               {"input": base, "options": opts, "in": list(din["contracts"]), "out": list(dout["contracts"])}, True)
                    continue
                for cn in din["contracts"]:
                    ci, co = din["contracts"][cn], dout["contracts"][cn]
                    mi = {k: v for k, v in ci.items() if k != "asm"}
                    mo = {k: v for k, v in co.items() if k != "asm"}
                    if mi != mo or ("asm" in ci) != ("asm" in co) or meta_of(ci.get("asm")) != meta_of(co.get("asm")):
                        run.report({"kind": "contract-metadata"}, "metadata of contract %s differs for %s %s" % (cn, base, opts),
                                   {"input": base if "synth" not in base else din, "options": opts, "contract": cn,
                                    "in": meta_of(ci.get("asm")), "out": meta_of(co.get("asm"))}, True)
                        continue
                    si, so = streams(ci.get("asm")), streams(co.get("asm"))
                    for (pa, a), (pb, b) in zip(si, so):
                        dist["streams"] += 1
                        pay = Payloads()
                        ca = "[" + "; ".join(item_coq(x, pay) for x in a) + "]"
                        cb = "[" + "; ".join(item_coq(x, pay) for x in b) + "]"
                        ba, bb = blocks(a), blocks(b)
                        emitted = []
                        if len(ba) == len(bb):
                            for x, y in zip(ba, bb):
                                if x != y:
                                    dist["changed-blocks"] += 1
                                    new_items = [t for t in y if t["name"] not in BEGIN | END and t not in x]
                                    emitted.append(("[" + "; ".join(item_coq(t, pay) for t in x) + "]",
                                                    "[" + "; ".join(item_coq(t, pay) for t in new_items) + "]", x, y))
                        else:
                            dist["block-count-differs"] += 1
                        cases.append((sto, ca, cb, emitted))
                        meta.append({"input": base, "options": opts, "contract": cn, "stream": pa, "n_in": len(a), "n_out": len(b),
                                     "doc": din if "synth" in base else None})
        run.log("%d tool runs, %d instruction streams; evaluating skeleton_eq / wf_emitted in Coq" % (evaluations, len(cases)))
        kn = "[" + "; ".join(cstr(k) for k in known) + "]"
        files = []
        chunk = 25
        for c0 in range(0, len(cases), chunk):
            body = [HDR, "Definition known : list string := %s.\n" % kn]
            for j, (sto, ca, cb, emitted) in enumerate(cases[c0:c0 + chunk]):
                b = "true" if sto else "false"
                em = "[" + "; ".join("forallb (wf_emitted known %s %s) %s" % (b, x, y) for x, y, _, _ in emitted) + "]"
                body.append("Eval vm_compute in (skeleton_eq %s %s %s, %s).\n" % (b, ca, cb, em if emitted else "@nil bool"))
            files.append(("c09_%d_%d" % (os.getpid(), c0 // chunk), "".join(body), c0))
        res = common.run_cases_parallel([(n, b) for n, b, _ in files], timeout=900)
        nontriv = 0
        for n, _, c0 in files:
            okc, out = res[n]
            if not okc:
                raise RuntimeError("coqc failed on %s: %s" % (n, out[-600:]))
            vals = common.parse_eval_list(out)
            part = cases[c0:c0 + chunk]
            if len(vals) != len(part):
                raise RuntimeError("unexpected output of %s" % n)
            for k, (v, (sto, ca, cb, emitted)) in enumerate(zip(vals, part)):
                bools = [x == "true" for x in re.findall(r"\b(true|false)\b", v)]
                m = meta[c0 + k]
                if emitted:
                    nontriv += 1
                if not bools[0]:
                    run.report({"kind": "skeleton-changed"}, "skeleton of stream %s of %s differs (%s %s)" % (m["stream"], m["contract"], m["input"], m["options"]),
                               m, True)
                for okb, (x, y, old, new) in zip(bools[1:], emitted):
                    if not okb:
                        bad = [t for t in new if t not in old and t["name"] not in BEGIN | END]
                        run.report({"kind": "ill-formed-emitted-item", "names": sorted({t["name"] for t in bad})[:3]},
                                   "an emitted item is not a valid assembly item in %s %s: block %s => %s" % (
                                       m["input"], m["options"], [(t["name"], t.get("value")) for t in old][:30],
                                       [(t["name"], t.get("value")) for t in new][:30]),
                                   {"meta": m, "old_block": old, "new_block": new}, True)
        for n, _, _ in files:
            for ext in (".v", ".vo", ".glob", ".vos", ".vok"):
                try:
                    os.remove(os.path.join(common.COQ, "Cases", n + ext))
                except OSError:
                    pass
        run.cov["evaluations"] = len(cases)          # instruction streams judged by skeleton_eq (and wf_emitted on their changed blocks)
        run.cov["tool_runs"] = evaluations
        run.cov["distinct_nontrivial"] = nontriv
        run.cov["rule"] = ("whole-tool runs (input document x option set); one evaluation = one instruction stream judged by skeleton_eq, every changed "
                           "block by wf_emitted (Coq); non-trivial = streams in which at least one block was replaced")
        run.cov["distribution"] = dict(dist)
        run.add_sample({"inputs": [os.path.basename(p) for p in inputs][:8], "option_sets": optsets})
    finally:
        shutil.rmtree(work, ignore_errors=True)


def replay(run, path):
    print("re-run ./check C09 with seed", run.seed, "(whole-tool runs; the replay file holds the document and options)")
    return 1
