"""C10: every block is processed to completion; a failure costs at most that block.

Model (Props/C10.v): the per-contract driver as a map of a per-block function in which the
analysis may raise; theorems `contained` (the driver returns a contract whatever the analysis
does) and `fault_local` (changing/raising the analysis on block k changes the output at k only,
and a raise leaves block k as it was).  The model mirrors where gasol_asm.py has try/except.
Tie: (1) the real per-block pipeline (optimize + compare + keep-or-revert) on boundary-heavy
blocks under CPU/memory limits: no exception may escape, every block must finish within the
budget; (2) fault injection from the harness (the analysis entry point is made to raise for one
block of a contract): the run must finish and differ from the fault-free run only at that block,
which must be emitted unchanged.  CPU/RSS figures are measurements, not proofs."""
import glob
import json
import os
import random
import resource
import time
from collections import Counter

from harness import common, gasol, evmconv, pipeline, blockgen, docgen

BIG = "f" * 64
HARD_BLOCKS = [
    "PUSH 0 PUSH 5 DIV", "PUSH 0 PUSH 5 MOD", "PUSH 0 PUSH 5 SDIV", "PUSH 0 PUSH 5 SMOD", "PUSH 0 PUSH 3 PUSH 4 ADDMOD",
    "PUSH 0 PUSH 3 PUSH 4 MULMOD", "PUSH %s PUSH %s EXP" % (BIG, BIG), "PUSH %s PUSH 2 EXP" % BIG, "PUSH 1 PUSH %s SHL" % BIG,
    "PUSH 1 PUSH %s SHR" % BIG, "PUSH %s PUSH %s SAR" % (BIG, BIG), "PUSH 8000000000000000000000000000000000000000000000000000000000000000 PUSH %s SAR" % BIG,
    "PUSH %s PUSH %s MUL" % (BIG, BIG), "PUSH %s PUSH %s ADD" % (BIG, BIG), "PUSH 1 PUSH 0 SUB", "PUSH %s PUSH 1 DIV" % BIG,
    "PUSH %s PUSH 100 SHL" % BIG, "PUSH %s PUSH ff SHL" % BIG, "PUSH %s PUSH 100 SAR" % BIG, "PUSH %s NOT" % BIG, "PUSH 0 NOT",
    "NOT NOT", "NOT NOT NOT NOT", "DUP1 NOT NOT SWAP1 NOT NOT ADD", "NOT NOT DUP1 MSTORE", "TIMESTAMP NOT NOT",
    "ISZERO " * 12, "ISZERO " * 25, "DUP1 " * 17 + "ADD " * 17, "DUP16 " * 20, " ".join("PUSH %x" % i for i in range(1, 20)) + " " + "ADD " * 18,
    "SWAP16 SWAP15 SWAP14 SWAP13 SWAP12 SWAP11 SWAP10 SWAP9 SWAP8 SWAP7 SWAP6 SWAP5 SWAP4 SWAP3 SWAP2 SWAP1",
    "PUSH 21 DUP1 SDIV SLOAD", "PUSH 21 DUP1 DIV MLOAD", "PUSH 3 PUSH 7 SMOD", "PUSH %s PUSH 3 SIGNEXTEND" % BIG, "PUSH %s PUSH 1f BYTE" % BIG,
    "ASSIGNIMMUTABLE 5 PUSH 1 PUSH 2 ADD", "PUSH 0 SELFDESTRUCT POP JUMP",
]
# constants between 2^16 and 2^40 as shift amounts / exponents / indices: the cost of folding must not grow with the
# NUMBER written in the block (the obvious boundary values 2^256-1 fail fast; these are the ones that would allocate)
for _op in ("SHL", "SHR", "SAR", "EXP", "SIGNEXTEND", "BYTE"):
    for _c in ("10000", "1000000", "8000000", "80000000", "800000000", "8000000000"):
        HARD_BLOCKS.append("PUSH 1 PUSH %s %s" % (_c, _op))
        HARD_BLOCKS.append("PUSH 3 PUSH %s %s" % (_c, _op))
        HARD_BLOCKS.append("PUSH %s PUSH 3 %s" % (_c, _op))
for _c in ("10000", "8000000", "80000000"):
    HARD_BLOCKS += ["PUSH %s PUSH 5 PUSH 7 ADDMOD" % _c, "PUSH 7 PUSH %s DUP1 MULMOD" % _c, "PUSH %s DUP1 MUL DUP1 MUL DUP1 MUL" % _c]


def _one(params, text):
    """Worker: the keep-or-revert pipeline of one block, with CPU time and peak RSS."""
    import gasol_asm
    from sfs_generator.parser_asm import parse_blocks_from_plain_instructions
    t0 = time.process_time()
    r0 = resource.getrusage(resource.RUSAGE_SELF).ru_maxrss
    out = []
    for old in parse_blocks_from_plain_instructions(text, "block", ""):
        new, log, stats = gasol_asm.optimize_asm_block_asm_format(old, params)
        eq, reason = gasol_asm.compare_asm_block_asm_format(old, new, params)
        kept = new if eq else old
        out.append({"old": old.to_plain(), "new": kept.to_plain(), "eq": bool(eq)})
    gasol.cleanup_process()
    return {"blocks": out, "cpu": time.process_time() - t0,
            "rss_kb": resource.getrusage(resource.RUSAGE_SELF).ru_maxrss,
            "rss_growth_kb": resource.getrusage(resource.RUSAGE_SELF).ru_maxrss - r0, "n_instr": len(text.split())}


def _contract(params, job):
    """Worker: optimize a whole json_solc as optimize_asm_in_asm_format does; job = (path, fault_block_name or None).
    Returns the plain text of every emitted block, by name."""
    import gasol_asm
    import sfs_generator.ir_block as ir_block
    from sfs_generator.parser_asm import parse_asm
    path, fault = job[0], job[1]
    site = job[2] if len(job) > 2 else "analysis"       # analysis | backend | backend-mid
    params.input_file = path
    calls = {"n": 0}
    orig_ob = gasol_asm.optimize_block
    orig_vb = gasol_asm.verify_block_from_list_of_sfs
    if fault is not None and site == "compare-verify":
        # the comparison of the two specifications raises for one block: Model/Contain.v verify = false
        # (theorem rejected_kept)
        def faulty_vb(old_sfs, new_sfs):
            if any(k == fault or k.rsplit("_", 1)[0] == fault for k in old_sfs):
                calls["n"] += 1
                raise Exception("injected comparison failure", 6)
            return orig_vb(old_sfs, new_sfs)
        gasol_asm.verify_block_from_list_of_sfs = faulty_vb
        fault_analysis = None
    elif fault is not None and site == "compare-new":
        fault_analysis = fault          # raised only for the re-analysis of the candidate (compare_failure_kept)
    elif fault is not None and site != "analysis":
        # the search/rebuild stage raises for the sub-blocks of one block, at the call or after the first
        # sub-block has been optimized: Model/Contain.v backend b s = Raise (theorems backend_failure_kept,
        # backend_fault_local)
        def faulty_ob(sfs_dict, params_):
            hit = any(k == fault or k.rsplit("_", 1)[0] == fault for k in sfs_dict)
            if not hit:
                yield from orig_ob(sfs_dict, params_)
                return
            calls["n"] += 1
            if site == "backend-mid":
                for n, item in enumerate(orig_ob(sfs_dict, params_)):
                    yield item
                    break
            raise Exception("injected back-end failure", 5)
        gasol_asm.optimize_block = faulty_ob
        fault_analysis = None
    else:
        fault_analysis = fault
    if fault_analysis is not None:
        orig = ir_block.evm2rbr_compiler

        def faulty(*a, **kw):
            name = kw.get("block_name", "")
            if (name == fault and site != "compare-new") or name == "alreadyOptimized_" + fault:
                calls["n"] += 1
                raise Exception("injected analysis failure", 4)
            return orig(*a, **kw)
        ir_block.evm2rbr_compiler = faulty
    asm = parse_asm(path)
    res = {}
    try:
        for c in asm.contracts:
            if not c.has_asm_field:
                continue
            newc, _, _, _ = gasol_asm.optimize_asm_contract(c, params)
            for b in newc.init_code:
                res["%s|init|%s" % (c.contract_name, b.block_name)] = b.to_plain()
            for ident in newc.get_data_ids_with_code():
                for b in newc.get_run_code(ident):
                    res["%s|%s|%s" % (c.contract_name, ident, b.block_name)] = b.to_plain()
    finally:
        gasol_asm.optimize_block = orig_ob
        gasol_asm.verify_block_from_list_of_sfs = orig_vb
        if fault_analysis is not None:
            ir_block.evm2rbr_compiler = orig       # the worker process is reused for the next job
    orig_blocks = {}
    for c in asm.contracts:
        if not c.has_asm_field:
            continue
        for b in c.init_code:
            orig_blocks["%s|init|%s" % (c.contract_name, b.block_name)] = b.to_plain()
        for ident in c.get_data_ids_with_code():
            for b in c.get_run_code(ident):
                orig_blocks["%s|%s|%s" % (c.contract_name, ident, b.block_name)] = b.to_plain()
    gasol.cleanup_process()
    return {"out": res, "orig": orig_blocks, "fault_calls": calls["n"]}


def check(run):
    rng = random.Random(run.seed)
    ok = common.proof_stage(run, "Props/C10.v")
    run.cov["trusted_base"] += ["the model of gasol_asm.py's exception containment is hand-written (Model/Contain.v) and tied by fault injection",
                                "termination within a budget is MEASURED per generated block (CPU time, peak RSS), not proved: partial"]
    if not ok:
        run.report({"kind": "proof-broken"}, "proof obligations of C10 no longer check: %s" % (run.proof_broken,),
                   {"theorem": "contained / fault_local (Props/C10.v)", "detail": run.proof_broken}, found_input=False)
        return
    quick = run.tier == "quick"
    dist = Counter()
    CPU_BUDGET, RSS_BUDGET_KB = 20.0, 1500000
    texts = [t.strip() for t in HARD_BLOCKS] + blockgen.snippet_blocks()
    texts += blockgen.gen_blocks(rng.getrandbits(32), 150 if quick else 1500, max_len=40)
    cdir = os.path.join(common.VERIF, "corpus", "C10")
    for f in sorted(glob.glob(os.path.join(cdir, "*.txt"))):
        texts += [l.strip() for l in open(f) if l.strip() and not l.startswith("#")]
    evaluations, worst = 0, (0.0, "")
    for opts in ([["-greedy"], ["-greedy", "-size"]] if quick else [["-greedy"], ["-greedy", "-size"], ["-greedy", "-storage"],
                                                                     ["-greedy", "-partition"], ["-greedy", "-no-simplification"]]):
        res = gasol.pmap(_one, texts, init=pipeline._init, initargs=(opts,), timeout=60, mem_gb=3)
        for txt, (st, val) in zip(texts, res):
            evaluations += 1
            dist["block:" + st] += 1
            if st == "ok":
                if val["cpu"] > worst[0]:
                    worst = (val["cpu"], txt)
                n = val.get("n_instr", len(txt.split()))
                # budget proportional to the block: more than ten times what the slowest generated block of that size needs
                cpu_b = min(CPU_BUDGET, 2.0 + 0.25 * n)
                grow_b = 100000 + 5000 * n
                if val["cpu"] > cpu_b or val["rss_kb"] > RSS_BUDGET_KB or val.get("rss_growth_kb", 0) > grow_b:
                    run.report({"kind": "over-budget"}, "block of %d instructions needs %.1fs CPU (budget %.1f) / peak %d kB, growth %d kB (budget %d): %s" % (
                                   n, val["cpu"], cpu_b, val["rss_kb"], val.get("rss_growth_kb", 0), grow_b, txt[:200]),
                               {"block": txt, "options": opts, "cpu_s": val["cpu"], "rss_kb": val["rss_kb"],
                                "rss_growth_kb": val.get("rss_growth_kb", 0), "budget": {"cpu_s": cpu_b, "rss_growth_kb": grow_b}}, True)
                continue
            kind = {"exc": "exception-escapes-block-pipeline", "timeout": "does-not-terminate-in-budget",
                    "memory": "memory-budget-exceeded", "crash": "worker-crashed"}.get(st, st)
            ops = sorted({t for t in txt.split() if t.isalpha() or t[:3] in ("DUP", "SWA")})
            cause = str(val).split(":")[0] if st == "exc" else ""
            run.report({"kind": kind, "cause": cause[:60]},
                       "%s on block %s (options %s): %s" % (kind, txt[:300], " ".join(opts), str(val)[:200]),
                       {"block": txt, "options": opts, "outcome": st, "detail": str(val)[:500],
                        "replay_cmd": "./check C10 --replay <this file>"}, True)
    dist["max_cpu_s"] = round(worst[0], 2)
    run.cov["slowest_block"] = {"cpu_s": round(worst[0], 2), "block": worst[1][:300]}
    # ---- fault injection on contracts
    work = os.path.join(common.WORK, "c10_%d" % os.getpid())
    os.makedirs(work, exist_ok=True)
    try:
        paths = []
        for k in range(2 if quick else 6):
            p = os.path.join(work, "synth%d.json_solc" % k)
            docgen.dump(docgen.document(rng.getrandbits(32), nblocks=rng.randint(5, 9), with_noasm=(k % 2 == 0), max_len=14,
                                        multi_data=(k % 2 == 1), failing=(k % 3 == 0)), p)
            paths.append(p)
        shipped = sorted(glob.glob(os.path.join(common.REPO, "examples", "jsons-solc", "*.json_solc")), key=os.path.getsize)
        paths += shipped[:1 if quick else 3]
        base = gasol.pmap(_contract, [(p, None) for p in paths], init=pipeline._init, initargs=(["-greedy"],), timeout=900)
        jobs, meta = [], []
        for p, (st, val) in zip(paths, base):
            evaluations += 1
            if st != "ok":
                run.report({"kind": "contract-run-fails", "outcome": st}, "fault-free run on %s: %s %s" % (os.path.basename(p), st, str(val)[:200]),
                           {"input": p if "synth" not in p else json.load(open(p)), "outcome": st, "detail": str(val)[:500]}, True)
                continue
            names = [k for k in val["orig"] if val["orig"][k].strip()]
            # only blocks that have something to optimize go through the analysis
            rng.shuffle(names)
            for nm in names[:(8 if quick else 25)]:
                jobs.append((p, nm.split("|")[-1]))
                meta.append((p, nm, val, "analysis"))
            for i, nm in enumerate(names[:(6 if quick else 20)]):
                site = "backend" if i % 2 == 0 else "backend-mid"
                jobs.append((p, nm.split("|")[-1], site))
                meta.append((p, nm, val, site))
            # the comparison is reached only for blocks the optimizer changed
            changed = [k for k in names if val["out"].get(k) != val["orig"].get(k)]
            for i, nm in enumerate(changed[:(6 if quick else 20)]):
                site = "compare-new" if i % 2 == 0 else "compare-verify"
                jobs.append((p, nm.split("|")[-1], site))
                meta.append((p, nm, val, site))
        res = gasol.pmap(_contract, jobs, init=pipeline._init, initargs=(["-greedy"],), timeout=900)
        for (p, nm, basev, site), (st, val) in zip(meta, res):
            evaluations += 1
            tag = "fault" if site == "analysis" else "fault-" + site
            if st != "ok":
                dist[tag + ":" + st] += 1
                run.report({"kind": "fault-not-contained", "outcome": st, "site": site},
                           "%s failure injected at block %s of %s is not contained: %s %s" % (site, nm, os.path.basename(p), st, str(val)[:200]),
                           {"input": os.path.basename(p), "block": nm, "site": site, "outcome": st, "detail": str(val)[:500]}, True)
                continue
            if val["fault_calls"] == 0:
                dist[tag + ":not-reached"] += 1
                continue
            dist[tag + ":contained"] += 1
            bname = nm.split("|")[-1]
            for k in basev["out"]:
                same_name = k.split("|")[-1] == bname
                if same_name:
                    if val["out"].get(k) != basev["orig"].get(k):
                        run.report({"kind": "faulty-block-not-kept", "site": site}, "block %s is not emitted unchanged after an injected %s failure" % (k, site),
                                   {"input": os.path.basename(p), "block": k, "site": site, "orig": basev["orig"].get(k), "out": val["out"].get(k)}, True)
                elif val["out"].get(k) != basev["out"].get(k):
                    run.report({"kind": "fault-affects-other-block", "site": site},
                               "%s failure at %s changed block %s" % (site, nm, k),
                               {"input": os.path.basename(p), "fault_at": nm, "site": site, "block": k, "fault_free": basev["out"].get(k), "with_fault": val["out"].get(k)}, True)
    finally:
        import shutil
        shutil.rmtree(work, ignore_errors=True)
    run.cov["evaluations"] = evaluations
    run.cov["distinct_nontrivial"] = len(set(texts)) + dist["fault:contained"] + dist["fault-backend:contained"] + dist["fault-backend-mid:contained"] + dist["fault-compare-new:contained"] + dist["fault-compare-verify:contained"]
    run.cov["rule"] = ("per-block pipeline runs under rlimits (distinct block texts incl. boundary constants, NOT NOT, ISZERO chains, "
                       "17+ live values) and per-contract runs with an injected failure at one block: in the analysis, at the call of the "
                       "search/rebuild stage, or after its first sub-block")
    run.cov["distribution"] = dict(dist)
    run.add_sample({"hard_blocks": HARD_BLOCKS[:6], "budget": {"cpu_s": CPU_BUDGET, "rss_kb": RSS_BUDGET_KB}})


def replay(run, path):
    with open(path) as fh:
        d = json.load(fh)
    rp = d["replay"]
    if "block" in rp and "options" in rp and isinstance(rp["block"], str) and "input" not in rp:
        res = gasol.pmap(_one, [rp["block"]], init=pipeline._init, initargs=(rp["options"],), timeout=60, mem_gb=3)
        print(res)
        return 0 if res[0][0] == "ok" else 1
    print("contract-level replay: re-run ./check C10 with the same seed", run.seed)
    return 1
