"""C11: log replay reproduces the optimized code and rejects tampered logs.

Theorem side (Props/C11.v): on the pipeline model, a replay that keeps a block only when the
validator accepts it is, for EVERY log, either an error or a block observationally equivalent to
the input (`replay_safe`); replaying the log the run itself wrote reproduces the run
(`replay_own_log`, on the model where rebuild is a function of block and log).
Tie: whole-tool runs `-log` then `-optimize-from-log`: byte equality of the two output files; and
tampered logs: the tool must exit with an error or emit a file whose every block is accepted by
`equiv_block` (Coq) against the input block."""
import copy
import glob
import json
import os
import random
import shutil
import subprocess
import sys
from collections import Counter

from harness import common, gasol, evmconv, pipeline, docgen

PY = "/venv/bin/python"


def run_tool(args, cwd, timeout=600):
    env = dict(os.environ)
    env["PYTHONPATH"] = common.REPO + ":" + common.VERIF
    env["PYTHONHASHSEED"] = env.get("PYTHONHASHSEED", "0")
    try:
        p = subprocess.run([PY, "-W", "ignore", "-m", "harness.run_tool"] + args, cwd=cwd, env=env,
                           stdout=subprocess.PIPE, stderr=subprocess.STDOUT, timeout=timeout, text=True)
        return p.returncode, p.stdout
    except subprocess.TimeoutExpired as e:
        return 124, "timeout"


def blocks_of(path):
    """[(contract, where, index, items)] for every block of a json_solc file."""
    from sfs_generator.parser_asm import parse_asm
    import global_params.constants as constants
    asm = parse_asm(path)
    out = []
    for c in asm.contracts:
        if not c.has_asm_field:
            continue
        for i, b in enumerate(c.init_code):
            out.append((c.contract_name, "init", i, evmconv.items_of_block(b)))
        for ident in c.get_data_ids_with_code():
            for i, b in enumerate(c.get_run_code(ident)):
                out.append((c.contract_name, "run" + str(ident), i, evmconv.items_of_block(b)))
    return out


def tamper(log, rng, other_ids):
    """One tampered copy of the log and a description."""
    L = copy.deepcopy(log)
    keys = [k for k in L if L[k]]
    if not keys:
        L["nonexistent_block_0"] = ["POP"]
        return L, "foreign-key"
    k = rng.choice(keys)
    ids = L[k]
    kind = rng.choice(["swap", "delete", "duplicate", "reverse", "foreign", "garbage", "stack-op", "empty", "drop-key",
                       "dup-index", "truncate", "store-to-pops", "store-to-pops", "drop-store-and-operands"])
    stores = [i for i, x in enumerate(ids) if "STORE" in x]
    if kind in ("store-to-pops", "drop-store-and-operands") and not stores:
        # prefer a block that has a store
        ks = [q for q in keys if any("STORE" in x for x in L[q])]
        if ks:
            k = rng.choice(ks); ids = L[k]
            stores = [i for i, x in enumerate(ids) if "STORE" in x]
    if kind == "swap" and len(ids) >= 2:
        i, j = rng.sample(range(len(ids)), 2)
        ids[i], ids[j] = ids[j], ids[i]
    elif kind == "delete":
        ids.pop(rng.randrange(len(ids)))
    elif kind == "duplicate":
        i = rng.randrange(len(ids)); ids.insert(i, ids[i])
    elif kind == "reverse":
        ids.reverse()
    elif kind == "foreign" and other_ids:
        ids[rng.randrange(len(ids))] = rng.choice(other_ids)
    elif kind == "garbage":
        ids[rng.randrange(len(ids))] = rng.choice(["FOO_7", "", "PUSH", "SWAP0", "DUP17", "ADD_99"])
    elif kind == "stack-op":
        ids.insert(rng.randrange(len(ids) + 1), rng.choice(["POP", "DUP1", "SWAP1", "DUP2", "SWAP2"]))
    elif kind == "empty":
        L[k] = []
    elif kind == "drop-key":
        del L[k]
    elif kind == "dup-index":
        for i, x in enumerate(ids):
            if x.startswith(("DUP", "SWAP")) and x[-1].isdigit():
                n = int("".join(ch for ch in x if ch.isdigit()))
                ids[i] = x.rstrip("0123456789") + str(n % 16 + 1)
                break
        else:
            ids.append("DUP1")
    elif kind == "truncate":
        L[k] = ids[:len(ids) // 2]
    elif kind == "store-to-pops" and stores:
        # the write disappears but the stack effect is kept: only a checker that counts every kind of store notices
        s8 = [j for j in stores if "STORE8" in ids[j]]
        i = rng.choice(s8 if s8 and rng.random() < 0.6 else stores)
        ids[i:i + 1] = ["POP", "POP"]
    elif kind == "drop-store-and-operands" and stores:
        i = rng.choice(stores)
        w = rng.randint(1, 3)
        del ids[max(0, i - w):i + 1]
    else:
        ids.append("POP")
        kind += "->append-pop"
    return L, kind


def check(run):
    rng = random.Random(run.seed)
    ok = common.proof_stage(run, "Props/C11.v")
    run.cov["trusted_base"] += ["reference semantics Ref/Word.v, Ref/EVM.v; harness/evmconv.py; whole-tool runs through harness/run_tool.py",
                                "inputs and logs are generated/tampered (sampled); the all-states quantifier is the validator's theorem"]
    if not ok:
        run.report({"kind": "proof-broken"}, "proof obligations of C11 no longer check: %s" % (run.proof_broken,),
                   {"theorem": "replay_safe / replay_own_log (Props/C11.v)", "detail": run.proof_broken}, found_input=False)
        return
    quick = run.tier == "quick"
    work = os.path.join(common.WORK, "c11_%d" % os.getpid())
    shutil.rmtree(work, ignore_errors=True)
    os.makedirs(work)
    dist = Counter()
    try:
        inputs = []
        shipped = sorted(glob.glob(os.path.join(common.REPO, "examples", "jsons-solc", "*.json_solc")), key=os.path.getsize)
        inputs += shipped[:2 if quick else 4]
        for k in range(3 if quick else 9):
            p = os.path.join(work, "synth%d.json_solc" % k)
            docgen.dump(docgen.document(rng.getrandbits(32), nblocks=rng.randint(4, 9), with_noasm=(k % 2 == 0), max_len=16,
                                        multi_data=(k % 2 == 0), twin=(k % 3 == 1), failing=(k % 3 == 2)), p)
            inputs.append(p)
        optsets = [["-greedy"], ["-greedy", "-size", "-push0"], ["-ub-greedy", "-solver", "z3", "--prefer-greedy"]] if quick else \
            [["-greedy"], ["-greedy", "-size"], ["-greedy", "-storage"], ["-greedy", "-partition", "-length"], ["-greedy", "-push0"],
             ["-ub-greedy", "-solver", "z3"], ["-ub-greedy", "-solver", "z3", "--prefer-greedy"]]
        ntamper = 6 if quick else 14
        evaluations, nontrivial = 0, 0
        pending_pairs, pending_meta = [], []
        import threading
        from concurrent.futures import ThreadPoolExecutor
        lock = threading.Lock()
        counters = {"evaluations": 0, "nontrivial": 0}

        def unit(job):
            path, oi, opts, urng = job
            rng = urng                       # every unit has its own generator (derived from the run's seed)
            base = os.path.basename(path).split(".")[0]
            evaluations, nontrivial = 0, 0
            try:
                if "-solver" in opts and os.path.getsize(path) > 60000:
                    return
                d = os.path.join(work, "%s_o%d" % (base, oi))
                os.makedirs(d)
                # "--prefer-greedy" is a scenario of harness/run_tool.py for the optimization run only
                ropts = [o for o in opts if o != "--prefer-greedy"]
                rc, out = run_tool([path] + opts + ["-log"], d)
                opts = ropts
                evaluations += 1
                if rc != 0:
                    with lock:
                        dist["optimize-run-failed"] += 1
                        run.notes.append("optimization run failed on %s %s: %s" % (base, opts, out[-200:]))
                    return
                logf = os.path.join(d, base + ".log")
                optf = os.path.join(d, base + "_optimized.json_solc")
                with open(logf) as fh:
                    log = json.load(fh)
                with lock:
                    dist["log-entries:%s" % ("0" if not log else "1-5" if len(log) <= 5 else "6+")] += 1
                rc, out = run_tool([path] + opts + ["-optimize-from-log", logf], d)
                evaluations += 1
                repf = os.path.join(d, base + "_optimized_from_log.json_solc")
                if rc != 0 or not os.path.exists(repf):
                    with lock:
                        dist["replay-own-log:error"] += 1
                        run.report({"kind": "own-log-rejected", "options": " ".join(opts)},
                                   "replaying the log of the same run on %s %s stops with an error: %s" % (base, opts, out[-300:]),
                                   {"input": path, "options": opts, "log": log, "output": out[-1500:]}, True)
                    return
                same = open(optf, "rb").read() == open(repf, "rb").read()
                with lock:
                    dist["replay-own-log:%s" % ("identical" if same else "differs")] += 1
                if log:
                    nontrivial += 1
                if not same:
                    # which blocks differ (optimized file vs file rebuilt from the log)
                    diffs = []
                    try:
                        with lock:
                            b1, b2 = blocks_of(optf), blocks_of(repf)
                        for (c1, w1, i1, x), (c2, w2, i2, y) in zip(b1, b2):
                            if x != y:
                                diffs.append({"contract": c1, "where": w1, "index": i1,
                                              "optimized": " ".join(pipeline._plain(x)), "replayed": " ".join(pipeline._plain(y))})
                    except Exception as e:  # noqa
                        diffs.append({"error": str(e)[:200]})
                    doc = None
                    if "synth" in base:
                        with open(path) as fh:
                            doc = json.load(fh)
                    with lock:
                        run.report({"kind": "own-log-differs", "options": " ".join(opts)},
                                   "replay of the run's own log differs from the optimized file on %s %s: %s" % (base, opts, str(diffs[:1])[:400]),
                                   {"input": path if doc is None else doc, "options": opts, "log": log, "differing_blocks": diffs[:10]}, True)
                # tampered logs
                all_ids = sorted({x for v in log.values() for x in v})
                orig_blocks = None
                # systematic part: every byte store of the log is replaced by two POPs (up to 3 per log), then random tampering
                systematic = []
                for key in sorted(log):
                    for pos, x in enumerate(log[key]):
                        if "STORE8" in x and len(systematic) < 3:
                            tl0 = copy.deepcopy(log)
                            tl0[key][pos:pos + 1] = ["POP", "POP"]
                            systematic.append((tl0, "store8-to-pops"))
                for t in range((ntamper if log else 1) + len(systematic)):
                    tl, kind = systematic[t] if t < len(systematic) else tamper(log, rng, all_ids)
                    if tl == log:
                        continue
                    tf = os.path.join(d, "tampered_%d.log" % t)
                    with open(tf, "w") as fh:
                        json.dump(tl, fh)
                    if os.path.exists(repf):
                        os.remove(repf)
                    rc, out = run_tool([path] + opts + ["-optimize-from-log", tf], d)
                    evaluations += 1
                    nontrivial += 1
                    if rc != 0 or not os.path.exists(repf):
                        with lock:
                            dist["tampered:%s:error" % kind] += 1
                        continue
                    with lock:
                        dist["tampered:%s:accepted" % kind] += 1
                    if orig_blocks is None:
                        with lock:                      # the parser keeps module-level state
                            orig_blocks = blocks_of(path)
                    with lock:
                        new_blocks = blocks_of(repf)
                    if len(new_blocks) != len(orig_blocks):
                        with lock:
                            run.report({"kind": "tampered-log-changes-block-structure"}, "tampered log (%s) changes the number of blocks" % kind,
                                       {"input": path, "options": opts, "log": tl, "tamper": kind}, True)
                        continue
                    for (c1, w1, i1, a), (c2, w2, i2, b) in zip(orig_blocks, new_blocks):
                        if a != b:
                            with lock:
                                pending_pairs.append((a, b))
                                pending_meta.append({"input": path, "options": opts, "log": tl, "tamper": kind, "contract": c1,
                                                     "where": w1, "index": i1})
            finally:
                with lock:
                    counters["evaluations"] += evaluations
                    counters["nontrivial"] += nontrivial

        jobs = [(path, oi, opts, random.Random(rng.getrandbits(64))) for path in inputs for oi, opts in enumerate(optsets)]
        with ThreadPoolExecutor(max_workers=max(2, min(10, (os.cpu_count() or 4) - 2))) as ex:
            list(ex.map(unit, jobs))
        evaluations, nontrivial = counters["evaluations"], counters["nontrivial"]
        run.log("%d tool runs; %d changed blocks from accepted tampered logs to validate" % (evaluations, len(pending_pairs)))
        if pending_pairs:
            seen, up, um = set(), [], []
            for p, m in zip(pending_pairs, pending_meta):
                k = json.dumps(p)
                if k not in seen:
                    seen.add(k); up.append(p); um.append(m)
            verdicts = pipeline.coq_pairs(up, "c11")
            dist["tampered-accepted-blocks:equivalent"] = sum(1 for v in verdicts if v)
            dist["tampered-accepted-blocks:rejected"] = sum(1 for v in verdicts if v is False)
            for (a, b), m, v in zip(up, um, verdicts):
                if v is False:
                    w = pipeline.search_witness(a, b, rng, "c11w")
                    m2 = dict(m); m2["witness"] = w
                    m2["input_block"] = " ".join(pipeline._plain(a)); m2["emitted_block"] = " ".join(pipeline._plain(b))
                    run.report({"kind": "tampered-log-accepted", "tamper": m["tamper"], "witness": (w or {}).get("kind", "none")},
                               "a tampered log (%s) was replayed without error and changed behaviour: %s => %s" % (
                                   m["tamper"], m2["input_block"], m2["emitted_block"]), m2,
                               found_input=bool(w and ("state" in w or w.get("kind") == "events-differ")))
        run.cov["evaluations"] = evaluations
        run.cov["distinct_nontrivial"] = nontrivial
        run.cov["rule"] = ("whole-tool runs: optimize with -log, replay the log, replay tampered logs; non-trivial = replays of a "
                           "non-empty log or of a tampered log")
        run.cov["distribution"] = dict(dist)
        run.add_sample({"inputs": [os.path.basename(p) for p in inputs], "option_sets": optsets})
    finally:
        shutil.rmtree(work, ignore_errors=True)


def replay(run, path):
    with open(path) as fh:
        d = json.load(fh)
    rp = d["replay"]
    work = os.path.join(common.WORK, "c11r_%d" % os.getpid())
    os.makedirs(work, exist_ok=True)
    try:
        tf = os.path.join(work, "replay.log")
        with open(tf, "w") as fh:
            json.dump(rp["log"], fh)
        rc, out = run_tool([rp["input"]] + rp["options"] + ["-optimize-from-log", tf], work)
        print("exit", rc)
        print(out[-1500:])
        return 0 if rc != 0 else 1
    finally:
        shutil.rmtree(work, ignore_errors=True)
