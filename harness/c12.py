"""C12  A block's result does not depend on what was processed before it.

Proof side  : gen/gen_frame.py regenerates Gen/FrameTables.v (module-global footprints, call
              graph, reset set R, accumulators, checked premises of the invariant-covered names)
              from /repo's ASTs; Props/C12.v closes `exposed = []` on them by vm_compute and
              instantiates the generic frame theorem of Model/Frame*.v.
Dynamic side: (a) footprint validation: in forked workers (one process = one option set) every
              module global of every loaded /repo module is snapshotted around each block of a
              random history; changed names must be in the static write set of the per-block cone;
              (b) the conclusion: result(B | H) = result(B | empty) on the SFS dict, the optimized
              block, the greedy ids/log entry, the statistics rows and the checker verdict;
              (c) pair search: for every name of interest (exposed names if the proof broke, else
              the invariant-covered and accumulator names) histories leaving different values in it
              are built and followed by target blocks.
"""
import copy
import json
import os
import random
import re
import sys
import time

from harness import common, gasol

CONTRACT = "examples/jsons-solc/0x363c421901B7BDCa0f2a17dA03948D676bE350E4.json_solc"

OPTION_SETS = {
    "default": ["-greedy"],
    "storage": ["-greedy", "-storage"],
    "partition": ["-greedy", "-partition"],
    "size": ["-greedy", "-size"],
    "nosimp": ["-greedy", "-no-simplification"],
    "terminal": ["-greedy", "-terminal"],
}

_BLOCKS = []        # filled in the parent before forking: list of AsmBlock
_TRACKED = None     # None: snapshot everything; else set of dotted names


# ---------------------------------------------------------------------------
# blocks

def contract_blocks(path=None):
    from sfs_generator.parser_asm import parse_asm
    asm = parse_asm(path or os.path.join(common.REPO, CONTRACT))
    out = []
    for c in asm.contracts:
        if not c.has_asm_field:
            continue
        out += list(c.init_code)
        for ident in c.get_data_ids_with_code():
            out += list(c.get_run_code(ident))
    return out


_OPS = [  # name, consumed, produced
    ("ADD", 2, 1), ("MUL", 2, 1), ("SUB", 2, 1), ("DIV", 2, 1), ("MOD", 2, 1), ("AND", 2, 1), ("OR", 2, 1),
    ("XOR", 2, 1), ("LT", 2, 1), ("GT", 2, 1), ("EQ", 2, 1), ("ISZERO", 1, 1), ("NOT", 1, 1),
    ("SLT", 2, 1), ("SGT", 2, 1), ("ADDMOD", 3, 1), ("MULMOD", 3, 1), ("SHL", 2, 1), ("SHR", 2, 1),
    ("MLOAD", 1, 1), ("MSTORE", 2, 0), ("SLOAD", 1, 1), ("SSTORE", 2, 0), ("MSTORE8", 2, 0),
    ("KECCAK256", 2, 1), ("CALLVALUE", 0, 1), ("CALLER", 0, 1), ("ADDRESS", 0, 1), ("TIMESTAMP", 0, 1),
    ("CALLDATALOAD", 1, 1), ("CALLDATASIZE", 0, 1), ("BALANCE", 1, 1), ("POP", 1, 0), ("GAS", 0, 1),
    ("LOG1", 3, 0), ("CALLDATACOPY", 3, 0),
]
_SMALL = [0, 1, 2, 3, 4, 0x20, 0x40, 0x60, 0x80, 0xff]
_BIG = [2 ** 256 - 1, 2 ** 160 - 1, 2 ** 255, 0xffffffff]


LEAVING_BLOCKS = [
    "DUP2 DUP2 ADD SWAP2 ADD", "DUP2 DUP2 MUL SWAP2 MUL", "DUP2 DUP2 AND SWAP2 AND", "DUP1 DUP3 ADD DUP3 DUP3 ADD ADD",
    "PUSH 1 PUSH 2 SSTORE PUSH 4 PUSH 3 SHA3", "PC PUSH 1 ADD", "PUSH 1 PUSH 2 SSTORE PC", "DUP1 MLOAD PUSH 5 PUSH 6 MSTORE PC POP",
    "PUSH 1 PUSH 2 ADD", "PUSH 0 ADD", "NOT NOT", "DUP1 MLOAD DUP2 MLOAD ADD SWAP1 MSTORE", "PUSH 20 PUSH 0 KECCAK256 POP",
    "PUSH 7 PUSH 0 MSTORE PUSH 0 MLOAD", "DUP1 SLOAD DUP2 SLOAD ADD SWAP1 SSTORE",
]
TARGET_BLOCKS = [
    "PUSH 1 PUSH 2 ADD POP SSTORE SWAP1 POP", "SSTORE SWAP1 POP", "PUSH 0 ADD SSTORE", "DUP2 DUP2 SSTORE POP POP", "PUSH 0 ADD MSTORE",
    "PUSH 1 PUSH 2 ADD SWAP1 MSTORE", "DUP1 SLOAD SWAP1 SSTORE", "PUSH 3 PUSH 4 MUL DUP2 MSTORE8 POP", "DUP2 DUP2 ADD SWAP2 ADD SWAP1 SSTORE",
    "PUSH 1 PUSH 2 ADD POP MSTORE SWAP1 POP", "DUP3 DUP3 ADD DUP2 SSTORE POP POP POP", "PUSH 5 PUSH 0 MSTORE PUSH 0 MLOAD PUSH 1 PUSH 1 ADD ADD",
]


def gen_block_text(rng, n=None):
    """Random plain-text block without underflow beyond 6 inputs; shifts only with small constants."""
    n = n or rng.choice([3, 5, 8, 12, 18, 26, 34])
    big = rng.random() < 0.3
    h, out = rng.randint(0, 4), []
    for _ in range(n):
        r = rng.random()
        if r < 0.30 or h == 0:
            v = rng.choice(_BIG) if (big and rng.random() < 0.3) else rng.choice(_SMALL)
            out.append("PUSH %x" % v)
            h += 1
        elif r < 0.42 and h >= 1:
            k = rng.randint(1, min(h, 16))
            out.append("DUP%d" % k)
            h += 1
        elif r < 0.52 and h >= 2:
            k = rng.randint(1, min(h - 1, 16))
            out.append("SWAP%d" % k)
        else:
            cands = [o for o in _OPS if o[1] <= h and not (big and o[0] in ("SHL", "SHR"))]
            name, c, p = rng.choice(cands)
            out.append(name)
            h += p - c
    return " ".join(out)


def generated_blocks(rng, k, tag="gen"):
    res = []
    for i in range(k):
        txt = gen_block_text(rng)
        try:
            b = gasol.parse_block(txt, "%s%d" % (tag, i))
        except Exception:
            continue
        b.verif_text = txt
        res.append(b)
    return res


# ---------------------------------------------------------------------------
# running one block and canonicalising its result

def canon(v, depth=0):
    """Order-insensitive, address-free fingerprint of a Python value."""
    if depth > 12:
        return "<deep>"
    if isinstance(v, (int, float, str, bool, type(None), bytes)):
        return v if not isinstance(v, float) or v == v else "nan"
    if isinstance(v, dict):
        return {"<dict>": sorted(([repr(canon(k, depth + 1)), canon(x, depth + 1)] for k, x in v.items()),
                                 key=lambda p: p[0])}
    if isinstance(v, (set, frozenset)):
        return {"<set>": sorted((canon(x, depth + 1) for x in v), key=repr)}
    if isinstance(v, (list, tuple)):
        return [canon(x, depth + 1) for x in v]
    if hasattr(v, "__dict__") and not callable(v):
        return {"<obj>": type(v).__name__, "d": canon(vars(v), depth + 1)}
    return "<%s>" % type(v).__name__


def _fp(v, exact):
    """fingerprint of a value: canonical JSON when values are compared across processes (exact),
    otherwise a pickle (C speed; equal for an unchanged object inside one process)"""
    if not exact:
        import pickle
        try:
            return pickle.dumps(v, protocol=4)
        except Exception:
            pass
    return json.dumps(canon(v), sort_keys=True, default=str)


def snapshot(tracked=None):
    """Fingerprint of every module-level (and class-level) data attribute of every loaded module
    that lives under the GASOL checkout."""
    import types
    exact = tracked is not None
    root = os.path.realpath(common.REPO) + os.sep
    snap = {}
    for mname, mod in list(sys.modules.items()):
        f = getattr(mod, "__file__", None)
        if not f or not os.path.realpath(f).startswith(root) or mname == "__main__":
            continue
        for k, v in list(vars(mod).items()):
            if k.startswith("__") and k.endswith("__"):
                continue
            if isinstance(v, (types.ModuleType, types.FunctionType, types.BuiltinFunctionType)):
                continue
            if isinstance(v, type):
                if getattr(v, "__module__", None) != mname:
                    continue
                for ck, cv in list(vars(v).items()):
                    if ck.startswith("__") or callable(cv) or isinstance(cv, (property, staticmethod, classmethod)):
                        continue
                    nm = "%s.%s.%s" % (mname, k, ck)
                    if tracked is None or nm in tracked:
                        snap[nm] = _fp(cv, exact)
                continue
            if getattr(v, "__module__", None) == "typing" or type(v).__module__ == "typing":
                continue
            nm = "%s.%s" % (mname, k)
            if tracked is None or nm in tracked:
                snap[nm] = _fp(v, exact)
    return snap


def diff_snap(a, b):
    return sorted(k for k in set(a) | set(b) if a.get(k) != b.get(k))


TIME_KEYS = ("solver_time_in_sec",)


def run_block(params, blk):
    """The per-block pipeline of optimize_asm_contract on one block; canonical JSON-able result."""
    import gasol_asm
    res = {}
    old = copy.deepcopy(blk)
    try:
        sfs = gasol_asm.compute_original_sfs_with_simplifications(old, params)[0]["syrup_contract"]
        res["sfs"] = json.loads(json.dumps(sfs, sort_keys=True, default=str))
    except BaseException as e:  # noqa
        res["sfs"] = "EXC %s: %s" % (type(e).__name__, str(e)[:200])
    try:
        new, log, stats = gasol_asm.optimize_asm_block_asm_format(old, params)
        res["cand"] = new.to_plain()
        res["log"] = json.loads(json.dumps(log, sort_keys=True, default=str))
        rows = []
        for s in stats:
            rows.append({k: v for k, v in s.items() if k not in TIME_KEYS})
        res["stats"] = json.loads(json.dumps(rows, sort_keys=True, default=str))
        try:
            eq, reason = gasol_asm.compare_asm_block_asm_format(old, new, params)
            res["eq"], res["reason"] = bool(eq), str(reason)
            res["new"] = (new if eq else old).to_plain()
        except BaseException as e:  # noqa
            res["eq"] = "EXC %s: %s" % (type(e).__name__, str(e)[:200])
    except BaseException as e:  # noqa
        res["cand"] = "EXC %s: %s" % (type(e).__name__, str(e)[:200])
    return res


def _init(opts):
    p = gasol.setup_process(opts, "verif_input.json_solc")
    return p


def _history(params, item):
    """item = {"h": [block indices], "snap": bool, "tracked": list|None}
    returns per position: result, changed names (if snap), and the final tracked values."""
    out = []
    tracked = set(item["tracked"]) if item.get("tracked") else None
    do_snap = item.get("snap", False)
    before = snapshot(tracked) if do_snap else None
    first = before
    for i in item["h"]:
        r = run_block(params, _BLOCKS[i])
        rec = {"i": i, "r": r}
        if do_snap:
            after = snapshot(tracked)
            rec["changed"] = diff_snap(before, after)
            before = after
        out.append(rec)
    fin = None
    if do_snap and tracked is not None:
        fin = {k: before.get(k) for k in tracked}
    gasol.cleanup_process()
    return {"steps": out, "final": fin, "initial": ({k: first.get(k) for k in tracked} if (do_snap and tracked is not None) else None)}


def _fresh(params, item):
    """Run one history in a child forked from this (pristine, post-setup) worker, so that every
    history starts from the same fresh state without paying a full worker start."""
    import pickle
    import select
    import signal
    tmo = item.get("timeout", 120)
    r, w = os.pipe()
    pid = os.fork()
    if pid == 0:
        try:
            os.close(r)
            signal.alarm(int(tmo) + 5)
            try:
                res = ("ok", _history(params, item))
            except BaseException as e:  # noqa
                res = ("exc", "%s: %s" % (type(e).__name__, str(e)[:300]))
            with os.fdopen(w, "wb") as fh:
                pickle.dump(res, fh)
        finally:
            os._exit(0)
    os.close(w)
    buf = []
    t0 = time.time()
    with os.fdopen(r, "rb") as fh:
        while True:
            left = tmo - (time.time() - t0)
            if left <= 0:
                break
            rl, _, _ = select.select([fh], [], [], left)
            if not rl:
                break
            chunk = os.read(fh.fileno(), 1 << 20)
            if not chunk:
                break
            buf.append(chunk)
    try:
        os.kill(pid, 9)
    except Exception:
        pass
    os.waitpid(pid, 0)
    try:
        return pickle.loads(b"".join(buf))
    except Exception:
        return ("timeout-or-crash", None)


def fresh_map(items, opts, timeout=120):
    """[(status, value)] for histories, each run in its own fresh fork."""
    for it in items:
        it.setdefault("timeout", timeout)
    rs = gasol.pmap(_fresh, items, init=_init, initargs=(opts,), timeout=timeout + 30)
    out = []
    for st, v in rs:
        if st == "ok":
            out.append((v[0], v[1]))
        else:
            out.append((st, v))
    return out


def first_diff(a, b, path=""):
    if type(a) != type(b):
        return path or "/", a, b
    if isinstance(a, dict):
        for k in sorted(set(a) | set(b)):
            if k not in a or k not in b:
                return path + "/" + str(k), a.get(k), b.get(k)
            d = first_diff(a[k], b[k], path + "/" + str(k))
            if d:
                return d
        return None
    if isinstance(a, list):
        if len(a) != len(b):
            return path + "/len", len(a), len(b)
        for j, (x, y) in enumerate(zip(a, b)):
            d = first_diff(x, y, path + "/%d" % j)
            if d:
                return d
        return None
    return None if a == b else (path, a, b)


def block_text(b):
    return getattr(b, "verif_text", None) or " ".join(b.to_plain().split())


def block_desc(b):
    return {"name": b.block_name, "id": b.block_id, "plain": b.to_plain(), "source_stack": b.source_stack,
            "generated": hasattr(b, "verif_text")}


# ---------------------------------------------------------------------------
# static side

def static_tables(run):
    from gen import gen_frame
    return gen_frame.generate(run)


# ---------------------------------------------------------------------------
# the check

def _baseline(opts, idxs, timeout):
    """result(B | empty): every block in a freshly forked process."""
    items = [{"h": [i]} for i in idxs]
    rs = fresh_map(items, opts, timeout)
    base = {}
    for i, (st, v) in zip(idxs, rs):
        base[i] = v["steps"][0]["r"] if st == "ok" else {"status": st, "v": str(v)[:200]}
    return base


def minimize_history(opts, h, target, base_r, timeout):
    """Shrink a failing history with bounded effort: first every single earlier block on its own,
    then at most three rounds of greedy deletion. Keeps `target` last."""
    cur = list(h)
    singles = sorted(set(cur))[:60]
    rs = fresh_map([{"h": [c, target]} for c in singles], opts, timeout)
    for c, (st, v) in zip(singles, rs):
        if st == "ok" and v["steps"][-1]["r"] != base_r:
            return [c]
    for _ in range(3):
        if len(cur) <= 1:
            break
        cands = [cur[:k] + cur[k + 1:] for k in range(len(cur))][:40]
        rs = fresh_map([{"h": c + [target]} for c in cands], opts, timeout)
        nxt = None
        for c, (st, v) in zip(cands, rs):
            if st == "ok" and v["steps"][-1]["r"] != base_r:
                nxt = c
                break
        if nxt is None:
            break
        cur = nxt
    return cur


def report_history(run, oname, opts, h, target, base_r, got_r, extra=None):
    d = first_diff(base_r, got_r)
    comp = d[0].split("/")[1] if d and d[0].startswith("/") and len(d[0]) > 1 else "?"
    hmin = minimize_history(opts, h, target, base_r, 120) if h else h
    key = {"kind": "history-dependence", "options": oname, "component": comp,
           "target_generated": hasattr(_BLOCKS[target], "verif_text"),
           "first_difference_path": re.sub(r"[A-Za-z0-9_]*_block_?\d+(_\d+)?", "<block>", d[0]) if d else None}
    if extra:
        key.update(extra)
    replay = {"options": opts, "history": [block_desc(_BLOCKS[i]) for i in hmin], "target": block_desc(_BLOCKS[target]),
              "history_texts": [block_text(_BLOCKS[i]) for i in hmin], "target_text": block_text(_BLOCKS[target]),
              "first_difference": {"path": d[0], "alone": d[1], "after_history": d[2]} if d else None,
              "contract": CONTRACT,
              "cmd": "cd /verif && ./check C12 --replay <this file>"}
    run.report(key, "result of block %s after history %s differs from its result alone at %s (options %s)" %
               (_BLOCKS[target].block_name, [_BLOCKS[i].block_name for i in hmin], d[0] if d else "?", oname),
               replay, found_input=True)
    try:
        os.makedirs(os.path.join(common.VERIF, "corpus", "C12"), exist_ok=True)
    except Exception:
        pass


def check(run):
    global _BLOCKS
    rng = random.Random(run.seed)
    quick = run.tier == "quick"
    tables = {}

    def gen(r):
        tables.update(static_tables(r))
    ok = common.proof_stage(run, "Props/C12.v", gen=gen)
    run.cov["trusted_base"] += [
        "gen/gen_frame.py (Python ast -> footprint/call-graph/reset tables; validated dynamically by snapshotting every module global around every block)",
        "Model/Frame.v: abstract semantics (functions = arbitrary transformers respecting their footprint); Python module globals are the only cross-block state modelled (the file system under the private temp dir and the OS are outside)",
    ]
    if not tables:
        try:
            from gen import gen_frame
            tables.update(gen_frame.analyse())
        except Exception as e:  # noqa
            run.log("static tables unavailable:", e)
    exposed = list(tables.get("exposed", []))
    W = set(tables.get("writes_per_block", []))
    interesting = sorted(set(exposed) | set(tables.get("covered", {}).keys()) | set(tables.get("accumulators", [])))
    run.cov["static"] = {k: tables.get(k) for k in ("n_modules", "n_functions", "n_mutable", "exposed", "R", "accumulators")}
    run.cov["static"]["covered"] = sorted(tables.get("covered", {}).keys())

    # import GASOL in the parent so that forked children start in the post-import state
    import gasol_asm  # noqa
    import greedy.block_generation  # noqa
    cb = contract_blocks()
    gb = generated_blocks(rng, 40 if quick else 200)
    _BLOCKS = cb + gb
    # corpus histories first
    corpus = []
    cdir = os.path.join(common.VERIF, "corpus", "C12")
    if os.path.isdir(cdir):
        for f in sorted(os.listdir(cdir)):
            if f.endswith(".json"):
                with open(os.path.join(cdir, f)) as fh:
                    corpus.append(json.load(fh))
    for c in corpus:
        idx = []
        for t in c["history_texts"] + [c["target_text"]]:
            b = gasol.parse_block(t, "corpus%d" % len(_BLOCKS))
            b.verif_text = t
            _BLOCKS.append(b)
            idx.append(len(_BLOCKS) - 1)
        c["_idx"] = idx
    # targeted two-block histories: a block that leaves something behind (instructions merged through commutativity,
    # a front-end failure after stores were seen, rules, folds, memory accesses) followed by a small optimizable block
    # with stores
    tH, tB = [], []
    for lst, texts in ((tH, LEAVING_BLOCKS), (tB, TARGET_BLOCKS)):
        for t in texts:
            try:
                b = gasol.parse_block(t, "target%d" % len(_BLOCKS))
            except Exception:
                continue
            b.verif_text = t
            _BLOCKS.append(b)
            lst.append(len(_BLOCKS) - 1)
    N = len(_BLOCKS)
    run.log("blocks: %d from contract, %d generated, %d corpus, %d targeted" % (len(cb), len(gb), N - len(cb) - len(gb) - len(tH) - len(tB), len(tH) + len(tB)))

    onames = list(OPTION_SETS)
    n_hist = 5 if quick else 30
    hist_len = 25 if quick else 60
    evaluations, distinct, fp_checked, fp_bad = 0, set(), 0, {}
    dist = {"options": {}, "history_len": {}, "changed_names": {}, "result_kinds": {}}
    found_violation = False
    pair_stats = {}

    for oname in onames:
        opts = OPTION_SETS[oname]
        t0 = time.time()
        # thorough: every block has a baseline; quick: a sample (histories draw from it)
        idxs = list(range(N)) if not quick else sorted(set(rng.sample(range(len(cb)), min(len(cb), 25))) | set(rng.sample(range(len(cb), N), min(N - len(cb), 15))) | set(tH) | set(tB))
        base = _baseline(opts, idxs, 60)
        bad_base = [i for i in idxs if "status" in base[i]]
        usable = [i for i in idxs if "status" not in base[i]]
        for i in usable:
            r = base[i]
            kind = "exc" if isinstance(r.get("sfs"), str) or str(r.get("cand")).startswith("EXC") or str(r.get("eq")).startswith("EXC") else (
                "optimized" if r.get("new") != _BLOCKS[i].to_plain() else "unchanged")
            dist["result_kinds"][kind] = dist["result_kinds"].get(kind, 0) + 1
        # random histories; a third with full snapshots (footprint validation)
        items = []
        for c in corpus:
            if c.get("options_name", oname) == oname and all(i in usable for i in c["_idx"]):
                items.append({"h": c["_idx"], "snap": False})
        for hblk in (tH if (not quick or oname in ("default", "storage")) else []):
            if hblk in usable or hblk in bad_base:
                h = []
                for b in tB:
                    if b in usable:
                        h += [hblk, b]
                if h:
                    items.append({"h": h, "snap": False})
        for k in range(n_hist):
            L = rng.choice([2, 5, hist_len // 2, hist_len])
            h = [rng.choice(usable) for _ in range(L)]
            if k % 3 == 0:
                # position permutation inside the contract: contract blocks in a shuffled order
                h = [i for i in usable if i < len(cb)]
                rng.shuffle(h)
                h = h[:L]
            items.append({"h": h, "snap": (k % 3 == 1)})
        # the contract in its original order (position within a contract)
        items.append({"h": [i for i in range(len(cb)) if "status" not in base.get(i, {})],
                      "snap": not quick or oname in ("default", "storage")})
        run.log("  %s: baseline of %d blocks done" % (oname, len(idxs)))
        rs = fresh_map(items, opts, 600)
        run.log("  %s: %d histories done" % (oname, len(items)))
        failing, n_fail = {}, [0]
        for it, (st, v) in zip(items, rs):
            if st != "ok":
                run.notes.append("history %s under %s: %s %s" % (it["h"][:5], oname, st, str(v)[:100]))
                continue
            dist["history_len"][len(it["h"])] = dist["history_len"].get(len(it["h"]), 0) + 1
            for pos, step in enumerate(v["steps"]):
                i = step["i"]
                if i in base:
                    evaluations += 1
                if pos > 0 and i in base:
                    distinct.add((oname, i, tuple(it["h"][max(0, pos - 3):pos])))
                if i in base and step["r"] != base[i]:
                    found_violation = True
                    d0 = first_diff(base[i], step["r"])
                    comp0 = d0[0].split("/")[1] if d0 and len(d0[0]) > 1 else "?"
                    cur0 = failing.get(comp0)
                    if cur0 is None or pos < len(cur0[0]):
                        failing[comp0] = (it["h"][:pos], i, step["r"])
                    n_fail[0] += 1
                if "changed" in step:
                    fp_checked += 1
                    for nm in step["changed"]:
                        dist["changed_names"][nm] = dist["changed_names"].get(nm, 0) + 1
                        if W and nm not in W:
                            fp_bad.setdefault(nm, (oname, block_text(_BLOCKS[i])))
        for comp0, (hp, i, got) in sorted(failing.items())[:2]:
            report_history(run, oname, opts, hp, i, base[i], got)
        if n_fail[0]:
            run.log("  %s: %d history positions with a differing result (reported: one per component)" % (oname, n_fail[0]))
        # pair search on the names of interest
        if interesting and (not quick or oname in ("default", "storage", "partition")):
            sample = rng.sample(usable, min(len(usable), 24 if quick else 100))
            its = [{"h": [i], "snap": True, "tracked": interesting} for i in sample]
            rs = fresh_map(its, opts, 60)
            reps = {}   # name -> {value: block index}
            for i, (st, v) in zip(sample, rs):
                if st != "ok" or not v["final"]:
                    continue
                for nm, val in v["final"].items():
                    reps.setdefault(nm, {})
                    if val not in reps[nm] and len(reps[nm]) < (2 if quick else 3):
                        reps[nm][val] = i
            hs = sorted({i for d in reps.values() for i in d.values()})
            hs = hs[:10] if quick else hs[:15]
            targets = rng.sample(usable, min(len(usable), 6 if quick else 20))
            pitems = [{"h": [h, t]} for h in hs for t in targets]
            run.log("  %s: %d singles done, %d pairs to run" % (oname, len(its), len(pitems)))
            rs = fresh_map(pitems, opts, 60)
            pair_fail = 0
            for it, (st, v) in zip(pitems, rs):
                if st != "ok":
                    continue
                evaluations += 1
                h, t = it["h"]
                distinct.add((oname, t, (h,)))
                if v["steps"][1]["r"] != base[t]:
                    found_violation = True
                    pair_fail += 1
                    if pair_fail == 1 and not failing:
                        names = [nm for nm, d in reps.items() if h in d.values()]
                        report_history(run, oname, opts, [h], t, base[t], v["steps"][1]["r"],
                                       extra={"names_distinguished_by_history": names[:6]})
            pair_stats[oname] = {"names_with_several_values": sorted(nm for nm, d in reps.items() if len(d) > 1),
                                 "history_representatives": len(hs), "targets": len(targets)}
        dist["options"][oname] = {"blocks": len(usable), "unusable_alone": len(bad_base),
                                  "wall_s": round(time.time() - t0, 1)}
        run.log("options %-9s: %d usable blocks, %d histories, so far %d evaluations" %
                (oname, len(usable), len(items), evaluations))

    # footprint validation verdict
    if fp_bad:
        for nm, (oname, txt) in sorted(fp_bad.items()):
            run.report({"kind": "footprint-unsound", "name": nm},
                       "module global %s changed while processing a block but is not in the static per-block write set: "
                       "the footprint tables (and so theorem frame's premise) do not describe the code" % nm,
                       {"name": nm, "options": OPTION_SETS[oname], "block": txt,
                        "broken": "tie between Gen/FrameTables.v and the implementation (gen/gen_frame.py)"},
                       found_input=False)

    if not ok and not found_violation:
        run.report({"kind": "proof-broken", "stage": str(run.proof_broken[0]) if run.proof_broken else "?",
                    "exposed": exposed[:8]},
                   "the C12 proof no longer checks (%s); exposed names: %s; no history changing a result was found"
                   % (str(run.proof_broken)[:300], exposed[:8]),
                   {"broken": "Props/C12.v frame_gasol / exposed_empty", "detail": str(run.proof_broken)[:2000],
                    "exposed": exposed, "pair_search": pair_stats},
                   found_input=False)

    run.cov["evaluations"] = evaluations
    run.cov["distinct_nontrivial"] = len(distinct)
    run.cov["rule"] = ("one evaluation = one block processed at position >= 0 of a history in one forked process and "
                       "compared (SFS dict, candidate, kept block, log entry, statistics rows minus solver time, checker "
                       "verdict) with the same block processed alone in a fresh fork; non-trivial/distinct = position > 0, "
                       "distinct by (option set, block, previous three blocks)")
    run.cov["footprint_steps_checked"] = fp_checked
    run.cov["footprint_names_changed"] = len(dist["changed_names"])
    run.cov["pair_search"] = pair_stats
    top = sorted(dist["changed_names"].items(), key=lambda p: -p[1])
    dist["changed_names"] = dict(top[:25])
    run.cov["distribution"] = dist
    for i in rng.sample(range(N), 4):
        run.add_sample({"block": block_text(_BLOCKS[i])[:160]})


def replay(run, path):
    global _BLOCKS
    with open(path) as fh:
        d = json.load(fh)
    rp = d.get("replay", d)
    if "target_text" not in rp:
        print("replay names a broken proof obligation, not an input:", rp.get("broken"))
        ok = common.proof_stage(run, "Props/C12.v", gen=lambda r: static_tables(r))
        return 0 if ok else 1
    import gasol_asm  # noqa
    texts = rp["history_texts"] + [rp["target_text"]]
    cb = contract_blocks()
    byname = {b.block_name: b for b in cb}
    _BLOCKS = []
    for t, desc in zip(texts, rp["history"] + [rp["target"]]):
        if not desc.get("generated") and desc["name"] in byname:
            _BLOCKS.append(byname[desc["name"]])
        else:
            b = gasol.parse_block(t, desc["name"])
            _BLOCKS.append(b)
    n = len(_BLOCKS)
    opts = rp["options"]
    rs = fresh_map([{"h": [n - 1]}, {"h": list(range(n))}], opts, 300)
    if any(st != "ok" for st, _ in rs):
        print("replay could not run:", rs)
        return 2
    alone, after = rs[0][1]["steps"][0]["r"], rs[1][1]["steps"][-1]["r"]
    dd = first_diff(alone, after)
    if dd:
        print("REPRODUCED: result differs at %s\n  alone        : %s\n  after history: %s" % (dd[0], str(dd[1])[:300], str(dd[2])[:300]))
        return 1
    print("not reproduced: results are equal")
    return 0
