"""C13  Specification generation and greedy search are deterministic.

Proof side  : gen/gen_frame.py regenerates Gen/IterSites.v (every place where the iteration order
              of a set is observable, classified); Props/C13.v checks by vm_compute that every site
              is discharged by a generic Permutation lemma, unreachable, or modelled and proved order
              independent, and that no site is left to dynamic validation only (dynamic_only = []).
Dynamic side: (a) whole-tool runs of `gasol_asm.py <contract> -greedy -log -intermediate` as
              subprocesses under different PYTHONHASHSEED / cwd / temp dirs: byte comparison of the
              optimized contract, the log and every SFS json;
              (b) in-process pipeline (SFS dict, greedy ids, emitted block, statistics) on generated
              blocks in interpreters started with different hash seeds;
              (c) forced-order replay for the sites that are not proved: `set` is rebound in the
              modules that contain them to a class whose iteration order is chosen by the harness
              (sorted, reversed, random permutations); every result must be identical.
"""
import concurrent.futures as cf
import hashlib
import json
import os
import random
import re
import shutil
import subprocess
import sys
import time

from harness import common, gasol
from harness import c12 as H

ME = "b-c13_%d" % os.getpid()      # private work directory: two runs of the check may overlap
EX = "examples/jsons-solc/"
CONTRACTS_QUICK = ["0x7aa21657E549943089bfA6547465b910c6b89c98.json_solc",
                   "0x363c421901B7BDCa0f2a17dA03948D676bE350E4.json_solc"]
CONTRACTS_THOROUGH = CONTRACTS_QUICK + ["0x1f2cF791d940Bbb9fbe777271afa6ff9bBA8AbA0.json_solc",
                                        "0x3E873439949793e8c577E08629c36Ed8c184e7D9.json_solc"]
FORCED_MODULES = ["smt_encoding.instructions.instruction_bounds_with_dependencies",
                  "smt_encoding.instructions.instruction_dependencies",
                  "smt_encoding.json_with_dependencies"]


# ---------------------------------------------------------------------------
# (a) whole-tool runs

def tool_run(contract, seed, k, extra=()):
    """One run of the tool in its own cwd and interpreter. Returns dict artifact -> sha1 (and sizes)."""
    wd = os.path.join(common.WORK, ME, "run_%s_%d_%d" % (contract[:8], seed, k))
    shutil.rmtree(wd, ignore_errors=True)
    os.makedirs(wd)
    env = dict(os.environ)
    env.update({"PYTHONHASHSEED": str(seed), "PYTHONPATH": common.REPO, "PYTHONDONTWRITEBYTECODE": "1"})
    src = os.path.join(common.REPO, EX, contract)
    cmd = ["/venv/bin/python", "-W", "ignore", os.path.join(common.REPO, "gasol_asm.py"), src, "-greedy", "-log",
           "-intermediate"] + list(extra)
    t0 = time.time()
    try:
        p = subprocess.run(cmd, cwd=wd, env=env, stdout=subprocess.PIPE, stderr=subprocess.STDOUT, timeout=900, text=True)
        rc, out = p.returncode, p.stdout
    except subprocess.TimeoutExpired as e:
        rc, out = 124, (e.stdout or "") if isinstance(e.stdout, str) else ""
    res = {"rc": rc, "wall": round(time.time() - t0, 1), "files": {}, "cmd": " ".join(cmd), "seed": seed}
    m = re.search(r"Intermediate files stored at (\S+)", out)
    tmpd = m.group(1) if m else None
    for f in sorted(os.listdir(wd)):
        pth = os.path.join(wd, f)
        if not os.path.isfile(pth):
            continue
        with open(pth, "rb") as fh:
            data = fh.read()
        if f.endswith(".csv"):
            # statistics contain solver times: drop that column, keep everything else
            try:
                import csv
                import io
                rows = list(csv.reader(io.StringIO(data.decode())))
                if rows and "solver_time_in_sec" in rows[0]:
                    j = rows[0].index("solver_time_in_sec")
                    rows = [r[:j] + r[j + 1:] for r in rows]
                data = json.dumps(rows).encode()
            except Exception:
                pass
        res["files"][f] = hashlib.sha1(data).hexdigest()
    if tmpd and os.path.isdir(tmpd) and os.path.basename(os.path.normpath(tmpd)).startswith("gasol_"):
        jd = os.path.join(tmpd, "jsons")
        h, n = hashlib.sha1(), 0
        per = {}
        if os.path.isdir(jd):
            for f in sorted(os.listdir(jd)):
                with open(os.path.join(jd, f), "rb") as fh:
                    d = fh.read()
                per[f] = hashlib.sha1(d).hexdigest()
                h.update(f.encode() + b"\0" + d)
                n += 1
        res["files"]["<sfs jsons>"] = h.hexdigest()
        res["n_sfs"] = n
        res["sfs_each"] = per
        shutil.rmtree(tmpd, ignore_errors=True)
    if rc != 0:
        res["tail"] = out[-600:]
    shutil.rmtree(wd, ignore_errors=True)
    return res


# ---------------------------------------------------------------------------
# (b) in-process pipeline in interpreters with different hash seeds

def worker_main():
    """python -c 'from harness import c13; c13.worker_main()' <blocks.json> <out.json> : runs the per-block
    pipeline on every block text of the input file in THIS interpreter (hash seed from the environment)."""
    inp, outp = sys.argv[1], sys.argv[2]
    with open(inp) as fh:
        job = json.load(fh)
    dn = os.open(os.devnull, os.O_WRONLY)
    os.dup2(dn, 1)
    os.dup2(dn, 2)
    params = gasol.setup_process(job["opts"], "verif_input.json_solc")
    import signal
    res = []
    for i, txt in enumerate(job["blocks"]):
        signal.alarm(60)
        try:
            b = gasol.parse_block(txt, "blk%d" % i)
            res.append(H.run_block(params, b))
        except BaseException as e:  # noqa
            res.append({"exc": "%s: %s" % (type(e).__name__, str(e)[:200])})
        signal.alarm(0)
    gasol.cleanup_process()
    with open(outp, "w") as fh:
        json.dump(res, fh, sort_keys=True)


def seeded_pipeline(texts, opts, seed, tag):
    wd = os.path.join(common.WORK, ME, "inproc_%s_%d" % (tag, seed))
    shutil.rmtree(wd, ignore_errors=True)
    os.makedirs(wd)
    inp, outp = os.path.join(wd, "in.json"), os.path.join(wd, "out.json")
    with open(inp, "w") as fh:
        json.dump({"opts": opts, "blocks": texts}, fh)
    env = dict(os.environ)
    env.update({"PYTHONHASHSEED": str(seed), "PYTHONPATH": common.REPO + ":" + common.VERIF})
    cmd = ["/venv/bin/python", "-W", "ignore", "-c", "from harness import c13; c13.worker_main()", inp, outp]
    try:
        subprocess.run(cmd, cwd=wd, env=env, stdout=subprocess.DEVNULL, stderr=subprocess.DEVNULL, timeout=1200)
        with open(outp) as fh:
            res = json.load(fh)
    except Exception as e:  # noqa
        res = None
    shutil.rmtree(wd, ignore_errors=True)
    return res


# ---------------------------------------------------------------------------
# (c) forced iteration order

_MODE = ["sorted"]


class PSet(set):
    """A set whose iteration order is chosen by the harness."""

    def _perm(self, l):
        l = sorted(l, key=repr)
        m = _MODE[0]
        if m == "sorted":
            return l
        if m == "reversed":
            return l[::-1]
        r = random.Random(m)
        r.shuffle(l)
        return l

    def __iter__(self):
        return iter(self._perm(list(set.__iter__(self))))

    def difference(self, *o):
        return PSet(set.difference(self, *o))

    def union(self, *o):
        return PSet(set.union(self, *o))

    def intersection(self, *o):
        return PSet(set.intersection(self, *o))

    def copy(self):
        return PSet(self)


def _forced_init(opts):
    import importlib
    for m in FORCED_MODULES:
        importlib.import_module(m).set = PSet
    return gasol.setup_process(opts, "verif_input.json_solc")


def _forced(params, item):
    i, modes = item
    outs = {}
    for mode in modes:
        _MODE[0] = mode
        outs[str(mode)] = json.dumps(H.run_block(params, H._BLOCKS[i]), sort_keys=True)
    gasol.cleanup_process()
    if len(set(outs.values())) > 1:
        return outs
    return None


# ---------------------------------------------------------------------------

def check(run):
    rng = random.Random(run.seed)
    quick = run.tier == "quick"
    tables = {}

    def gen(r):
        from gen import gen_frame
        tables.update(gen_frame.generate(r))
    ok = common.proof_stage(run, "Props/C13.v", gen=gen)
    run.cov["trusted_base"] += [
        "gen/gen_frame.py iter_sites: syntactic recognition of set-typed expressions (displays, set()/frozenset(), set methods and operators, "
        "annotations, names/attributes/functions assigned or returning such) and of their order-observing consumers",
        "the six sites of the bound/dependency computations are discharged as sorted() consumers since fix 2b1d7c75; forced-order replay still exercises them",
    ]
    sites = tables.get("sites", [])
    stat = {}
    for s in sites:
        stat[s["status"]] = stat.get(s["status"], 0) + 1
    run.cov["sites"] = stat
    undis = [s for s in sites if s["status"] == "Undischarged"]
    os.makedirs(os.path.join(common.WORK, ME), exist_ok=True)
    evaluations, distinct = 0, 0
    dist = {"tool_runs": {}, "inproc": {}, "forced": {}}
    found = False

    # (a) whole-tool runs
    contracts = CONTRACTS_QUICK if quick else CONTRACTS_THOROUGH
    seeds = [0, 1, 2] if quick else list(range(16))
    jobs = [(c, s, k) for c in contracts for k, s in enumerate(seeds)]
    t0 = time.time()
    with cf.ThreadPoolExecutor(max_workers=min(common.NCPU, 12)) as ex:
        results = list(ex.map(lambda j: tool_run(*j), jobs))
    byc = {}
    for (c, s, k), r in zip(jobs, results):
        byc.setdefault(c, []).append(r)
    for c, rs in byc.items():
        ref = rs[0]
        dist["tool_runs"][c[:10]] = {"runs": len(rs), "rc": sorted({r["rc"] for r in rs}), "sfs_jsons": ref.get("n_sfs"),
                                     "artifacts": sorted(ref["files"]), "wall_s": [r["wall"] for r in rs][:4]}
        if ref["rc"] != 0:
            run.notes.append("tool run failed on %s: rc %s %s" % (c, ref["rc"], ref.get("tail", "")[-200:]))
        for r in rs[1:]:
            evaluations += 1
            distinct += 1
            for f in sorted(set(ref["files"]) | set(r["files"])):
                if ref["files"].get(f) != r["files"].get(f) or ref["rc"] != r["rc"]:
                    found = True
                    which = [x for x in sorted(set(ref.get("sfs_each", {})) | set(r.get("sfs_each", {})))
                             if ref.get("sfs_each", {}).get(x) != r.get("sfs_each", {}).get(x)][:5]
                    art = "sfs jsons" if f == "<sfs jsons>" else re.sub(r"^.*?(_optimized\.json_solc|\.log|\.csv)$", r"\1", f)
                    run.report({"kind": "seed-nondeterminism", "artifact": art, "contract": c[:10]},
                               "output %s of `gasol_asm.py %s -greedy -log` differs between PYTHONHASHSEED=%s and %s"
                               % (f, c, ref["seed"], r["seed"]),
                               {"contract": EX + c, "seeds": [ref["seed"], r["seed"]], "artifact": f,
                                "differing_sfs": which, "cmd": [ref["cmd"], r["cmd"]], "type": "tool"}, found_input=True)
                    break
    run.log("tool runs: %d runs of %d contracts under %d seeds in %.0fs" % (len(jobs), len(contracts), len(seeds), time.time() - t0))

    # (b) in-process pipeline under different seeds
    nblk = 120 if quick else 300
    texts = [H.gen_block_text(rng) for _ in range(nblk)]
    from harness import blockgen
    texts += blockgen.mem_heavy_blocks(rng.getrandbits(32), 150 if quick else 600)
    texts += ["PUSH 1 DUP2 MSTORE PUSH 20 DUP3 KECCAK256 POP DUP2 MLOAD DUP4 MLOAD PUSH 2 DUP4 MSTORE",
              "PUSH 0 PUSH 40 SLOAD SWAP1 MLOAD MLOAD AND MLOAD PUSH 20 MLOAD DUP2 MSTORE"]
    cdir = os.path.join(common.VERIF, "corpus", "C13")
    if os.path.isdir(cdir):
        for f in sorted(os.listdir(cdir)):
            if f.endswith(".json"):
                with open(os.path.join(cdir, f)) as fh:
                    texts = json.load(fh).get("blocks", []) + texts
    optsets = [("default", ["-greedy"])] if quick else [("default", ["-greedy"]), ("storage", ["-greedy", "-storage"]),
                                                         ("size", ["-greedy", "-size"]), ("partition", ["-greedy", "-partition"])]
    iseeds = [0, 1, 2] if quick else [0, 1, 2, 3, 5, 8]
    jobs = [(on, o, s) for on, o in optsets for s in iseeds]
    with cf.ThreadPoolExecutor(max_workers=min(common.NCPU, 12)) as ex:
        results = list(ex.map(lambda j: seeded_pipeline(texts, j[1], j[2], j[0]), jobs))
    byo = {}
    for (on, o, s), r in zip(jobs, results):
        byo.setdefault(on, []).append((s, o, r))
    kinds = {}
    for on, rs in byo.items():
        s0, o, ref = rs[0]
        if ref is None:
            run.notes.append("in-process worker failed for options %s" % on)
            continue
        for r in ref:
            k = "exc" if ("exc" in r or str(r.get("cand", "")).startswith("EXC") or isinstance(r.get("sfs"), str)) else \
                ("optimized" if r.get("new") != r.get("cand") or r.get("log") else "unchanged")
            kinds[k] = kinds.get(k, 0) + 1
        for s, _, r in rs[1:]:
            if r is None:
                run.notes.append("in-process worker failed for options %s seed %s" % (on, s))
                continue
            for i, (a, b) in enumerate(zip(ref, r)):
                evaluations += 1
                if a != b:
                    found = True
                    d = H.first_diff(a, b)
                    run.report({"kind": "seed-nondeterminism", "artifact": "in-process " + (d[0].split("/")[1] if d else "?"),
                                "options": on},
                               "per-block result differs between PYTHONHASHSEED=%s and %s at %s" % (s0, s, d[0] if d else "?"),
                               {"type": "inproc", "block": texts[i], "options": o, "seeds": [s0, s],
                                "first_difference": [str(x)[:300] for x in d] if d else None}, found_input=True)
        distinct += len(ref)
    dist["inproc"] = {"blocks": len(texts), "option_sets": [o for o, _ in optsets], "seeds": iseeds, "result_kinds": kinds}
    run.log("in-process: %d blocks x %d seeds x %d option sets" % (len(texts), len(iseeds), len(optsets)))

    # (c) forced iteration order on the unproved sites
    import gasol_asm  # noqa  (children are forked from a parent that has the modules loaded)
    H._BLOCKS = H.contract_blocks() + H.generated_blocks(rng, 60 if quick else 300, tag="fo")
    modes = ["sorted", "reversed", 1] if quick else ["sorted", "reversed", 1, 2, 3, 4]
    fopts = [("default", ["-greedy"])] if quick else optsets
    for on, o in fopts:
        items = [(i, modes) for i in range(len(H._BLOCKS))]
        rs = gasol.pmap(_forced, items, init=_forced_init, initargs=(o,), timeout=120)
        nok = 0
        for (i, _), (st, v) in zip(items, rs):
            if st != "ok":
                continue
            nok += 1
            evaluations += len(modes) - 1
            if v is not None:
                found = True
                ks = list(v)
                a = json.loads(v[ks[0]])
                dd, other = None, None
                for k in ks[1:]:
                    dd = H.first_diff(a, json.loads(v[k]))
                    if dd:
                        other = k
                        break
                run.report({"kind": "forced-order", "component": dd[0].split("/")[1] if dd else "?", "options": on},
                           "forcing another iteration order of the sets in the bound/dependency modules changes the result "
                           "of a block at %s" % (dd[0] if dd else "?"),
                           {"type": "forced", "block": H.block_text(H._BLOCKS[i]), "block_name": H._BLOCKS[i].block_name,
                            "options": o, "orders": [ks[0], other], "modules": FORCED_MODULES,
                            "first_difference": [str(x)[:300] for x in dd] if dd else None}, found_input=True)
        dist["forced"][on] = {"blocks": nok, "orders": [str(m) for m in modes]}
        distinct += nok
    run.log("forced order: %s" % dist["forced"])

    if not ok and not found:
        run.report({"kind": "proof-broken", "stage": str(run.proof_broken[0]) if run.proof_broken else "?",
                    "undischarged": [(s["module"], s["function"]) for s in undis][:6]},
                   "the C13 site obligation no longer checks (%s); undischarged sites: %s; no seed or forced order changed an output"
                   % (str(run.proof_broken)[:200], [(s["module"], s["function"], s["line"]) for s in undis][:6]),
                   {"broken": "Props/C13.v c13_sites", "detail": str(run.proof_broken)[:2000],
                    "undischarged": undis}, found_input=False)

    run.cov["evaluations"] = evaluations
    run.cov["distinct_nontrivial"] = distinct
    run.cov["rule"] = ("one evaluation = one comparison of a complete artifact set (tool run: optimized contract, log, csv minus solver time, "
                       "all SFS jsons; in-process: SFS dict, candidate, kept block, log, statistics; forced order: same per block) against the "
                       "reference run; distinct = contract x seed, generated block x option set, block x forced order")
    run.cov["distribution"] = dist
    for t in texts[:4]:
        run.add_sample({"block": t[:160]})
    shutil.rmtree(os.path.join(common.WORK, ME), ignore_errors=True)


def replay(run, path):
    with open(path) as fh:
        d = json.load(fh)
    rp = d.get("replay", d)
    t = rp.get("type")
    os.makedirs(os.path.join(common.WORK, ME), exist_ok=True)
    try:
        if t == "tool":
            c = os.path.basename(rp["contract"])
            a, b = tool_run(c, rp["seeds"][0], 0), tool_run(c, rp["seeds"][1], 1)
            diff = [f for f in sorted(set(a["files"]) | set(b["files"])) if a["files"].get(f) != b["files"].get(f)]
            print("REPRODUCED: differing artifacts %s" % diff if diff else "not reproduced")
            return 1 if diff else 0
        if t == "inproc":
            a = seeded_pipeline([rp["block"]], rp["options"], rp["seeds"][0], "rp")
            b = seeded_pipeline([rp["block"]], rp["options"], rp["seeds"][1], "rp")
            dd = H.first_diff(a, b)
            print("REPRODUCED: %s" % (dd,) if dd else "not reproduced")
            return 1 if dd else 0
        if t == "forced":
            import gasol_asm  # noqa
            names = {b.block_name: b for b in H.contract_blocks()}
            blk = names.get(rp.get("block_name")) or gasol.parse_block(rp["block"], "replay")
            H._BLOCKS = [blk]
            modes = [m if m in ("sorted", "reversed") else int(m) for m in rp["orders"]]
            rs = gasol.pmap(_forced, [(0, modes)], init=_forced_init, initargs=(rp["options"],), timeout=300)
            print("REPRODUCED" if rs[0][0] == "ok" and rs[0][1] is not None else "not reproduced", str(rs[0])[:400])
            return 1 if rs[0][0] == "ok" and rs[0][1] is not None else 0
        print("replay names a broken proof obligation, not an input:", rp.get("broken"))
        from gen import gen_frame
        okp = common.proof_stage(run, "Props/C13.v", gen=lambda r: gen_frame.generate(r))
        return 0 if okp else 1
    finally:
        shutil.rmtree(os.path.join(common.WORK, ME), ignore_errors=True)
