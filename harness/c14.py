"""C14  Splitting partitions the block; rebuilding with nothing optimized is identity.

Proof stage: Props/C14.v (model Model/Split.v, lemmas Model/SplitProofs.v).
Tie: hand-written model, correspondence on every run.  The implementation (ir_block.get_subblocks,
ir_block.evm2rbr_compiler via gasol_asm.compute_original_sfs_with_simplifications,
utils.process_blocks_split, optimize_from_sub_blocks.rebuild_optimized_asm_block) runs in forked
workers; the model runs inside Coq (vm_compute) on cases files that also carry the implementation's
answers, so the kernel itself does the diff and prints the indices of disagreeing cases.
The property predicates (join = optimizable, rebuild none = identity, rebuild S = segments of S
replaced, keys <-> sub-blocks, source-stack chaining) are evaluated on the implementation outputs;
that is the failing-input search."""
import itertools
import json
import os
import random
import re
import sys

from harness import common, gasol

PID = "C14"

# alphabet by class (what the splitter / rebuild can distinguish)
CL = {
    "O": [("PUSH", "1"), ("ADD", None), ("POP", None), ("SWAP1", None), ("DUP1", None), ("PUSH", "0"),
          ("PUSH [tag]", "2"), ("MLOAD", None)],
    "S": [("MSTORE", None), ("SSTORE", None), ("MSTORE8", None)],
    "X": [("LOG1", None), ("CALL", None), ("GAS", None), ("ASSIGNIMMUTABLE", "5"), ("CODECOPY", None)],
    "B": [("JUMPDEST", None), ("tag", "1")],
    "E": [("JUMP", "[in]"), ("STOP", None), ("JUMPI", None), ("SELFDESTRUCT", None)],
}
# weights of the representatives inside a class
CLW = {"O": [5, 4, 4, 2, 2, 1, 1, 1], "S": [3, 3, 2], "X": [3, 3, 3, 1, 1], "B": [2, 2], "E": [3, 3, 1, 1]}

POLICIES = {
    # name: (gasol options, sto, part, max_bound override or None)
    "default": ([], False, False, None),
    "storage": (["-storage"], True, False, None),
    "partition": (["-partition"], False, True, None),
    "partition@3": (["-partition"], False, True, 3),       # module global max_bound rebound to 3 in the worker
    "storage+partition": (["-storage", "-partition"], True, True, 3),
}


# ---------------------------------------------------------------------------------------------
# implementation side (runs in forked workers)

def _init(polname):
    opts, sto, part, mb = POLICIES[polname]
    p = gasol.setup_process(opts)
    # private scratch tree of this check (removed at the end of check())
    import global_params.paths as paths
    base = os.path.join(common.WORK, "b-c14", "run%d" % os.getppid()) + "/"
    os.makedirs(base, exist_ok=True)
    paths.tmp_path = base
    paths.gasol_folder = "gasol_%d" % os.getpid()
    paths.gasol_path = base + paths.gasol_folder + "/"
    paths.json_path = paths.gasol_path + "jsons"
    paths.smt_encoding_path = paths.gasol_path + "smt_encoding/"
    paths.solutions_path = paths.gasol_path + "solutions/"
    paths.dot_path = paths.gasol_path + "dot/"
    paths.csv_file = paths.gasol_path + "solutions/statistics.csv"
    import sfs_generator.gasol_optimization as go
    if mb is not None:
        go.max_bound = mb
    import global_params.constants as constants
    return {"p": p, "sto": sto, "part": part, "mb": go.max_bound, "push0": bool(constants.push0_enabled)}


def _mk_instr(d, v, ident):
    from sfs_generator.asm_bytecode import AsmBytecode
    jt = "[in]" if d == "JUMP" else None
    val = None if d == "JUMP" else v
    return AsmBytecode(ident, ident + 1000, ident % 3, d, val, jt, ident % 2 if ident % 5 else None, val)


def _fields(i):
    return json.dumps([i.to_json(), i.begin, i.end, i.source, i.disasm, i.value, i.jump_type, i.modifier_depth,
                       i.real_value], sort_keys=True, default=str)


def r_items(k):
    """the recognisable replacement for sub-block k: (k+1) % 3 fresh items (PUSH of a marker constant: the
    block's `instructions` setter looks every opcode up, so it has to be a real one)"""
    return [("PUSH", "c14%02x%x" % (k, j), 100000 + 1000 * k + j) for j in range((k + 1) % 3)]


def _run_case(st, case):
    """case: {"block": [(disasm, value, id)...], "masks": None|[[k..]..]}"""
    import gasol_asm
    import sfs_generator.ir_block as ir_block
    import sfs_generator.opcodes as opcodes
    from sfs_generator.asm_block import AsmBlock
    from sfs_generator.utils import process_blocks_split, compute_stack_size
    from solution_generation.optimize_from_sub_blocks import rebuild_optimized_asm_block
    p = st["p"]
    blk = AsmBlock("c14", 3, "blk", False)
    items = [_mk_instr(d, v, ident) for d, v, ident in case["block"]]
    blk.instructions = items
    by_id = {i.begin: _fields(i) for i in items}
    meta0 = (blk.contract_name, blk.block_id, blk.block_name, blk.is_init_block, blk.tag, blk.jump_type,
             blk.jump_to, blk.falls_to)
    out = {"opt_plain": blk.instructions_to_optimize_plain(), "plain": [i.to_plain() for i in items],
           "input": blk.source_stack, "info": {k: st[k] for k in ("sto", "part", "mb", "push0")}}
    bd = {"instructions": list(out["opt_plain"]), "input": blk.source_stack}
    if case.get("sbl") is not None:
        # direct call of rebuild_optimized_asm_block with a hand-made (mutated) sub-block list
        out["direct"] = True
        out["sbl_get"] = out["sbl"] = [list(x) for x in case["sbl"]]
        out["keys"] = None
    else:
        _front_end(out, blk, bd, p, ir_block, gasol_asm)
    _rebuild_part(out, blk, items, by_id, meta0, case, opcodes)
    return out


def _front_end(out, blk, bd, p, ir_block, gasol_asm):
    try:
        out["sbl_get"] = ir_block.get_subblocks(bd, storage=p.split_storage, part=p.split_partition)
    except Exception as e:  # noqa
        out["sbl_get"] = None
        out["sbl_get_exc"] = "%s: %s" % (type(e).__name__, str(e)[:100])
    try:
        sfs, sbl = gasol_asm.compute_original_sfs_with_simplifications(blk, p)
        out["sbl"] = sbl
        out["keys"] = {k: {"orig": v.get("original_instrs"), "src": len(v["src_ws"]), "tgt": len(v["tgt_ws"])}
                       for k, v in sfs["syrup_contract"].items()}
    except Exception as e:  # noqa
        out["sbl"] = None
        out["keys"] = None
        out["sbl_exc"] = "%s: %s" % (type(e).__name__, str(e)[:100])


def _rebuild_part(out, blk, items, by_id, meta0, case, opcodes):
    from sfs_generator.utils import process_blocks_split
    from solution_generation.optimize_from_sub_blocks import rebuild_optimized_asm_block
    sbl = out["sbl"] if out["sbl"] is not None else out["sbl_get"]
    if sbl is None:
        return out
    try:
        out["segs"] = process_blocks_split(sbl)
    except Exception as e:  # noqa
        out["segs"] = None
        out["segs_exc"] = type(e).__name__
    n = len(sbl)
    masks = case.get("masks")
    if masks is None:
        masks = masks_for(n, random.Random(case["block"][0][2] * 7919 + n if case["block"] else n))
    out["masks"] = masks
    rebuilt = []
    for mask in masks:
        mapping = {}
        for k in range(n):
            if k in mask:
                mapping["blk_%d" % k] = [_mk_instr(d, v, ident) for d, v, ident in r_items(k)]
            elif (k + len(mask)) % 2 == 0:
                mapping["blk_%d" % k] = None          # "tried, not better": explicit None entry
        rfields = {i.begin: _fields(i) for l in mapping.values() if l for i in l}
        try:
            nb = rebuild_optimized_asm_block(blk, [list(s) for s in sbl], mapping)
            ids, bad = [], None
            for i in nb.instructions:
                ids.append(i.begin)
                ref = by_id.get(i.begin, rfields.get(i.begin))
                if ref != _fields(i):
                    bad = "instruction %s changed: %s" % (i.begin, _fields(i))
            meta = (nb.contract_name, nb.block_id, nb.block_name, nb.is_init_block, nb.tag, nb.jump_type,
                    nb.jump_to, nb.falls_to)
            if meta != meta0:
                bad = "block metadata changed: %r" % (meta,)
            if [i.begin for i in blk.instructions] != [i[2] for i in case["block"]]:
                bad = "input block mutated"
            rebuilt.append({"ids": ids, "bad": bad})
        except Exception as e:  # noqa
            rebuilt.append({"err": type(e).__name__})
    out["rebuilt"] = rebuilt
    # stack bookkeeping for the chaining check (arity table of the implementation)
    def eff(names):
        h = lo = 0
        for nm in names:
            op = nm.split(" ")[0] if not nm.startswith("PUSH") else "PUSH"
            if nm.startswith("ASSIGNIMMUTABLE"):
                op = "ASSIGNIMMUTABLE"
            info = opcodes.get_opcode(op)
            h -= info[1]
            lo = min(lo, h)
            h += info[2]
        return -lo, h
    try:
        if out.get("segs") is not None:
            out["seg_eff"] = [eff(s) for s in out["segs"]]
            out["sep_eff"] = [eff([sbl[i][-1]]) for i in range(n - 1)]
    except Exception as e:  # noqa
        out["seg_eff_exc"] = "%s: %s" % (type(e).__name__, str(e)[:80])
    return out


def masks_for(n, rng):
    """all subsets of {0..n-1} when n <= 4, else none/all/singletons/some random subsets (<= 16)"""
    if n <= 4:
        return [list(c) for r in range(n + 1) for c in itertools.combinations(range(n), r)]
    ms = [[], list(range(n))] + [[k] for k in range(n)]
    ms = ms[:12]
    while len(ms) < 16:
        m = sorted(rng.sample(range(n), rng.randint(2, n - 1)))
        if m not in ms:
            ms.append(m)
    return ms[:16]


# ---------------------------------------------------------------------------------------------
# generators

def rep(rng, c):
    return rng.choices(CL[c], weights=CLW[c])[0]


def block_of_word(word, rng):
    return [(d, v, 1 + i) for i, (d, v) in enumerate(rep(rng, c) for c in word)]


def gen_blocks(tier, rng):
    """list of (kind, block)"""
    out = []
    L5 = 4 if tier == "quick" else 5           # all five classes anywhere
    L3 = 5 if tier == "quick" else 8           # optimizable classes only, random well-formed pre/post
    for n in range(0, L5 + 1):
        for w in itertools.product("OSXBE", repeat=n):
            out.append(("exh5", block_of_word(w, rng)))
    for n in range(1, L3 + 1):
        for w in itertools.product("OSX", repeat=n):
            pre = rng.choice(["", "", "B", "BB"])
            post = rng.choice(["", "E", "E", "EE"])
            word = pre + "".join(w) + post
            out.append(("exh3", block_of_word(word, rng)))
    nrand = 200 if tier == "quick" else 2000
    for _ in range(nrand):
        n = rng.randint(18, 30)
        ps, px = rng.choice([(0.1, 0.0), (0.25, 0.05), (0.4, 0.1), (0.15, 0.15)])
        word = "".join("S" if (r := rng.random()) < ps else "X" if r < ps + px else "O" for _ in range(n))
        pre = rng.choice(["", "B", "BB"])
        post = rng.choice(["", "E", "EE"])
        out.append(("rand", block_of_word(pre + word + post, rng)))
    for _ in range(nrand // 4):               # long blocks: several numeric cuts
        n = rng.randint(45, 80)
        word = "".join("S" if (r := rng.random()) < 0.12 else "X" if r < 0.15 else "O" for _ in range(n))
        out.append(("long", block_of_word("BB" + word + "E", rng)))
    return out


def mutate_sbl(sbl, rng):
    """a sub-block list that the front end would not produce: exercises rebuild's asserts, substring tests,
    index arithmetic (negative index, running past the end)"""
    m = [list(x) for x in sbl]
    kind = rng.choice(["prefix", "prefix", "rename", "rename", "delete", "dup", "extra", "empty0", "nil", "head",
                       "emptyname", "emptymid", "suffix"])
    pos = [(i, j) for i, b in enumerate(m) for j in range(len(b))]
    if kind == "nil":
        return kind, []
    if kind == "empty0":
        return kind, [[]] + m
    if kind == "emptymid" and len(m) >= 1:
        k = rng.randrange(len(m) + 1)
        return kind, m[:k] + [[]] + m[k:]
    if kind == "extra":
        return kind, m + [[m[-1][-1] if m and m[-1] else "ADD", rng.choice(["ADD", "POP", "JUMP", "STOP"])]]
    if not pos:
        return "nil", []
    i, j = rng.choice(pos)
    nm = m[i][j]
    if kind == "prefix":
        m[i][j] = nm[:rng.randint(1, max(1, len(nm) - 1))]
    elif kind == "suffix":
        m[i][j] = nm[rng.randint(0, max(0, len(nm) - 1)):]
    elif kind == "rename":
        m[i][j] = rng.choice(["MSTORE", "MSTORE8", "PUSH", "PUSH 1", "JUMP", "JUMPI", "ADD", "POP", "SWAP1", "tag",
                              "SSTORE", "STORE", "LOG", "DEST", "1"])
    elif kind == "delete":
        del m[i][j]
    elif kind == "dup":
        m[i].insert(j, nm)
    elif kind == "head" and len(m) > 1:
        k = rng.randrange(1, len(m))
        if m[k]:
            m[k][0] = rng.choice(["ADD", "LOG", "CALL", "GAS", "MSTORE", ""])
    elif kind == "emptyname":
        m[i][j] = ""
    return kind, m


def corpus_blocks():
    d = os.path.join(common.VERIF, "corpus", PID)
    out = []
    if os.path.isdir(d):
        for f in sorted(os.listdir(d)):
            if f.endswith(".json"):
                with open(os.path.join(d, f)) as fh:
                    j = json.load(fh)
                for b in j.get("blocks", []):
                    out.append(("corpus", [(x[0], x[1], 1 + i) for i, x in enumerate(b)]))
    return out


# ---------------------------------------------------------------------------------------------
# Coq side

_STR = {}


def cs(s):
    """a string constant: defined once per cases file (string literals are slow to parse), referred to by name"""
    if s not in _STR:
        _STR[s] = "s%d" % len(_STR)
    return _STR[s]


def str_defs():
    return "".join('Definition %s := "%s".\n' % (n, s.replace('"', '""')) for s, n in _STR.items())


def cl(xs, f, ty=None):
    if not xs and ty:
        return "(@nil %s)" % ty
    return "[" + "; ".join(f(x) for x in xs) + "]"


def copt(x, f):
    return "None" if x is None else "(Some " + f(x) + ")"


def cbool(b):
    return "true" if b else "false"


def runs(ids):
    """[1,2,3,100000,5,6] -> [(1,3),(100000,1),(5,2)]: exact run-length form of an id list (expanded again in Coq)"""
    out = []
    for i in ids:
        if out and out[-1][0] + out[-1][1] == i:
            out[-1][1] += 1
        else:
            out.append([i, 1])
    return [tuple(x) for x in out]


def cinstr(t):
    d, v, ident = t
    if d == "JUMP":
        v = None
    return "(mkI %s %s %d)" % (cs(d), copt(v, cs), ident)


PRE = """From Coq Require Import String List Bool ZArith. Import ListNotations.
From GV Require Import Model.Split.
Open Scope string_scope. Open Scope list_scope.
Definition R (k : nat) : list instr :=
  map (fun j => mkI "PUSH" None (100000 + 1000 * Z.of_nat k + Z.of_nat j)%Z) (seq 0 (Nat.modulo (k + 1) 3)).
Definition repl_of (mask : list nat) (k : nat) : option (list instr) :=
  if existsb (Nat.eqb k) mask then Some (R k) else None.
Definition leqb {A} (e : A -> A -> bool) := fix go (a b : list A) : bool :=
  match a, b with [] , [] => true | x :: a', y :: b' => e x y && go a' b' | _, _ => false end.
Definition oeqb {A} (e : A -> A -> bool) (a b : option A) : bool :=
  match a, b with None, None => true | Some x, Some y => e x y | _, _ => false end.
Definition sbl_eqb := oeqb (leqb (leqb String.eqb)).
(* one case: flags, block, implementation answers; returns (agree?, covered by the _partial theorem?, theorem instance ok?) *)
Definition run (push0 fix1 sto part : bool) (mb : Z) (b : list instr)
  (e_opt : list string) (e_sbl e_segs : option (list (list string)))
  (masks : list (list nat)) (e_runs : list (option (list (Z * nat)))) (e_prop : bool) : bool * bool * bool :=
  let e_reb := map (option_map (flat_map (fun r : Z * nat =>
                      map (fun i => (fst r + Z.of_nat i)%Z) (seq 0 (snd r))))) e_runs in
  let pl := optimizable_plain push0 b in
  let sbl := sub_block_list sto part mb pl in
  let segs := match sbl with Some s => process_blocks_split s | None => None end in
  let reb := match sbl with
             | Some s => map (fun m => option_map (map payload) (rebuild push0 fix1 b (repl_of m) s)) masks
             | None => map (fun _ => None) masks end in
  let agree := leqb String.eqb pl e_opt && sbl_eqb sbl e_sbl && sbl_eqb segs e_segs
               && leqb (oeqb (leqb Z.eqb)) reb e_reb in
  let covered := shape_ok b && (fix1 || first_ok push0 b) in
  (agree, covered, if covered then e_prop else true).
(* direct call of rebuild with a given (mutated) sub-block list *)
Definition rund (push0 fix1 : bool) (b : list instr) (sbl : list (list string))
  (e_segs : option (list (list string))) (masks : list (list nat))
  (e_runs : list (option (list (Z * nat)))) : bool * bool * bool :=
  let e_reb := map (option_map (flat_map (fun r : Z * nat =>
                      map (fun i => (fst r + Z.of_nat i)%Z) (seq 0 (snd r))))) e_runs in
  let reb := map (fun m => option_map (map payload) (rebuild push0 fix1 b (repl_of m) sbl)) masks in
  (leqb (oeqb (leqb Z.eqb)) reb e_reb && sbl_eqb (process_blocks_split sbl) e_segs, false, true).
Definition bad (l : list (Z * (bool * bool * bool))) : list Z :=
  map fst (filter (fun c => negb (fst (fst (snd c))) || negb (snd (snd c))) l).
Definition ncov (l : list (Z * (bool * bool * bool))) : nat :=
  length (filter (fun c => snd (fst (snd c))) l).
"""


def case_term(idx, c):
    """c: dict with pol info, block, impl outputs"""
    o = c["out"]
    sbl = o["sbl"] if o.get("sbl") is not None else o.get("sbl_get")
    reb = [None if "err" in r else r["ids"] for r in o.get("rebuilt", [])]
    if o.get("direct"):
        return "Definition c%d := ((%d)%%Z, rund %s %s %s %s %s %s %s).\n" % (
            idx, idx, cbool(c["push0"]), cbool(c["fix1"]), cl(c["block"], cinstr, "instr"),
            cl(sbl, lambda b: cl(b, cs, "string"), "(list string)"),
            copt(o.get("segs"), lambda s: cl(s, lambda b: cl(b, cs, "string"), "(list string)")),
            cl(o.get("masks", []), lambda m: cl(m, lambda k: "%d%%nat" % k, "nat"), "(list nat)"),
            cl(reb, lambda r: copt(r, lambda ids: cl(runs(ids), lambda z: "((%d)%%Z,%d%%nat)" % z, "(Z*nat)")),
               "(option (list (Z*nat)))"))
    return "Definition c%d := ((%d)%%Z, run %s %s %s %s (%d)%%Z %s %s %s %s %s %s %s).\n" % (
        idx, idx, cbool(c["push0"]), cbool(c["fix1"]), cbool(c["sto"]), cbool(c["part"]), c["mb"],
        cl(c["block"], cinstr, "instr"), cl(o["opt_plain"], cs, "string"),
        copt(sbl, lambda s: cl(s, lambda b: cl(b, cs, "string"), "(list string)")),
        copt(o.get("segs"), lambda s: cl(s, lambda b: cl(b, cs, "string"), "(list string)")),
        cl(o.get("masks", []), lambda m: cl(m, lambda k: "%d%%nat" % k, "nat"), "(list nat)"),
        cl(reb, lambda r: copt(r, lambda ids: cl(runs(ids), lambda z: "((%d)%%Z,%d%%nat)" % z, "(Z*nat)")), "(option (list (Z*nat)))"),
        cbool(c["prop_ok"]))


def coq_compare(run, cases, tag):
    """cases -> list of indices that disagree (model vs implementation, or theorem instance broken)"""
    files = []
    per = 200
    for fi in range(0, len(cases), per):
        chunk = cases[fi:fi + per]
        _STR.clear()
        terms = "".join(case_term(fi + j, c) for j, c in enumerate(chunk))
        body = PRE + str_defs() + terms + "Definition cases := [" + \
            "; ".join("c%d" % (fi + j) for j in range(len(chunk))) + \
            "].\nEval vm_compute in (bad cases, ncov cases).\n"
        files.append(("c14_%d_%s_%04d" % (os.getpid(), tag, fi // per), body))
    res = common.run_cases_parallel(files, timeout=900)
    badidx, ncov, broken = [], 0, []
    pat = r"=\s*\(\s*\[(.*?)\]\s*,\s*(\d+)(?:%nat)?\s*\)\s*:\s*list Z \* nat"
    for name, body in files:
        ok, outp = res[name]
        m = re.search(pat, outp, re.S)
        tries = 0
        while not m and tries < 2 and re.search(r"Can't open|No such file|cannot open", outp):
            # coq/Cases is shared with the other checks, one of which may have emptied it: write the file again
            tries += 1
            ok, outp = common.run_cases(name, body, timeout=900)
            m = re.search(pat, outp, re.S)
        # the printed value is the kernel's answer; failing to write the .vo afterwards (directory removed by a
        # concurrent check) does not invalidate it
        if not m:
            broken.append((name, outp[-600:]))
            continue
        badidx += [int(x) for x in re.findall(r"\d+", m.group(1))]
        ncov += int(m.group(2))
    return badidx, ncov, broken


def coq_show(run, c):
    """model outputs of one case, as text (diagnostics for replay files)"""
    o = c["out"]
    _STR.clear()
    blk = cl(c["block"], cinstr, "instr")
    if o.get("direct"):
        body0 = "Definition b := %s.\nDefinition sbl := %s.\nEval vm_compute in (process_blocks_split sbl).\n" \
                "Eval vm_compute in (map (fun m => option_map (map payload) (rebuild %s %s b (repl_of m) sbl)) %s).\n" % (
                    blk, cl(o["sbl"], lambda b: cl(b, cs, "string"), "(list string)"), cbool(c["push0"]), cbool(c["fix1"]),
                    cl(o.get("masks", []), lambda m: cl(m, lambda k: "%d%%nat" % k, "nat"), "(list nat)"))
        ok, outp = common.run_cases("c14_%d_show" % os.getpid(), PRE + str_defs() + body0, timeout=120)
        return re.sub(r"\s+", " ", outp)[:3000]
    body = PRE + str_defs() + """Definition b := %s.
Definition pl := optimizable_plain %s b.
Eval vm_compute in pl.
Eval vm_compute in (sub_block_list %s %s (%d)%%Z pl).
Eval vm_compute in (match sub_block_list %s %s (%d)%%Z pl with Some s => process_blocks_split s | None => None end).
Eval vm_compute in (match sub_block_list %s %s (%d)%%Z pl with Some s => map (fun m => option_map (map payload) (rebuild %s %s b (repl_of m) s)) %s | None => [] end).
Eval vm_compute in (shape_ok b, first_ok %s b).
""" % (blk, cbool(c["push0"]), cbool(c["sto"]), cbool(c["part"]), c["mb"],
       cbool(c["sto"]), cbool(c["part"]), c["mb"], cbool(c["sto"]), cbool(c["part"]), c["mb"],
       cbool(c["push0"]), cbool(c["fix1"]), cl(o.get("masks", []), lambda m: cl(m, lambda k: "%d%%nat" % k, "nat"), "(list nat)"),
       cbool(c["push0"]))
    ok, outp = common.run_cases("c14_%d_show" % os.getpid(), body, timeout=120)
    return re.sub(r"\s+", " ", outp)[:3000]


# ---------------------------------------------------------------------------------------------
# property predicates on implementation outputs

NONOPT = {"tag", "JUMPDEST", "JUMP", "JUMPI", "STOP", "RETURN", "REVERT", "INVALID", "SELFDESTRUCT"}


def nopname(s):
    return "ASSIGNIMMUTABLE" if s.startswith("ASSIGNIMMUTABLE ") and " " not in s[16:] else s


def classify(block):
    """why a block is outside the rebuild's reach (shape of the minimized witness class)"""
    ds = [d for d, _, _ in block]
    i = 0
    while i < len(ds) and ds[i] in NONOPT:
        i += 1
    j = i
    while j < len(ds) and ds[j] not in NONOPT:
        j += 1
    if any(d not in NONOPT for d in ds[j:]):
        return "non-optimizable-instruction-between-optimizable-ones"
    if i < len(ds) and ds[i] == "ASSIGNIMMUTABLE":
        return "first-optimizable-instruction-is-ASSIGNIMMUTABLE"
    return "well-shaped"


def property_failures(c):
    """evaluates C14's predicates on the implementation's outputs of one case; list of (kind, detail)"""
    o, block = c["out"], c["block"]
    fails = []
    if o.get("direct"):
        return fails                      # mutated sub-block lists only exercise the model of rebuild's asserts
    if not o["opt_plain"]:
        return fails                      # nothing to optimize: gasol_asm returns the block before splitting
    if o.get("sbl") is not None and o.get("sbl_get") is not None and o["sbl"] != o["sbl_get"]:
        fails.append(("subblocks-differ-between-get_subblocks-and-evm2rbr_compiler", [o["sbl"], o["sbl_get"]]))
    sbl = o["sbl"] if o.get("sbl") is not None else o.get("sbl_get")
    if sbl is None:
        fails.append(("front-end-exception", o.get("sbl_get_exc") or o.get("sbl_exc")))
        return fails
    # join at the shared splitting instruction = optimizable instructions (nop names)
    joined = list(sbl[0]) if sbl else []
    for i in range(1, len(sbl)):
        if not sbl[i] or not sbl[i - 1] or sbl[i][0] != sbl[i - 1][-1]:
            fails.append(("sub-blocks-not-chained", sbl))
            break
        joined += sbl[i][1:]
    if joined != [nopname(x) for x in o["opt_plain"]]:
        fails.append(("join-differs-from-optimizable", [joined, o["opt_plain"]]))
    segs = o.get("segs")
    if segs is None:
        fails.append(("process_blocks_split-exception", sbl))
    # keys of the specification dictionary <-> reported sub-blocks
    if o.get("keys") is not None and segs is not None:
        for k, info in o["keys"].items():
            m = re.fullmatch(r"blk_(\d+)", k)
            if not m or int(m.group(1)) >= len(sbl):
                fails.append(("spec-key-without-sub-block", k))
                continue
            seg = segs[int(m.group(1))]
            if not seg:
                fails.append(("spec-key-for-empty-segment", k))
            if info["orig"] is not None and info["orig"].split() != " ".join(seg).split():
                fails.append(("spec-key-instructions-differ-from-segment", [k, info["orig"], seg]))
        # source-stack chaining (per instance): height before segment k from the block's input stack
        if "seg_eff" in o:
            h = o["input"]
            for k, (need, delta) in enumerate(o["seg_eff"]):
                info = o["keys"].get("blk_%d" % k)
                if info is not None:
                    if info["src"] > h or info["tgt"] - info["src"] != delta:
                        fails.append(("spec-source-stack-not-chained",
                                      [k, info, {"height_before": h, "need": need, "delta": delta}]))
                if h < need:
                    fails.append(("stack-underflow-in-segment", [k, h, need]))
                h += delta
                if k < len(o["sep_eff"]):
                    if h < o["sep_eff"][k][0]:
                        fails.append(("stack-underflow-at-split", [k, h]))
                    h += o["sep_eff"][k][1]
    # rebuild
    ids = [i for _, _, i in block]
    optids = [i for d, _, i in block if d not in NONOPT]
    for mask, r in zip(o.get("masks", []), o.get("rebuilt", [])):
        if "err" in r:
            fails.append(("rebuild-raises-" + r["err"], mask))
            continue
        if r["bad"]:
            fails.append(("rebuild-changes-fields", [mask, r["bad"]]))
        if not mask:
            if r["ids"] != ids:
                fails.append(("rebuild-none-not-identity", r["ids"]))
        elif segs is not None and classify(block) != "non-optimizable-instruction-between-optimizable-ones":
            # expected: pre ++ segments with the masked ones replaced, separators kept ++ post
            first = ids.index(optids[0])
            exp, pos = ids[:first], first
            for k, seg in enumerate(segs):
                if k in mask:
                    exp += [t[2] for t in r_items(k)]
                else:
                    exp += ids[pos:pos + len(seg)]
                pos += len(seg)
                if k < len(segs) - 1:
                    exp.append(ids[pos])
                    pos += 1
            exp += ids[pos:]
            if r["ids"] != exp:
                fails.append(("rebuild-replacement-not-local", [mask, r["ids"], exp]))
    return fails


# ---------------------------------------------------------------------------------------------

_PRE = []


def _preimport():
    """import GASOL's modules once in the parent so that the forked workers do not pay for it again
    (importing runs no pipeline code; all state changes happen in the workers' setup_process)"""
    if not _PRE:
        import gasol_asm  # noqa
        import sfs_generator.ir_block  # noqa
        import sfs_generator.gasol_optimization  # noqa
        import solution_generation.optimize_from_sub_blocks  # noqa
        _PRE.append(1)


def run_impl(polname, blocks, masks=None, timeout=60):
    items = [{"block": b, "masks": masks} for b in blocks]
    # one set of workers per policy: the policy lives in module globals of the implementation
    _preimport()
    res = gasol.pmap(_run_case, items, init=_init, initargs=(polname,), timeout=timeout,
                     procs=min(common.NCPU, max(1, len(items) // 40)))
    info = None
    for st, o in res:
        if st == "ok":
            info = o["info"]
            break
    return res, info


def detect_variant(run):
    """Which first loop does the checkout have?  Decided on the probe block `ASSIGNIMMUTABLE 5 PUSH 1 POP`:
    the unpatched code raises IndexError there, proposals/C14/1.patch returns the block."""
    res, _ = run_impl("default", [[("ASSIGNIMMUTABLE", "5", 1), ("PUSH", "1", 2), ("POP", None, 3)]], masks=[[]])
    st, o = res[0]
    if st != "ok":
        raise RuntimeError("probe failed: %r" % (res[0],))
    r = o["rebuilt"][0]
    return "ids" in r and r["ids"] == [1, 2, 3]


def check(run):
    rng = random.Random(run.seed)
    ok = common.proof_stage(run, "Props/C14.v")
    run.cov["trusted_base"] += [
        "hand-written model coq/Model/Split.v of split_blocks/split_by_numbers/split_blocks_by_number/"
        "compute_position_stores/is_optimizable/process_blocks_split/rebuild_optimized_asm_block/to_plain "
        "(tied by the correspondence run below; RBR text abstracted to one nop name per instruction)",
        "harness/c14.py (builds AsmBlock objects, canonicalises instructions to their `begin` id after "
        "comparing all fields)",
        "source-stack chaining and key<->segment text are checked per instance only (arity table of /repo)"]
    if not ok:
        run.log("proof stage broken:", run.proof_broken)
    fix1 = detect_variant(run)
    run.log("rebuild first-loop variant:", "patched (proposals/C14/1.patch)" if fix1 else "original")
    run.notes.append("first loop variant of rebuild_optimized_asm_block: %s" % ("patched" if fix1 else "original"))

    blocks = corpus_blocks() + gen_blocks(run.tier, rng)
    run.log("generated %d blocks" % len(blocks))
    allcases, dist = [], {"kind": {}, "policy": {}, "n_subblocks": {}, "len": {}, "status": {}, "class": {},
                          "rebuild_outcome": {}, "front_end_exc": 0}

    def bump(d, k, n=1):
        d[k] = d.get(k, 0) + n

    for pol in POLICIES:
        if pol in ("partition", ):
            sel = [(k, b) for k, b in blocks if k in ("rand", "long", "corpus") or len(b) <= 4]
        elif pol == "storage+partition":
            sel = [(k, b) for k, b in blocks if k in ("rand", "long", "corpus", "exh3") and len(b) <= 40][::3]
        else:
            sel = blocks
        res, info = run_impl(pol, [b for _, b in sel])
        for (kind, b), (st, o) in zip(sel, res):
            bump(dist["status"], st)
            if st != "ok":
                if run.report({"kind": "implementation-" + st, "policy": pol},
                              "implementation did not answer (%s: %r) on a C14 case" % (st, o),
                              {"policy": pol, "block": b}, found_input=True):
                    pass
                continue
            if info is None:
                continue
            c = {"pol": pol, "kind": kind, "block": b, "out": o, "fix1": fix1, **info}
            c["fails"] = property_failures(c)
            c["prop_ok"] = not c["fails"]
            allcases.append(c)
            bump(dist["kind"], kind)
            bump(dist["policy"], pol)
            sbl = o["sbl"] if o.get("sbl") is not None else o.get("sbl_get")
            bump(dist["n_subblocks"], len(sbl) if sbl is not None else -1)
            bump(dist["len"], min(len(b), 90) // 5 * 5)
            bump(dist["class"], classify(b))
            if o.get("sbl") is None and o["opt_plain"]:
                dist["front_end_exc"] += 1      # evm2rbr_compiler raised after splitting; get_subblocks answered
                if len(dist.setdefault("front_end_exc_samples", [])) < 3:
                    dist["front_end_exc_samples"].append({"policy": pol, "block": " ".join(o["plain"]),
                                                          "exception": o.get("sbl_exc")})
            for r in o.get("rebuilt", []):
                bump(dist["rebuild_outcome"], r.get("err", "ok"))
    # direct calls of rebuild with mutated sub-block lists (model of the asserts / substring tests / indexing)
    base = [c for c in allcases if c["pol"] in ("default", "storage") and c["out"].get("sbl") and c["out"]["opt_plain"]]
    rng2 = random.Random(run.seed + 14)
    nd = 600 if run.tier == "quick" else 6000
    pick = [rng2.choice(base) for _ in range(nd)] if base else []
    muts = [mutate_sbl(c["out"]["sbl"], rng2) for c in pick]
    _preimport()
    res = gasol.pmap(_run_case, [{"block": c["block"], "masks": None, "sbl": m} for c, (_, m) in zip(pick, muts)],
                     init=_init, initargs=("default",), timeout=60)
    dist["direct_mutation"] = {}
    for c0, (mk, m), (st, o) in zip(pick, muts, res):
        bump(dist["status"], st)
        if st != "ok":
            run.report({"kind": "implementation-" + st, "policy": "direct"},
                       "direct rebuild call did not answer (%s: %r)" % (st, o), {"block": c0["block"], "sbl": m})
            continue
        c = {"pol": "direct", "kind": "direct:" + mk, "block": c0["block"], "out": o, "fix1": fix1,
             "sto": False, "part": False, "mb": 22, "push0": o["info"]["push0"], "fails": [], "prop_ok": True}
        allcases.append(c)
        bump(dist["kind"], "direct")
        bump(dist["direct_mutation"], mk)
        for r in o.get("rebuilt", []):
            bump(dist["rebuild_outcome"], "direct:" + r.get("err", "ok"))
    run.log("implementation ran on %d cases" % len(allcases))

    # model vs implementation inside Coq
    badidx, ncov, broken = coq_compare(run, allcases, run.tier[0])
    for name, tail in broken:
        run.report({"kind": "cases-file-failed", "file": name}, "cases file did not evaluate: " + tail,
                   {"file": "coq/Cases/%s.v" % name, "output": tail}, found_input=False)
    for i in badidx[:5]:
        c = allcases[i]
        shown = coq_show(run, c)
        run.report({"kind": "model-implementation-disagree", "policy": c["pol"], "class": classify(c["block"])},
                   "model (Coq) and implementation disagree on splitting/rebuilding, or an instance of the "
                   "proved theorem fails on the implementation",
                   {"policy": c["pol"], "block": c["block"], "implementation": c["out"], "model": shown,
                    "property_failures": c["fails"],
                    "cmd": "./check C14 --replay <this file>"}, found_input=bool(c["fails"]))
    # property predicates on the implementation
    nfail = 0
    seen = set()
    for c in allcases:
        for kind, detail in c["fails"]:
            nfail += 1
            key = {"kind": kind, "class": classify(c["block"])}
            sig = json.dumps(key, sort_keys=True)
            if sig in seen and len(seen) > 0 and nfail > 50:
                continue
            if sig in seen:
                # same witness class: keep the shortest block as the replay
                continue
            seen.add(sig)
            small = min((d for d in allcases if any(k2 == kind for k2, _ in d["fails"])
                         and classify(d["block"]) == key["class"]), key=lambda d: len(d["block"]))
            run.report(key, "C14 predicate fails on the implementation: %s (%s)" % (kind, key["class"]),
                       {"policy": small["pol"], "block": small["block"],
                        "plain": small["out"]["plain"], "sub_block_list": small["out"].get("sbl") or small["out"].get("sbl_get"),
                        "failures": [f for f in small["fails"] if f[0] == kind][:3],
                        "cmd": "./check C14 --replay <this file>"}, found_input=True)
    if not ok:
        run.report({"kind": "proof-broken", "what": str(run.proof_broken)[:80]},
                   "proof stage failed (%s); correspondence and predicates were still evaluated: %d predicate "
                   "failures, %d disagreements" % (str(run.proof_broken)[:200], nfail, len(badidx)),
                   {"theorem_file": "coq/Props/C14.v", "broken": str(run.proof_broken)[:1500]},
                   found_input=False)
    # coverage
    distinct = {json.dumps([c["pol"], [(d, v) for d, v, _ in c["block"]]]) for c in allcases
                if len(c["out"].get("sbl") or c["out"].get("sbl_get") or []) >= 2 or len(c["block"]) > c["mb"]}
    run.cov["evaluations"] = sum(1 + len(c["out"].get("rebuilt", [])) for c in allcases)
    run.cov["cases"] = len(allcases)
    run.cov["distinct_nontrivial"] = len(distinct)
    run.cov["covered_by_partial_theorem"] = ncov
    run.cov["property_predicate_failures"] = nfail
    run.cov["rule"] = ("blocks: every word over the 5 instruction classes {other, store, split, begin, end} up to "
                       "length %d and every word over {other, store, split} up to length %d with random begin/end "
                       "context, class representatives drawn from the alphabet (PUSH 1, ADD, POP, SWAP1, DUP1, PUSH 0, "
                       "PUSH [tag] 2, MLOAD | MSTORE, SSTORE, MSTORE8 | LOG1, CALL, GAS, ASSIGNIMMUTABLE 5, CODECOPY | "
                       "JUMPDEST, tag 1 | JUMP, STOP, JUMPI, SELFDESTRUCT) with run.seed; random blocks of length 18-30 "
                       "and 45-80 with many stores; policies default, -storage, -partition, -partition with max_bound "
                       "rebound to 3, -storage -partition; per case all replacement subsets (<= 4 sub-blocks) or "
                       "none/all/singletons/random (<= 16).  Each case = one block under one policy; an evaluation = "
                       "one split or one rebuild compared between Coq model and implementation.  distinct non-trivial "
                       "= distinct (policy, instruction sequence) with >= 2 sub-blocks or longer than max_bound."
                       % ((4 if run.tier == "quick" else 5), (5 if run.tier == "quick" else 8)))
    run.cov["distribution"] = dist
    for c in allcases[:: max(1, len(allcases) // 6)]:
        run.add_sample({"policy": c["pol"], "block": " ".join(c["out"]["plain"]),
                        "sub_block_list": c["out"].get("sbl") or c["out"].get("sbl_get"),
                        "rebuilds": len(c["out"].get("rebuilt", []))})
    cdir = os.path.join(common.COQ, "Cases")          # only this check's files (the directory is shared)
    if os.path.isdir(cdir):
        for f in os.listdir(cdir):
            if f.startswith("c14_%d_" % os.getpid()) or f.startswith(".c14_%d_" % os.getpid()):
                try:
                    os.remove(os.path.join(cdir, f))
                except OSError:
                    pass
    import shutil
    shutil.rmtree(os.path.join(common.WORK, "b-c14", "run%d" % os.getpid()), ignore_errors=True)


def replay(run, path):
    """re-runs the block of a replay file on the implementation alone and prints the predicates"""
    with open(path) as fh:
        j = json.load(fh)
    rp = j.get("replay", j)
    if "block" not in rp:
        print("replay names a theorem/correspondence, not an input:", json.dumps(rp)[:500])
        return 1
    b = [tuple(x) for x in rp["block"]]
    pol = rp.get("policy", "default")
    res, info = run_impl(pol, [b])
    import shutil
    shutil.rmtree(os.path.join(common.WORK, "b-c14", "run%d" % os.getpid()), ignore_errors=True)
    st, o = res[0]
    if st != "ok":
        print("implementation:", st, o)
        return 1
    c = {"pol": pol, "block": b, "out": o, "fix1": False, **info}
    fails = property_failures(c)
    print("block:", " ".join(o["plain"]))
    print("sub_block_list:", o.get("sbl") or o.get("sbl_get"))
    for m, r in zip(o.get("masks", []), o.get("rebuilt", [])):
        print("  rebuild replacing", m, "->", r)
    for f in fails:
        print("FAIL", f[0], json.dumps(f[1], default=str)[:300])
    print("VIOLATED" if fails else "holds")
    return 1 if fails else 0
