"""C15  Parsing and serialization round-trip.

Proof: coq/Props/C15.v (model coq/Model/Asm.v, lemmas coq/Model/AsmProofs.v).
Tie (hand-written model): the Coq kernel evaluates the model (vm_compute, cases files) on the
same inputs as the implementation and `json_eqb` compares the observations:
  item   build_asm_bytecode -> to_json / value / real_value / to_plain / numeric value / pushlib dict
  block  build_blocks_from_asm_representation -> ids, names, tags, items, to_plain, _idx2real_value
  doc    parse_asm(file).to_json()      (dict insertion order included)
  text   plain_instructions_to_asm_representation, parse_blocks_from_plain_instructions,
         parse(to_plain(block))
  opc    opcodes.get_opcode raises / add_ok
The property itself is evaluated on the implementation alone for every shipped document, every
generated solc-shaped document, every generated canonical text and every constant spelling.
"""
import collections
import copy
import glob
import json
import os
import random
import shutil

from harness import common

HEXALPHA = set("0123456789abcdefABCDEFxX")
MODEL_ALPHA = set("abcdefghijklmnopqrstuvwxyzABCDEFGHIJKLMNOPQRSTUVWXYZ0123456789[]#$ \n\r")
EXC = (KeyError, TypeError, ValueError, IndexError, AttributeError)


# --------------------------------------------------------------------------
# implementation access

def _impl():
    import global_params.constants as constants
    import sfs_generator.parser_asm as pa
    import sfs_generator.opcodes as opcodes
    return constants, pa, opcodes


def set_p0(p0):
    _impl()[0]._set_push0(bool(p0))


def py_numeric(bc):
    if bc.disasm == "PUSH0":
        return 0
    if bc.disasm == "PUSH" and isinstance(bc.value, str):
        try:
            return int(bc.value, 16)
        except ValueError:
            return None
    return None


def py_plain(bc):
    v = bc.value
    if v is not None and (isinstance(v, bool) or not isinstance(v, (str, int))):
        # str() of other JSON values is outside the model, unless the value is not printed
        if "JUMP" in bc.disasm:
            return bc.to_plain()
        return None
    return bc.to_plain()


def obs_bc(bc):
    return [bc.to_json(), bc.value, bc.real_value, py_plain(bc), py_numeric(bc)]


def obs_item(p0, ins, st_list):
    _, pa, _ = _impl()
    set_p0(p0)
    st = {v: i for i, v in enumerate(st_list)}
    try:
        bc = pa.build_asm_bytecode(ins, st)
    except EXC:
        return None
    return [[obs_bc(bc), list(st.keys())]]


def obs_block(b):
    try:
        plain = b.to_plain()
        if any(py_plain(i) is None for i in b.instructions if i.disasm != "tag"):
            plain = None
    except EXC:
        plain = None
    idx = getattr(b, "_idx2real_value", None)
    return [b.block_id, b.block_name, b.tag, [obs_bc(i) for i in b.instructions], plain,
            None if idx is None else list(idx.keys())]


def obs_build_blocks(p0, pre, items):
    _, pa, _ = _impl()
    set_p0(p0)
    try:
        bs = pa.build_blocks_from_asm_representation("c", pre, copy.deepcopy(items), False)
    except EXC:
        return None
    return [[obs_block(b) for b in bs]]


def impl_roundtrip_doc(run, p0, doc):
    """parse_asm(file).to_json() on the document (written to a scratch file)."""
    _, pa, _ = _impl()
    set_p0(p0)
    path = os.path.join(scratch(run), "doc.json")
    with open(path, "w") as fh:
        json.dump(doc, fh)
    try:
        return [pa.parse_asm(path).to_json()]
    except EXC as e:
        return None


def obs_plain_to_asm(text):
    _, pa, _ = _impl()
    try:
        return [pa.plain_instructions_to_asm_representation(text)]
    except EXC:
        return None


def obs_parse_plain(p0, text):
    _, pa, _ = _impl()
    set_p0(p0)
    try:
        bs = pa.parse_blocks_from_plain_instructions(text)
    except EXC:
        return None
    return [[obs_block(b) for b in bs]]


def obs_plain_roundtrip(p0, text):
    _, pa, _ = _impl()
    set_p0(p0)
    try:
        bs = pa.parse_blocks_from_plain_instructions(text)
    except EXC:
        return None
    out = []
    for b in bs:
        ob = obs_block(b)
        out.append(None if ob[4] is None else obs_parse_plain(p0, ob[4]))
    return [out]


def scratch(run):
    d = os.path.join(common.WORK, "c15_%d" % os.getpid())
    os.makedirs(d, exist_ok=True)
    return d


# --------------------------------------------------------------------------
# Coq terms

def coq_str(s):
    b = s.encode("utf-8")
    if all(32 <= c < 127 for c in b):
        return '"' + s.replace('"', '""') + '"'
    parts, cur = [], ""
    for c in b:
        if 32 <= c < 127:
            cur += '""' if c == 34 else chr(c)
        else:
            if cur:
                parts.append('"%s"' % cur)
                cur = ""
            parts.append('(String (Ascii.ascii_of_nat %d) "")' % c)
    if cur:
        parts.append('"%s"' % cur)
    return "(" + " ++ ".join(parts) + ")"


def coq_json(j):
    if j is None:
        return "JNull"
    if isinstance(j, bool):
        return "(JBool %s)" % ("true" if j else "false")
    if isinstance(j, int):
        return "(JInt (%d)%%Z)" % j
    if isinstance(j, str):
        return "(JStr %s)" % coq_str(j)
    if isinstance(j, (list, tuple)):
        return "(JArr [" + "; ".join(coq_json(x) for x in j) + "])"
    if isinstance(j, dict):
        return "(JObj " + coq_jobj(j) + ")"
    raise TypeError("not modelled: %r" % (j,))


def coq_jobj(d):
    return "[" + "; ".join("(%s, %s)" % (coq_str(k), coq_json(v)) for k, v in d.items()) + "]"


def coq_bool(b):
    return "true" if b else "false"


HEADER = ("From Coq Require Import ZArith List String Ascii Bool.\nFrom GV Require Import Model.Asm.\n"
          "Import ListNotations.\nOpen Scope string_scope.\n")


def run_private_cases(run, named_bodies, timeout=900):
    """Like common.run_cases_parallel (coqc + vm_compute per cases file, <= NCPU at a time), but in a
    directory private to this run: coq/Cases is shared and another check may clean it while this
    one is compiling."""
    import concurrent.futures as cf
    d = os.path.join(scratch(run), "cases")
    os.makedirs(d, exist_ok=True)
    for n, b in named_bodies:
        with open(os.path.join(d, n + ".v"), "w") as fh:
            fh.write(b)

    def one(n):
        rc, out = common.sh("ulimit -s unlimited 2>/dev/null; timeout %d coqc -Q %s GV %s.v" % (timeout, common.COQ, n),
                            cwd=d, timeout=timeout + 30)
        return n, (rc == 0, out)
    res = {}
    with cf.ThreadPoolExecutor(max_workers=common.NCPU) as ex:
        for n, r in ex.map(one, [n for n, _ in named_bodies]):
            res[n] = r
    return res


class Cases:
    """Collects (model expression, expected observation); the kernel evaluates
    json_eqb model expected for each and prints the list of booleans."""

    def __init__(self, run, tag):
        self.run, self.tag, self.cases = run, tag, []

    def add(self, kind, model_expr, expected, meta, expected_is_coq=False):
        exp = expected if expected_is_coq else coq_json(expected)
        self.cases.append((kind, model_expr, exp, meta))

    def evaluate(self, per_file=150, max_bytes=350_000):
        files, cur, size = [], [], 0
        for c in self.cases:
            sz = len(c[1]) + len(c[2])
            if cur and (len(cur) >= per_file or size + sz > max_bytes):
                files.append(cur)
                cur, size = [], 0
            cur.append(c)
            size += sz
        if cur:
            files.append(cur)
        bodies = []
        for fi, cs in enumerate(files):
            lines = [HEADER]
            for i, (kind, me, exp, _) in enumerate(cs):
                lines.append("Definition r%d : bool := json_eqb (%s) (%s)." % (i, me, exp))
            lines.append("Eval vm_compute in [%s]." % "; ".join("r%d" % i for i in range(len(cs))))
            bodies.append(("c15_%s_%03d" % (self.tag, fi), "\n".join(lines) + "\n"))
        res = run_private_cases(self.run, bodies, timeout=900)
        bad, total = [], 0
        for (name, _), cs in zip(bodies, files):
            ok, out = res[name]
            vals = common.parse_eval_list(out)
            if not ok or not vals:
                bad.append(("coq-failed", name, out[-600:], None))
                continue
            bs = [x.strip() for x in vals[-1].strip("[]").split(";")]
            if len(bs) != len(cs):
                bad.append(("coq-output", name, out[-600:], None))
                continue
            for b, c in zip(bs, cs):
                total += 1
                if b != "true":
                    bad.append(("disagree", c[0], c[3], c))
        return total, bad

    def model_value(self, case):
        """Second pass for a disagreeing case: print what the model computes."""
        body = HEADER + "Eval vm_compute in (%s).\n" % case[1]
        ok, out = run_private_cases(self.run, [("c15_dbg", body)], timeout=300)["c15_dbg"]
        return out[-1500:]


# --------------------------------------------------------------------------
# property predicates on the implementation

def spell(doc, p0):
    """The documented respelling: with push0 enabled a PUSH of "0" in the code that GASOL parses
    (top-level .code and the .code of each member of the top-level .data) is written PUSH0."""
    d = copy.deepcopy(doc)
    if not p0:
        return d

    def sp_code(code):
        for it in code:
            if isinstance(it, dict) and it.get("name") == "PUSH" and it.get("value") == "0":
                it["name"] = "PUSH0"
                del it["value"]
    for c in d.get("contracts", {}).values():
        asm = c.get("asm") if isinstance(c, dict) else None
        if not isinstance(asm, dict):
            continue
        sp_code(asm.get(".code", []))
        for sub in asm.get(".data", {}).values():
            if isinstance(sub, dict):
                sp_code(sub.get(".code", []))
    return d


def first_diff(a, b, path=""):
    if type(a) != type(b):
        return "%s: %s vs %s" % (path, json.dumps(a)[:80], json.dumps(b)[:80])
    if isinstance(a, dict):
        if set(a) != set(b):
            return "%s: keys only in output %s, only in document %s" % (
                path, sorted(set(a) - set(b))[:4], sorted(set(b) - set(a))[:4])
        for k in a:
            d = first_diff(a[k], b[k], path + "/" + k)
            if d:
                return d
        return None
    if isinstance(a, list):
        if len(a) != len(b):
            return "%s: length %d vs %d" % (path, len(a), len(b))
        for i, (x, y) in enumerate(zip(a, b)):
            d = first_diff(x, y, "%s/%d" % (path, i))
            if d:
                return d
        return None
    return None if a == b else "%s: %r vs %r" % (path, a, b)


def doc_property(run, p0, doc):
    """None when to_json(parse(D)) = D up to the PUSH0 spelling; else a description."""
    out = impl_roundtrip_doc(run, p0, doc)
    if out is None:
        return "parse_asm/to_json raised an exception"
    return first_diff(out[0], spell(doc, p0))


def classify_doc_failure(doc, diff):
    """Key of a failure of the document property (matched against known findings)."""
    if "raised" in diff:
        _, _, opcodes = _impl()
        names = set()

        def walk(a):
            for it in a.get(".code", []):
                if isinstance(it, dict) and isinstance(it.get("name"), str):
                    names.add(it["name"])
            for s in a.get(".data", {}).values():
                if isinstance(s, dict):
                    walk(s)
        for c in doc["contracts"].values():
            if isinstance(c.get("asm"), dict):
                walk(c["asm"])
        unknown = []
        for n in sorted(names):
            if n in ("tag", "JUMPDEST", "JUMP", "JUMPI", "STOP", "RETURN", "REVERT", "INVALID", "SELFDESTRUCT"):
                continue
            try:
                opcodes.get_opcode(n)
            except ValueError:
                unknown.append(n)
        if unknown:
            return {"kind": "doc-roundtrip", "function": "AsmBlock.add_instruction/get_opcode",
                    "shape": "opcode-not-in-table"}, unknown
        return {"kind": "doc-roundtrip", "function": "parse_asm", "shape": "exception"}, None
    if diff.endswith("only in document ['asm']") or "/asm: " in diff and "null" in diff:
        return {"kind": "doc-roundtrip", "function": "AsmContract.to_json", "shape": "asm-null"}, None
    if ": keys only in output" in diff:
        shape = "keys" + diff.split(": keys", 1)[1][:80]
    elif ": length " in diff:
        shape = "length of " + ([x for x in diff.split(": length ")[0].split("/") if not x.isdigit()] or ["?"])[-1]
    else:
        shape = "value of " + ([x for x in diff.rsplit(": ", 1)[0].split("/") if not x.isdigit()] or ["?"])[-1][:40]
    return {"kind": "doc-roundtrip", "function": "to_json", "shape": shape}, None


def bc_eq_list(a, b):
    return len(a) == len(b) and all(x == y for x, y in zip(a, b))


def text_property(p0, text):
    """parse_plain(to_plain(b)) = [b] (AsmBytecode.__eq__) for every block b of parse_plain(text).
    Returns (n_blocks, failures)."""
    _, pa, _ = _impl()
    set_p0(p0)
    bs = pa.parse_blocks_from_plain_instructions(text)
    fails = []
    for b in bs:
        t = b.to_plain()
        try:
            bs2 = pa.parse_blocks_from_plain_instructions(t)
        except EXC as e:
            fails.append((t, "exception %s" % type(e).__name__))
            continue
        if len(bs2) != 1 or not bc_eq_list(bs2[0].instructions, b.instructions):
            fails.append((t, "differs: %s" % [[(i.disasm, i.value) for i in x.instructions] for x in bs2]))
    return len(bs), fails


def spelling_value(p0, text):
    _, pa, _ = _impl()
    set_p0(p0)
    bs = pa.parse_blocks_from_plain_instructions(text)
    ins = [i for b in bs for i in b.instructions]
    if len(ins) != 1:
        return ("count", len(ins))
    return py_numeric(ins[0])


# --------------------------------------------------------------------------
# generators

PLAIN_OPS = ["ADD", "MUL", "SUB", "DIV", "AND", "OR", "XOR", "NOT", "ISZERO", "EQ", "LT", "GT", "SLT", "SHL",
             "SHR", "SAR", "POP", "MLOAD", "MSTORE", "MSTORE8", "SLOAD", "SSTORE", "KECCAK256", "CALLER",
             "CALLVALUE", "CALLDATALOAD", "CALLDATASIZE", "CODECOPY", "EXTCODESIZE", "RETURNDATASIZE",
             "RETURNDATACOPY", "GAS", "ADDRESS", "TIMESTAMP", "LOG1", "LOG3", "CALL", "STATICCALL",
             "SELFBALANCE", "CHAINID", "BYTE", "EXP", "MOD", "SELFDESTRUCT"]
BOUNDARY = [0, 1, 9, 10, 15, 16, 255, 256, 2 ** 64, 2 ** 160 - 1, 2 ** 255, 2 ** 256 - 1]
UNKNOWN_OPS = ["TLOAD", "TSTORE", "BLOBHASH", "BLOBBASEFEE"]


def rand_const(rng):
    k = rng.random()
    if k < 0.35:
        return rng.choice(BOUNDARY)
    if k < 0.6:
        return rng.randrange(0, 300)
    return rng.getrandbits(rng.choice([8, 16, 32, 64, 128, 160, 255, 256]))


def hash64(rng, upper=False):
    s = "%064x" % rng.getrandbits(256)
    if rng.random() < 0.2:
        s = "0" + s[1:]
    return s.upper() if upper else s


def gen_item(rng, st, kinds):
    """One solc-shaped assembly item (keys in jsoncpp's sorted order)."""
    loc = {"begin": rng.choice([-1, 0, rng.randrange(0, 20000)]), "end": rng.choice([-1, 0, rng.randrange(0, 20000)])}
    src = rng.choice([0, 0, 0, 1, 2, -1])
    k = rng.random()
    name, value, extra = None, None, {}
    if k < 0.30:
        name = rng.choice(PLAIN_OPS)
    elif k < 0.38:
        name = rng.choice(["DUP", "SWAP"]) + str(rng.randrange(1, 17))
    elif k < 0.62:
        name, value = "PUSH", "%X" % rand_const(rng)
    elif k < 0.72:
        name, value = "PUSH [tag]", str(rng.randrange(1, 400))
    else:
        name = rng.choice(["PUSH #[$]", "PUSH [$]", "PUSHLIB", "PUSHDEPLOYADDRESS", "PUSHIMMUTABLE",
                           "ASSIGNIMMUTABLE", "PUSH data", "PUSHSIZE"])
        if name in ("PUSH #[$]", "PUSH [$]"):
            value = "%064X" % rng.randrange(0, 3)
        elif name == "PUSHLIB":
            value = rng.choice(["lib.sol:L%d" % rng.randrange(3), "__$%034x$__" % rng.getrandbits(136)])
        elif name in ("PUSHIMMUTABLE", "ASSIGNIMMUTABLE"):
            value = hash64(rng)
        elif name == "PUSH data":
            value = hash64(rng, upper=True)
    kinds[name if not name.startswith(("DUP", "SWAP")) and name not in PLAIN_OPS else "opcode"] += 1
    if rng.random() < 0.08:
        extra["modifierDepth"] = rng.randrange(1, 4)
        kinds["+modifierDepth"] += 1
    it = dict(loc)
    it.update(extra)
    it["name"] = name
    it["source"] = src
    if value is not None:
        it["value"] = value
    return dict(sorted(it.items()))


def gen_code(rng, n, kinds, unknown=False):
    code, st = [], {}
    while len(code) < n:
        r = rng.random()
        if r < 0.12:
            t = str(rng.randrange(1, 400))
            loc = {"begin": rng.randrange(0, 9000), "end": rng.randrange(0, 9000)}
            code.append(dict(sorted({**loc, "name": "tag", "source": 0, "value": t}.items())))
            code.append(dict(sorted({**loc, "name": "JUMPDEST", "source": 0}.items())))
            kinds["tag"] += 1
        elif r < 0.24:
            nm = rng.choice(["JUMP", "JUMP", "JUMPI", "STOP", "RETURN", "REVERT", "INVALID"])
            it = {"begin": rng.randrange(0, 9000), "end": rng.randrange(0, 9000), "name": nm, "source": 0}
            if nm == "JUMP":
                style = rng.random()
                if style < 0.35:
                    it["jumpType"] = rng.choice(["[in]", "[out]"])
                    kinds["+jumpType"] += 1
                elif style < 0.6:
                    it["value"] = rng.choice(["[in]", "[out]"])
                    kinds["JUMP value(old solc)"] += 1
            kinds["terminator"] += 1
            code.append(dict(sorted(it.items())))
        elif unknown and r < 0.3:
            code.append({"begin": 1, "end": 2, "name": rng.choice(UNKNOWN_OPS), "source": 0})
            kinds["unknown-opcode"] += 1
        else:
            code.append(gen_item(rng, st, kinds))
    return code


def gen_asm(rng, kinds, depth=0, size=None, unknown=False):
    n = size if size is not None else rng.choice([0, 1, 3, 8, 20, 45])
    asm = {".code": gen_code(rng, n, kinds, unknown)}
    data = {}
    if depth == 0:
        nsub = rng.choice([1, 1, 1, 2])
    else:
        nsub = rng.choice([0, 0, 1]) if depth < 2 else 0
    members = []
    for i in range(nsub):
        sub = gen_asm(rng, kinds, depth + 1, None, unknown)
        sub_sorted = {}
        if rng.random() < 0.85:
            sub_sorted[".auxdata"] = "a264" + "%040x" % rng.getrandbits(160)
        sub_sorted[".code"] = sub[".code"]
        if ".data" in sub:
            sub_sorted[".data"] = sub[".data"]
        members.append((str(i), sub_sorted))
    for i in range(rng.choice([0, 0, 1, 2])):
        members.append((hash64(rng, upper=True), "%x" % rng.getrandbits(rng.choice([8, 256, 512]))))
        kinds["data-string"] += 1
    members.sort(key=lambda kv: kv[0])
    data = dict(members)
    if depth == 0 or data or rng.random() < 0.3:
        asm[".data"] = data
    if depth >= 1 and ".data" in asm:
        kinds["nested-data-depth-%d" % depth] += 1
    if depth == 0 and rng.random() < 0.4:
        asm["sourceList"] = ["contracts/A.sol", "#utility.yul"][:rng.randrange(1, 3)]
        kinds["+sourceList"] += 1
    return dict(sorted(asm.items()))


def gen_doc(rng, kinds, noasm="none", unknown=False):
    """noasm: how contracts without assembly are written: 'none' (no such contract),
    'empty' ({} as in the shipped files), 'null' ("asm": null as solc writes it)."""
    cs = {}
    for i in range(rng.choice([1, 2, 3])):
        nm = rng.choice(["a/b/C%d.sol:C%d", "C%d.sol:K%d", "/home/u/x.sol:Lib%d_%d"]) % (i, rng.randrange(9))
        r = rng.random()
        if noasm != "none" and (r < 0.4 or i == 0):
            cs[nm] = {} if noasm == "empty" else {"asm": None}
            kinds["contract-without-asm(%s)" % noasm] += 1
        else:
            cs[nm] = {"asm": gen_asm(rng, kinds, 0, None, unknown)}
            kinds["contract-with-asm"] += 1
    if unknown and not any(c.get("asm") for c in cs.values()):
        cs["u.sol:U"] = {"asm": gen_asm(rng, kinds, 0, 8, True)}
    return {"contracts": dict(sorted(cs.items())), "version": "0.8.%d+commit.%08x.Linux.g++" % (rng.randrange(5, 27), rng.getrandbits(32))}


def mutate_doc(rng, doc, kinds):
    """Documents outside solc's shape (kept in a separate stream): only the model/implementation
    agreement is checked on them."""
    d = copy.deepcopy(doc)
    asms = [c["asm"] for c in d["contracts"].values() if isinstance(c.get("asm"), dict)]
    if not asms:
        return None
    asm = rng.choice(asms)
    codes = [asm[".code"]] + [s[".code"] for s in asm.get(".data", {}).values() if isinstance(s, dict)]
    code = rng.choice([c for c in codes if c] or [None])
    m = rng.choice(["drop-begin", "drop-end", "drop-source", "drop-name", "null-value", "null-jumpType",
                    "tag-no-value", "pushlib-no-value", "top-auxdata", "no-data", "no-version", "sub-no-code",
                    "int-value", "null-source", "sub-extra-key", "null-auxdata", "null-modifierDepth",
                    "pushlib-int-value", "push0-item", "dup-pushlib"])
    kinds["mutation:" + m] += 1
    it = rng.choice(code) if code else None
    if m.startswith("drop-") and it is not None:
        it.pop(m[5:], None)
    elif m == "null-value" and it is not None:
        it["value"] = None
    elif m == "null-jumpType" and it is not None:
        it["jumpType"] = None
    elif m == "null-modifierDepth" and it is not None:
        it["modifierDepth"] = None
    elif m == "null-source" and it is not None:
        it["source"] = None
    elif m == "int-value" and it is not None:
        it["value"] = rng.randrange(0, 5)
    elif m == "tag-no-value" and code is not None:
        code.insert(rng.randrange(len(code) + 1), {"begin": 0, "end": 0, "name": "tag", "source": 0})
    elif m == "pushlib-no-value" and code is not None:
        code.insert(rng.randrange(len(code) + 1), {"begin": 0, "end": 0, "name": "PUSHLIB", "source": 0})
    elif m == "pushlib-int-value" and code is not None:
        code.insert(rng.randrange(len(code) + 1), {"begin": 0, "end": 0, "name": "PUSHLIB", "source": 0, "value": 7})
    elif m == "dup-pushlib" and code is not None:
        for _ in range(3):
            code.insert(rng.randrange(len(code) + 1),
                        {"begin": 0, "end": 0, "name": "PUSHLIB", "source": 0, "value": rng.choice(["A", "B", None])})
    elif m == "push0-item" and code is not None:
        code.insert(rng.randrange(len(code) + 1), {"begin": 0, "end": 0, "name": "PUSH0", "source": 0})
    elif m == "top-auxdata":
        asm[".auxdata"] = "a264"
    elif m == "no-data":
        asm.pop(".data", None)
    elif m == "no-version":
        d.pop("version", None)
    elif m in ("sub-no-code", "sub-extra-key", "null-auxdata"):
        subs = [s for s in asm.get(".data", {}).values() if isinstance(s, dict)]
        if subs:
            s = rng.choice(subs)
            if m == "sub-no-code":
                s.pop(".code", None)
            elif m == "sub-extra-key":
                s["sourceList"] = ["x"]
            else:
                s[".auxdata"] = None
    return d


def canon_hex(n):
    return "%x" % n


def gen_canonical_text(rng, kinds, p0):
    """Text in the class of the plain_roundtrip theorem: what to_plain prints for tag-free blocks
    with canonical constants (lower-case hex, no leading zeros)."""
    toks = []
    n = rng.choice([1, 2, 4, 8, 15])
    for i in range(n):
        r = rng.random()
        if r < 0.35:
            toks.append(rng.choice(PLAIN_OPS + ["DUP3", "SWAP16", "JUMPDEST"]))
            kinds["opcode"] += 1
        elif r < 0.6:
            c = rand_const(rng)
            if c == 0 and p0:
                toks.append("PUSH0")
            else:
                toks += ["PUSH", canon_hex(c)]
            kinds["PUSH"] += 1
        elif r < 0.7:
            toks += ["PUSH", "[tag]", canon_hex(rng.randrange(0, 500))]
            kinds["PUSH [tag]"] += 1
        elif r < 0.8:
            kw = rng.choice(["#[$]", "[$]", "data"])
            toks += ["PUSH", kw, canon_hex(rng.getrandbits(rng.choice([1, 64, 256])))]
            kinds["PUSH " + kw] += 1
        elif r < 0.86:
            toks += ["PUSHIMMUTABLE", canon_hex(rng.getrandbits(256))]
            kinds["PUSHIMMUTABLE"] += 1
        elif r < 0.92:
            toks += ["ASSIGNIMMUTABLE", rng.choice(["%064x" % rng.getrandbits(256), "00ab", "12"])]
            kinds["ASSIGNIMMUTABLE"] += 1
        elif r < 0.97:
            toks.append(rng.choice(["PUSHDEPLOYADDRESS", "PUSHSIZE"]))
            kinds["PUSHSIZE/DEPLOYADDRESS"] += 1
        else:
            toks += ["PUSHLIB", str(0)]
            kinds["PUSHLIB"] += 1
    if rng.random() < 0.5:
        toks.append(rng.choice(["JUMP", "JUMPI", "STOP", "RETURN", "REVERT", "INVALID"]))
        kinds["terminator"] += 1
    sep = rng.choice([" ", " ", "\n", "  "])
    return sep.join(toks)


def spellings(c):
    """All modelled spellings of the constant c: (text, kind)."""
    h = "%x" % c
    nb = max(1, (c.bit_length() + 7) // 8)
    out = []
    for z in ("", "0", "000"):
        out.append(("PUSH %s%s" % (z, h), "PUSH hex" + ("+zeros" if z else "")))
        out.append(("PUSH %s%s" % (z, h.upper()), "PUSH HEX" + ("+zeros" if z else "")))
        out.append(("PUSH 0x%s%s" % (z, h), "PUSH 0x" + ("+zeros" if z else "")))
        out.append(("PUSH 0X%s%s" % (z, h.upper()), "PUSH 0X" + ("+zeros" if z else "")))
        out.append(("PUSH%d 0x%s%s" % (nb, z, h), "PUSHn 0x" + ("+zeros" if z else "")))
        out.append(("PUSH%d 0x%s%s" % (nb, z, h.upper()), "PUSHn 0xHEX" + ("+zeros" if z else "")))
        out.append(("PUSH%d %s%d" % (nb, z, c), "PUSHn dec" + ("+zeros" if z else "")))
    out.append(("PUSH32 %d" % c, "PUSH32 dec"))
    if c == 0:
        out.append(("PUSH0", "PUSH0"))
    return out


def gen_malformed_text(rng, kinds):
    toks = []
    for i in range(rng.choice([1, 2, 3, 5])):
        r = rng.random()
        if r < 0.2:
            toks.append(rng.choice(["PUSH", "PUSH1", "PUSH [tag]", "PUSHLIB", "ASSIGNIMMUTABLE", "tag", "PUSH data"]))
            kinds["malformed:missing-operand"] += 1
        elif r < 0.4:
            toks += [rng.choice(["PUSH", "PUSH2", "PUSH [tag]", "PUSHIMMUTABLE"]),
                     rng.choice(["zz", "0x", "g1", "12h", "0xZ", "x5", "[tag]", "0b1", "0o7"])]
            kinds["malformed:bad-constant"] += 1
        elif r < 0.55:
            toks += [rng.choice(["PUSH1", "PUSH32"]), rng.choice(["ff", "0X10", "1e3", "0x", "0x0x1", "A"])]
            kinds["malformed:PUSHn-nondecimal"] += 1
        elif r < 0.7:
            toks.append(rng.choice(["FOO", "TLOAD", "PUSH00", "PUSH0x", "PUSH33", "JUMP [in]", "tagx 1", "0x12", "12",
                                    "PUSHLIBX a", "PUSHSIZEOF", "PUSHDEPLOYADDRESSX", "ASSIGNIMMUTABLEJUMP 1",
                                    "PUSHJUMP 1", "DUP17", "SWAP0", "DUP01"]))
            kinds["malformed:odd-name"] += 1
        elif r < 0.8:
            toks += ["tag", str(rng.randrange(5)), "JUMPDEST"]
            kinds["malformed:tag(in text)"] += 1
        elif r < 0.9:
            toks += ["PUSHLIB", rng.choice(["a", "b", "0", "1", "libX"])]
            kinds["malformed:PUSHLIB-names"] += 1
        else:
            toks += ["PUSH", "%x" % rand_const(rng)]
    return rng.choice([" ", "\n", "\r\n", "  "]).join(toks)


# --------------------------------------------------------------------------
# shipped documents

def shipped_docs(run):
    files = sorted(glob.glob(os.path.join(common.REPO, "examples/jsons-solc/*.json_solc")))
    if run.tier == "quick":
        rng = random.Random(run.seed)
        by_size = sorted(files, key=os.path.getsize)
        files = sorted({by_size[0], by_size[len(by_size) // 2], rng.choice(files)})
        if len(files) < 3:
            files = sorted(set(files) | {by_size[1]})
    return files


def iter_codes(doc):
    """(contract, where, code list) for every code list GASOL parses."""
    for cn, c in doc["contracts"].items():
        asm = c.get("asm")
        if not isinstance(asm, dict):
            continue
        yield cn, "init", asm[".code"]
        for k, s in asm.get(".data", {}).items():
            if isinstance(s, dict):
                yield cn, k, s[".code"]


def reduce_doc(rng, doc, per_code):
    """Same structure, every parsed code list cut down to a few contiguous runs of items."""
    d = copy.deepcopy(doc)

    def cut(code):
        if len(code) <= per_code:
            return code
        out = []
        for _ in range(3):
            s = rng.randrange(0, len(code) - per_code // 3)
            out += code[s:s + per_code // 3]
        return out
    for c in d["contracts"].values():
        asm = c.get("asm")
        if not isinstance(asm, dict):
            continue
        asm[".code"] = cut(asm[".code"])
        for s in asm.get(".data", {}).values():
            if isinstance(s, dict):
                s[".code"] = cut(s[".code"])
                for s2 in (s.get(".data") or {}).values():
                    if isinstance(s2, dict) and ".code" in s2:
                        s2[".code"] = cut(s2[".code"])
    return d


# --------------------------------------------------------------------------
# which variant of the code is present (parameter kn of the model)

KN = [False]


def detect_variant(run):
    """kn = the source remembers an explicit "asm": null (proposals/C15/1-asm-null-roundtrip.patch).
    Read from the source text, fail closed on anything unexpected; the correspondence cases on
    documents with "asm": null then check the chosen variant against the behaviour."""
    with open(os.path.join(common.REPO, "sfs_generator", "asm_contract.py")) as fh:
        src = fh.read()
    if 'return {self.contract_name: {"asm": None} if self.asm_field_is_null else {}}' in src:
        KN[0] = True
    elif "return {self.contract_name: {}}" in src:
        KN[0] = False
    else:
        raise RuntimeError("AsmContract.to_json: neither known variant of the no-asm branch found")
    run.cov["code_variant"] = "asm-null-kept" if KN[0] else "asm-null-dropped (pinned tree)"


# --------------------------------------------------------------------------
# the check

def report_doc_failure(run, p0, doc, diff, origin):
    key, extra = classify_doc_failure(doc, diff)
    small = doc if len(json.dumps(doc)) < 20000 else None
    run.report(key=key,
               what="to_json(parse(D)) differs from D (push0=%s, %s): %s%s" % (p0, origin, diff[:200],
                                                                            (" opcodes %s" % extra) if extra else ""),
               replay={"kind": "doc", "push0": p0, "document": small, "origin": origin, "diff": diff,
                       "command": "./check C15 --replay <this file>"},
               found_input=True)


def check(run):
    ok = common.proof_stage(run, "Props/C15.v")
    detect_variant(run)
    rng = random.Random(run.seed)
    quick = run.tier == "quick"
    dist = collections.OrderedDict()
    kinds_doc, kinds_mut, kinds_txt, kinds_mal = (collections.Counter() for _ in range(4))
    cases = Cases(run, "a")
    n_eval = 0
    nontrivial = set()
    prop_evals = collections.Counter()

    try:
        # ---- corpus first
        cdir = os.path.join(common.VERIF, "corpus", "C15")
        corpus = []
        for f in sorted(glob.glob(os.path.join(cdir, "*.json"))):
            with open(f) as fh:
                corpus.append((os.path.basename(f), json.load(fh)))
        for name, c in corpus:
            if c["kind"] == "doc":
                for p0 in (False, True):
                    d = doc_property(run, p0, c["document"])
                    prop_evals["corpus-doc"] += 1
                    if d is not None:
                        report_doc_failure(run, p0, c["document"], d, "corpus/" + name)
                    elif c.get("expect") != "roundtrip":
                        run.notes.append("corpus %s no longer fails (push0=%s)" % (name, p0))
                    cases.add("doc", "obs_roundtrip_doc %s %s %s" % (coq_bool(p0), coq_bool(KN[0]), coq_json(c["document"])),
                              impl_roundtrip_doc(run, p0, c["document"]), {"corpus": name, "p0": p0})
            elif c["kind"] == "text":
                for p0 in (False, True):
                    cases.add("text", "obs_parse_plain %s %s" % (coq_bool(p0), coq_str(c["text"])),
                              obs_parse_plain(p0, c["text"]), {"corpus": name, "p0": p0, "text": c["text"]})
                    cases.add("text-rt", "obs_plain_roundtrip %s %s" % (coq_bool(p0), coq_str(c["text"])),
                              obs_plain_roundtrip(p0, c["text"]), {"corpus": name, "p0": p0, "text": c["text"]})

        # ---- (a) shipped documents: the property on the implementation, and model vs implementation
        files = shipped_docs(run)
        n_items_total = 0
        blocks_sampled = 0
        for f in files:
            with open(f) as fh:
                doc = json.load(fh)
            for p0 in (False, True):
                d = doc_property(run, p0, doc)
                prop_evals["shipped-doc"] += 1
                if d is not None:
                    report_doc_failure(run, p0, doc, d, "shipped " + os.path.basename(f))
            codes = list(iter_codes(doc))
            n_items_total += sum(len(c) for _, _, c in codes)
            # reduced document through the model
            red = reduce_doc(rng, doc, 45 if quick else 90)
            for p0 in (False, True):
                exp = impl_roundtrip_doc(run, p0, red)
                cases.add("doc", "obs_roundtrip_doc %s %s %s" % (coq_bool(p0), coq_bool(KN[0]), coq_json(red)), exp,
                          {"file": os.path.basename(f), "p0": p0, "reduced": True})
                nontrivial.add(("doc", os.path.basename(f), p0))
            # sampled blocks (runs of items between block boundaries) through build_blocks
            set_p0(True)
            _, pa, _ = _impl()
            for cn, where, code in codes:
                if not code:
                    continue
                for _ in range(2 if quick else 6):
                    s = rng.randrange(len(code))
                    seg = code[s:s + rng.choice([5, 12, 30])]
                    p0 = rng.random() < 0.5
                    cases.add("block", "obs_build_blocks %s %s [%s]" % (
                        coq_bool(p0), coq_str("pre"), "; ".join(coq_json(x) for x in seg)),
                        obs_build_blocks(p0, "pre", seg), {"file": os.path.basename(f), "where": where, "start": s})
                    blocks_sampled += 1
                    nontrivial.add(("block", json.dumps(seg, sort_keys=True)))
        dist["shipped_documents"] = {"files": len(files), "items_total": n_items_total,
                                     "segments_through_model": blocks_sampled}

        # every distinct item shape of the shipped documents, through the item model
        seen_items = {}
        for f in files:
            with open(f) as fh:
                doc = json.load(fh)
            for _, _, code in iter_codes(doc):
                for it in code:
                    k = (it["name"], it.get("value"), tuple(sorted(it)))
                    if k not in seen_items:
                        seen_items[k] = it
        item_list = list(seen_items.values())
        rng.shuffle(item_list)
        item_list = item_list[:(600 if quick else 2500)]
        for it in item_list:
            p0 = rng.random() < 0.5
            st = rng.choice([[], [], ["lib.sol:L0"], ["a", "b"]])
            cases.add("item", "obs_item %s %s [%s]" % (coq_bool(p0), coq_jobj(it), "; ".join(coq_json(x) for x in st)),
                      obs_item(p0, it, st), {"item": it, "p0": p0, "st": st})
            nontrivial.add(("item", json.dumps(it, sort_keys=True), p0))
        dist["shipped_items_distinct_through_model"] = len(item_list)

        # ---- (b) generated documents
        n_docs = 40 if quick else 200
        streams = collections.Counter()
        for i in range(n_docs):
            r = rng.random()
            if r < 0.62:
                stream, doc = "shaped", gen_doc(rng, kinds_doc, noasm=rng.choice(["none", "empty"]))
            elif r < 0.72:
                stream, doc = "shaped-asm-null", gen_doc(rng, kinds_doc, noasm="null")
            elif r < 0.78:
                stream, doc = "shaped-unknown-opcode", gen_doc(rng, kinds_doc, unknown=True)
            else:
                base = gen_doc(rng, kinds_mut, noasm="none")
                doc = mutate_doc(rng, base, kinds_mut)
                stream = "unshaped(mutated)"
                if doc is None:
                    continue
            streams[stream] += 1
            for p0 in (False, True):
                exp = impl_roundtrip_doc(run, p0, doc)
                cases.add("doc", "obs_roundtrip_doc %s %s %s" % (coq_bool(p0), coq_bool(KN[0]), coq_json(doc)), exp,
                          {"stream": stream, "p0": p0, "doc": doc if len(json.dumps(doc)) < 6000 else "large"})
                nontrivial.add(("doc", json.dumps(doc, sort_keys=True), p0))
                if stream.startswith("shaped"):
                    prop_evals["generated-doc"] += 1
                    if exp is None:
                        d = "parse_asm/to_json raised an exception"
                    else:
                        d = first_diff(exp[0], spell(doc, p0))
                    if d is not None:
                        report_doc_failure(run, p0, doc, d, "generated (%s)" % stream)
        dist["generated_documents"] = {"streams": dict(streams), "features_shaped": dict(kinds_doc),
                                       "features_unshaped": dict(kinds_mut)}

        # generated items with pushlib state
        kinds_it = collections.Counter()
        for i in range(150 if quick else 800):
            it = gen_item(rng, {}, kinds_it)
            if rng.random() < 0.25:
                it.pop(rng.choice(list(it)), None)
            if rng.random() < 0.1:
                it[rng.choice(["value", "jumpType", "modifierDepth", "source"])] = rng.choice([None, 3, "x"])
            if not isinstance(it.get("name", ""), str):
                continue
            st = rng.choice([[], ["lib.sol:L0"], ["lib.sol:L1", "lib.sol:L0"], [None, "q"]])
            p0 = rng.random() < 0.5
            cases.add("item", "obs_item %s %s [%s]" % (coq_bool(p0), coq_jobj(it), "; ".join(coq_json(x) for x in st)),
                      obs_item(p0, it, st), {"item": it, "p0": p0, "st": st})
            nontrivial.add(("item", json.dumps(it, sort_keys=True), p0))

        # ---- opcode table
        _, _, opcodes = _impl()
        names = sorted(opcodes.opcodes.keys()) + ["SELFDESTRUCT", "RETURNDATASIZE", "RETURNDATACOPY", "PUSH0",
                                                  "PUSH1", "PUSH33", "PUSHX", "tag", "tagx", "JUMPDEST", "DUP1", "DUP16",
                                                  "DUP17", "DUP0", "DUP01", "SWAP1", "SWAP16", "SWAP17", "SWAP0",
                                                  "TLOAD", "TSTORE", "BLOBHASH", "BLOBBASEFEE", "FOO", "", "add",
                                                  "[in]", "DUP", "SWAP", "PUS", "ta"]
        exp_known = []
        for nme in names:
            if nme in ("tag", "JUMPDEST", "JUMP", "JUMPI", "STOP", "RETURN", "REVERT", "INVALID", "SELFDESTRUCT"):
                exp_known.append(True)
                continue
            try:
                opcodes.get_opcode(nme)
                exp_known.append(True)
            except ValueError:
                exp_known.append(False)
        cases.add("opcodes", "JArr (map JBool (obs_known [%s]))" % "; ".join(coq_str(x) for x in names),
                  exp_known, {"names": len(names)})
        dist["opcode_names"] = {"checked": len(names), "known": sum(exp_known)}

        # ---- (c) text: canonical blocks, spellings, malformed
        n_txt = 150 if quick else 700
        rt_fail = 0
        for i in range(n_txt):
            p0 = rng.random() < 0.5
            t = gen_canonical_text(rng, kinds_txt, p0)
            cases.add("text-asm", "obs_plain_to_asm %s" % coq_str(t), obs_plain_to_asm(t), {"text": t})
            cases.add("text-rt", "obs_plain_roundtrip %s %s" % (coq_bool(p0), coq_str(t)),
                      obs_plain_roundtrip(p0, t), {"text": t, "p0": p0})
            nontrivial.add(("text", t, p0))
            nb, fails = text_property(p0, t)
            prop_evals["text-roundtrip"] += nb
            for tt, why in fails:
                rt_fail += 1
                run.report(key={"kind": "plain-roundtrip", "function": "parse_blocks_from_plain_instructions/to_plain",
                                "shape": why.split(":")[0]},
                           what="parse_plain(to_plain(b)) != b for a canonical tag-free block: %r %s" % (tt, why[:150]),
                           replay={"kind": "text", "push0": p0, "text": t, "command": "./check C15 --replay <this file>"})
        consts = list(BOUNDARY) + [rand_const(rng) for _ in range(6 if quick else 40)]
        sp_kinds = collections.Counter()
        for c in consts:
            for t, kind in spellings(c):
                for p0 in ((False, True) if (c == 0 or rng.random() < 0.3) else (rng.random() < 0.5,)):
                    v = spelling_value(p0, t)
                    prop_evals["spelling"] += 1
                    sp_kinds[kind] += 1
                    if v != c:
                        run.report(key={"kind": "const-value", "function": "plain_instructions_to_asm_representation",
                                        "shape": kind},
                                   what="spelling %r of %d is read as %r (push0=%s)" % (t, c, v, p0),
                                   replay={"kind": "spelling", "push0": p0, "text": t, "constant": c,
                                           "command": "./check C15 --replay <this file>"})
                    cases.add("text", "obs_parse_plain %s %s" % (coq_bool(p0), coq_str(t)), obs_parse_plain(p0, t),
                              {"text": t, "p0": p0, "constant": c})
                    nontrivial.add(("text", t, p0))
        n_mal = max(15, n_txt // 9)
        out_of_model = 0
        for i in range(n_mal):
            t = gen_malformed_text(rng, kinds_mal)
            if not set(t) <= MODEL_ALPHA:
                out_of_model += 1
                continue
            p0 = rng.random() < 0.5
            cases.add("text-asm", "obs_plain_to_asm %s" % coq_str(t), obs_plain_to_asm(t), {"text": t, "malformed": True})
            cases.add("text", "obs_parse_plain %s %s" % (coq_bool(p0), coq_str(t)), obs_parse_plain(p0, t),
                      {"text": t, "p0": p0, "malformed": True})
            nontrivial.add(("text", t, p0))
        # the shipped plain blocks
        for f in sorted(glob.glob(os.path.join(common.REPO, "examples/blocks/*.txt"))):
            with open(f) as fh:
                t = fh.read()
            for p0 in (False, True):
                cases.add("text", "obs_parse_plain %s %s" % (coq_bool(p0), coq_str(t)), obs_parse_plain(p0, t),
                          {"file": os.path.basename(f), "p0": p0})
                cases.add("text-rt", "obs_plain_roundtrip %s %s" % (coq_bool(p0), coq_str(t)),
                          obs_plain_roundtrip(p0, t), {"file": os.path.basename(f), "p0": p0})
        dist["text"] = {"canonical_blocks": n_txt, "canonical_features": dict(kinds_txt),
                        "constants": len(consts), "spelling_kinds": dict(sp_kinds),
                        "malformed_stream": {"texts": n_mal, "kinds": dict(kinds_mal), "outside_model_alphabet": out_of_model}}

        # ---- refutation witnesses of Props/C15.v still reproduce on the implementation
        wit = check_witnesses(run)
        dist["refutation_witnesses"] = wit

        # ---- run the model
        run.log("evaluating %d cases in Coq (vm_compute)" % len(cases.cases))
        total, bad = cases.evaluate()
        n_eval += total
        by_kind = collections.Counter(c[0] for c in cases.cases)
        dist["model_cases_by_kind"] = dict(by_kind)
        for b in bad[:12]:
            if b[0] != "disagree":
                run.report(key={"kind": "correspondence", "level": "coq", "shape": b[0]},
                           what="cases file %s did not evaluate: %s" % (b[1], b[2][-300:]),
                           replay={"theorem": "correspondence Model/Asm.v <-> sfs_generator (cases file failed)",
                                   "file": b[1], "output": b[2]}, found_input=False)
                continue
            _, kind, meta, case = b
            mv = cases.model_value(case)
            # failing-input search: the disagreeing input evaluated against the property predicate
            witness = search_failing_input(run, kind, meta)
            if witness is not None:
                run.report(key={"kind": "correspondence+property", "level": kind, "shape": witness["why"].split(":")[0][:60]},
                           what="model and implementation disagree (%s) and the input violates the property: %s"
                                % (kind, witness["why"][:200]),
                           replay=dict(witness, model_says=mv, command="./check C15 --replay <this file>"),
                           found_input=True)
                continue
            run.report(key={"kind": "correspondence", "level": kind},
                       what="model and implementation disagree (%s): %s" % (kind, json.dumps(meta, default=str)[:200]),
                       replay={"kind": "correspondence", "level": kind, "meta": meta, "model_says": mv,
                               "implementation_says": case[2][:3000],
                               "theorem": "correspondence Model/Asm.v <-> sfs_generator at level " + kind},
                       found_input=False)
        if not ok:
            pb = run.proof_broken
            run.report(key={"kind": "proof-broken", "stage": pb[0] if pb else "?"},
                       what="proof stage failed: %s" % (str(pb)[:300],),
                       replay={"theorem": "Props/C15.v (%s)" % (pb[0] if pb else "?"), "detail": str(pb)[:3000],
                               "search": "property predicates were evaluated on %d implementation inputs: %s"
                                         % (sum(prop_evals.values()), dict(prop_evals))},
                       found_input=False)
        run.cov["evaluations"] = n_eval + sum(prop_evals.values())
        run.cov["distinct_nontrivial"] = len(nontrivial)
        run.cov["model_cases"] = n_eval
        run.cov["property_evaluations_on_implementation"] = dict(prop_evals)
        run.cov["rule"] = ("model cases: one per (input, push0) where input is an item dict+pushlib dict, a run of items, "
                           "a whole document, or a text; distinct by canonical JSON of the input; all are non-trivial "
                           "(non-empty input). Property evaluations: to_json(parse(D)) vs D for every shipped/generated "
                           "shaped document and both push0 settings; parse(to_plain(b)) vs b per block; value per spelling.")
        run.cov["distribution"] = dist
        run.cov["trusted_base"] += ["hand-written model coq/Model/Asm.v tied by the correspondence cases of this run",
                                    "harness/c15.py (generators, observation of the Python objects, Coq term printer)",
                                    "json.load/json.dump of CPython (documents enter the model after json.load)"]
        for c in cases.cases[:2] + cases.cases[len(cases.cases) // 2:len(cases.cases) // 2 + 2]:
            run.add_sample({"kind": c[0], "model_expr": c[1][:300], "expected": c[2][:300]})
    finally:
        shutil.rmtree(scratch(run), ignore_errors=True)


def search_failing_input(run, kind, meta):
    """Evaluate the property on the input of a disagreeing correspondence case.  Returns a replay
    dict (kind doc/text) when the implementation violates the property on it, else None."""
    try:
        if kind == "item" and isinstance(meta.get("item"), dict):
            it = meta["item"]
            if not all(k in it for k in ("begin", "end", "name", "source")):
                return None          # not a solc-shaped item: no claim
            doc = {"contracts": {"c.sol:C": {"asm": {".code": [it], ".data": {}}}}, "version": "v"}
            d = doc_property(run, meta["p0"], doc)
            return None if d is None else {"kind": "doc", "push0": meta["p0"], "document": doc, "why": d}
        if kind == "doc" and isinstance(meta.get("doc"), dict) and str(meta.get("stream", "")).startswith("shaped"):
            d = doc_property(run, meta["p0"], meta["doc"])
            return None if d is None else {"kind": "doc", "push0": meta["p0"], "document": meta["doc"], "why": d}
        if kind in ("text", "text-rt", "text-asm") and "text" in meta and not meta.get("malformed"):
            p0 = meta.get("p0", False)
            if "constant" in meta:
                v = spelling_value(p0, meta["text"])
                if v != meta["constant"]:
                    return {"kind": "spelling", "push0": p0, "text": meta["text"], "constant": meta["constant"],
                            "why": "spelling read as %r" % (v,)}
                return None
            nb, fails = text_property(p0, meta["text"])
            if fails and "corpus" not in meta:
                return {"kind": "text", "push0": p0, "text": meta["text"], "why": "plain round trip: %s" % (fails[0][1],)}
    except EXC:
        return None
    return None


# --------------------------------------------------------------------------
# refutation witnesses (Props/C15.v *_refuted): replay on the implementation

WITNESSES = [
    # (id, kind, payload, what must be observed on the implementation)
    ("json_roundtrip_refuted_missing_source", "doc-item", {"begin": 1, "end": 2, "name": "ADD"}, "differs"),
    ("json_roundtrip_refuted_null_asm", "doc", {"contracts": {"I.sol:I": {"asm": None}}, "version": "v"}, "differs"),
    ("plain_roundtrip_refuted_tag", "text", "tag 1 JUMPDEST", "differs"),
    ("plain_roundtrip_refuted_leading_zero", "text", "PUSH1 0x00", "differs"),
    ("plain_roundtrip_refuted_uppercase", "text", "PUSH1 0xFF", "differs"),
    ("const_value_refuted_bare_hex_after_pushn", "spelling", ("PUSH1 10", 16), "differs"),
    ("const_value_refuted_decimal_after_push", "spelling", ("PUSH 10", 10), "differs"),
]


def check_witnesses(run):
    res = {}
    for wid, kind, payload, expect in WITNESSES:
        if kind == "doc-item":
            doc = {"contracts": {"c.sol:C": {"asm": {".code": [payload], ".data": {}}}}, "version": "v"}
            got = "differs" if doc_property(run, False, doc) is not None else "roundtrip"
        elif kind == "doc":
            got = "differs" if doc_property(run, False, payload) is not None else "roundtrip"
        elif kind == "text":
            nb, fails = text_property(False, payload)
            got = "differs" if fails else "roundtrip"
        else:
            t, c = payload
            got = "differs" if spelling_value(False, t) != c else "same"
        res[wid] = got
        if got != expect:
            run.notes.append("witness %s no longer reproduces on the implementation (%s): the _refuted theorem "
                             "describes code that has changed" % (wid, got))
    return res


# --------------------------------------------------------------------------

def replay(run, path):
    with open(path) as fh:
        r = json.load(fh)
    rp = r.get("replay", r)
    kind = rp.get("kind")
    try:
        if kind == "doc":
            if rp.get("document") is None:
                print("replay: document too large to store; origin:", rp.get("origin"))
                return 2
            rc = 0
            for p0 in ([rp["push0"]] if "push0" in rp else [False, True]):
                d = doc_property(run, p0, rp["document"])
                print("to_json(parse(D)) vs D (push0=%s):" % p0, "EQUAL" if d is None else "DIFFERS at " + d)
                rc = rc or (0 if d is None else 1)
            return rc
        if kind == "text":
            nb, fails = text_property(rp.get("push0", False), rp["text"])
            print("parse_plain(to_plain(b)) vs b on %d block(s):" % nb, "EQUAL" if not fails else "DIFFERS %s" % fails)
            return 0 if not fails else 1
        if kind == "spelling":
            v = spelling_value(rp["push0"], rp["text"])
            print("value of %r: %r expected %r" % (rp["text"], v, rp["constant"]))
            return 0 if v == rp["constant"] else 1
        print("replay names a proof/correspondence obligation:", rp.get("theorem"))
        return 1
    finally:
        shutil.rmtree(scratch(run), ignore_errors=True)
