"""C16: the numeric bounds published in a specification are valid.

Proof part: Props/C16.v -- the occurrence-counting lower bound (`minsize`, the model of
count_sms_greedy.minsize_from_json = "min_length_instrs") is a lower bound on the length of every
realizing sequence (Model/MinSizeProofs.v).
Tie / witnesses, per specification S of a (sub-)block:
  * model correspondence: Coq's `minsize S` == Python's min_length_instrs;
  * feasibility: a witness q with `check_bounded S q init_progr_len max_sk_sz = None` (Coq decides)
    is looked for among: the greedy's answer, the sub-block's own instructions mapped to ids, and a
    breadth-first search; "infeasible" is reported only with a certificate: either
    minsize S > init_progr_len (then the theorem excludes every realizing sequence) or the search
    exhausted the whole bounded state space; everything else counts as "unknown";
  * min_length <= |q| for every realizing q found;
  * original_instrs == the instructions of the sub-block (ir_block's sub_block_list, and the
    sub-blocks re-assemble to the block text).
"""
import collections
import json
import os
import random
import re
import time

from harness import common, gasol, sfs2coq
from harness import c04

PID = "C16"


# ---------------------------------------------------------------------------------------------
# candidate witnesses

def orig_to_ids(sfs):
    """The sub-block's own instructions as ids of the specification, by symbolic execution over
    the specification's values.  None when an instruction has no counterpart (a rule rewrote it)."""
    from sfs_generator.parser_asm import plain_instructions_to_asm_representation
    try:
        ops = plain_instructions_to_asm_representation(sfs["original_instrs"])
    except Exception:  # noqa
        return None
    stk = list(sfs["src_ws"])
    ids = []
    instrs = sfs["user_instrs"]
    consts = set()
    for u in instrs:
        consts.update(x for x in u["inpt_sk"] if c04._isint(x))
    consts.update(x for x in sfs["tgt_ws"] if c04._isint(x))
    for op in ops:
        name = op["name"]
        if name == "POP":
            if not stk:
                return None
            stk = stk[1:]
            ids.append("POP")
        elif re.fullmatch(r"DUP\d+", name):
            k = int(name[3:])
            if len(stk) < k:
                return None
            stk = [stk[k - 1]] + stk
            ids.append(name)
        elif re.fullmatch(r"SWAP\d+", name):
            k = int(name[4:])
            if len(stk) < k + 1:
                return None
            stk = [stk[k]] + stk[1:k] + [stk[0]] + stk[k + 1:]
            ids.append(name)
        elif name == "PUSH" and "value" in op:
            try:
                v = int(str(op["value"]), 16)
            except ValueError:
                return None
            for u in instrs:
                if u.get("push") and u.get("value") == [v] and u["disasm"] in ("PUSH", "PUSH0"):
                    ids.append(u["id"])
                    stk = list(u["outpt_sk"]) + stk
                    break
            else:
                if v in consts:
                    h = hex(v)[2:]
                    ids.append("PUSH%d 0x%s" % ((len(h) + 1) // 2, h))
                    stk = [v] + stk
                else:
                    return None
        else:
            for u in instrs:
                if u["disasm"] != name or ("value" in op and [str(op["value"])] != [str(x) for x in u.get("value", [])]):
                    continue
                n = len(u["inpt_sk"])
                args = stk[:n]
                if len(stk) >= n and (args == list(u["inpt_sk"]) or
                                      (u.get("commutative") and n == 2 and args == list(u["inpt_sk"])[::-1])):
                    ids.append(u["id"])
                    stk = list(u["outpt_sk"]) + stk[n:]
                    break
            else:
                return None
    return ids


def search_witness(sfs, L, SK, budget):
    """Breadth-first search over (stack, set of occurred constrained ids).
    Returns (ids or None, complete?).  complete=True and ids=None: no realizing sequence of
    length <= L with stack height <= SK exists (the whole bounded space was visited)."""
    instrs = sfs["user_instrs"]
    deps = sfs.get("dependencies")
    if deps is None:
        deps = list(sfs.get("storage_dependences", [])) + list(sfs.get("memory_dependences", []))
    deps = [tuple(d) for d in deps]
    constrained = set(u["id"] for u in instrs if u.get("storage"))
    for a, b in deps:
        constrained.add(a)
        constrained.add(b)
    stores = frozenset(u["id"] for u in instrs if u.get("storage"))
    consts = set()
    for u in instrs:
        consts.update(x for x in u["inpt_sk"] if c04._isint(x))
    consts.update(x for x in sfs["tgt_ws"] if c04._isint(x))
    target = tuple(sfs["tgt_ws"])
    start = (tuple(sfs["src_ws"]), frozenset())
    if len(start[0]) > SK:
        return None, True
    parent = {start: None}
    frontier = [start]

    def done(st):
        return st[0] == target and stores <= st[1]
    if done(start):
        return [], True
    for depth in range(L):
        nxt = []
        for st in frontier:
            stk, occ = st
            n = len(stk)
            moves = []
            if n:
                moves.append(("POP", stk[1:], occ))
            if n + 1 <= SK:
                for k in range(1, min(16, n) + 1):
                    moves.append(("DUP%d" % k, (stk[k - 1],) + stk, occ))
                for cst in consts:
                    h = hex(cst)[2:]
                    moves.append(("PUSH%d 0x%s" % ((len(h) + 1) // 2, h), (cst,) + stk, occ))
            for k in range(1, min(16, n - 1) + 1):
                if stk[0] != stk[k]:
                    moves.append(("SWAP%d" % k, (stk[k],) + stk[1:k] + (stk[0],) + stk[k + 1:], occ))
            for u in instrs:
                m = len(u["inpt_sk"])
                if n < m:
                    continue
                args = list(stk[:m])
                if not (args == list(u["inpt_sk"]) or (u.get("commutative") and m == 2 and args == list(u["inpt_sk"])[::-1])):
                    continue
                uid = u["id"]
                if u.get("storage") and uid in occ:
                    continue
                if any(a == uid and b in occ for a, b in deps):
                    continue
                if n - m + len(u["outpt_sk"]) > SK:
                    continue
                occ2 = occ | {uid} if uid in constrained else occ
                moves.append((uid, tuple(u["outpt_sk"]) + stk[m:], occ2))
            for mv, stk2, occ2 in moves:
                st2 = (stk2, occ2)
                if st2 in parent:
                    continue
                parent[st2] = (st, mv)
                if done(st2):
                    out = []
                    cur = st2
                    while parent[cur] is not None:
                        cur, m2 = parent[cur][0], parent[cur][1]
                        out.append(m2)
                    return out[::-1], True
                nxt.append(st2)
                if len(parent) > budget:
                    return None, False
        frontier = nxt
        if not frontier:
            break
    return None, True


def _short_worker(state, job):
    sfs, L, SK, budget = job
    ids, complete = search_witness(sfs, L, SK, budget)
    return {"ids": ids, "complete": complete}


def _search_worker(state, job):
    sfs, L, SK, budget = job
    ids, complete = search_witness(sfs, L, SK, budget)
    culprit = None
    if ids is None and complete:
        # attribute: is it the length bound or the stack bound?
        ids2, c2 = search_witness(sfs, L, SK + 40, budget)
        if ids2 is not None:
            culprit = "max_sk_sz"
        elif c2:
            culprit = "init_progr_len"
    return {"ids": ids, "complete": complete, "culprit": culprit}


# ---------------------------------------------------------------------------------------------
# Coq evaluation

HEADER = sfs2coq.HEADER + "From GV Require Import Model.MinSize.\n"


def coq_eval(prefix, jobs, timeout=900):
    """jobs: list of {'sfs', 'witness': ids|None, 'len', 'sk', 'others': {label: ids}}.
    Returns per job: {'minsize': int|None, 'ms_wf': bool, 'witness': verdict, 'witness_len': n,
    'others': {label: (verdict, seq_len)}, 'tables'} or {'format_error'}."""
    res = [None] * len(jobs)
    files, per = [], 120
    for f0 in range(0, len(jobs), per):
        body = [HEADER]
        any_case = False
        for k in range(f0, min(f0 + per, len(jobs))):
            j = jobs[k]
            try:
                st, t = sfs2coq.spec_term(j["sfs"])
                seqs = {}
                if j.get("witness") is not None:
                    seqs["w"] = sfs2coq.ids_term(j["witness"], t)
                for lab, ids in j.get("others", {}).items():
                    seqs[lab] = sfs2coq.ids_term(ids, t)
            except (sfs2coq.SfsFormatError, KeyError, TypeError, ValueError) as e:
                res[k] = {"format_error": "%s: %s" % (type(e).__name__, e)}
                continue
            res[k] = {"tables": t, "others": {}}
            body.append("Definition S%d : spec := %s." % (k, st))
            body.append('Eval vm_compute in (%d%%nat, "ms", minsize S%d, ms_wf_spec S%d, wf_spec S%d).' % (k, k, k, k))
            for lab, txt in seqs.items():
                body.append("Definition q%d%s : list step := %s." % (k, lab, txt))
                if lab == "w":
                    body.append('Eval vm_compute in (%d%%nat, "w", check_bounded S%d q%dw %d %d, seq_len q%dw).' %
                                (k, k, k, max(0, int(j["len"])), max(0, int(j["sk"])), k))
                else:
                    body.append('Eval vm_compute in (%d%%nat, "%s", check S%d q%d%s, seq_len q%d%s).' %
                                (k, lab, k, k, lab, k, lab))
            any_case = True
        if any_case:
            files.append(("%s_%d" % (prefix, f0 // per), "\n".join(body) + "\n"))
    out = c04.run_case_files(files, timeout=timeout) if files else {}
    broken = []
    for name, (ok, txt) in sorted(out.items()):
        if not ok:
            broken.append((name, txt[-1500:]))
            continue
        for val in c04.parse_evals(txt):
            m = re.match(r'\((\d+), "(\w+)", (.*)\)$', val, re.S)
            if not m:
                continue
            k, lab, rest = int(m.group(1)), m.group(2), m.group(3).strip()
            if lab == "ms":
                mm = re.match(r"(None|Some (\d+)), (true|false), (true|false)$", rest)
                if mm:
                    res[k]["minsize"] = int(mm.group(2)) if mm.group(2) is not None else None
                    res[k]["ms_wf"] = mm.group(3) == "true"
                    res[k]["wf"] = mm.group(4) == "true"
                    res[k]["evaluated"] = True
            else:
                mm = re.match(r"(None|Some \(\d+, E\w+(?: \d+)*\)), (\d+)$", rest)
                if mm:
                    v = (sfs2coq.parse_verdict(mm.group(1)), int(mm.group(2)))
                    if lab == "w":
                        res[k]["witness"] = v
                    else:
                        res[k]["others"][lab] = v
    return res, broken


# ---------------------------------------------------------------------------------------------

def sub_block_expected(case):
    """Instructions of the sub-block this specification was derived from, per ir_block's
    sub_block_list (split instructions are shared between neighbours and are not optimized)."""
    from sfs_generator.utils import process_blocks_split
    subl = case["sub_block_list"]
    if subl is None:
        return None
    m = re.search(r"_(\d+)$", case["name"])
    if not m:
        return None
    k = int(m.group(1))
    parts = process_blocks_split(subl)
    if k >= len(parts):
        return None
    return " ".join(parts[k])


def reassembled(case):
    """sub_block_list glued back together (shared split instructions once)."""
    subl = case["sub_block_list"]
    out = []
    for i, p in enumerate(subl):
        out += p if i == 0 else p[1:]
    return out


def same_instructions(a, b):
    """Equal instruction lists; ir_block drops the operand of a split instruction
    (ASSIGNIMMUTABLE 156 -> ASSIGNIMMUTABLE), which is not part of any optimized sub-block."""
    import global_params.constants as constants
    if len(a) != len(b):
        return False
    for x, y in zip(a, b):
        if x != y and not (x.split(" ")[0] == y.split(" ")[0] and x.split(" ")[0] in constants.split_block):
            return False
    return True


def check(run):
    rng = random.Random(run.seed + 16)
    c04.preload()
    ok = common.proof_stage(run, "Props/C16.v")
    if not ok:
        run.report({"kind": "proof-broken", "what": str(run.proof_broken)[:200]},
                   "the proof of the min_length lower bound no longer checks: %s" % (str(run.proof_broken)[:300]),
                   {"theorem": "Props/C16.v", "detail": str(run.proof_broken)[:2000],
                    "cmd": "cd /verif/coq && make Props/C16.vo"}, found_input=False)
    thorough = run.tier == "thorough"
    nblocks = 400 if thorough else 120
    nhand = 1500 if thorough else 400
    budget = 400000 if thorough else 60000
    option_sets = c04.OPTION_SETS + (c04.EXTRA_OPTION_SETS if thorough else [])
    contracts = c04.CONTRACTS_THOROUGH[:2] if thorough else c04.CONTRACT_QUICK
    t0 = time.time()
    fe, st1 = c04.collect_frontend(run, rng, nblocks, option_sets, contracts, pid=PID,
                                   contract_option_sets=c04.OPTION_SETS[:4] if thorough else [c04.OPTION_SETS[0], c04.OPTION_SETS[1], c04.OPTION_SETS[3]])
    run.log("front end: %d specifications from %d block runs (%.0fs) %s" %
            (len(fe), st1["blocks"], time.time() - t0, st1["frontend_status"]))
    hb, st2 = c04.collect_hand(run, rng, nhand)
    run.log("hand-built specifications: %d %s" % (len(hb), st2["hand_status"]))
    # distinct specifications
    seen, cases = set(), []
    for c in fe + hb:
        k = c04.spec_key(c["sfs"]) + "|" + str(c["origin"] == "hand")
        if k in seen:
            continue
        seen.add(k)
        cases.append(c)
    stats = collections.Counter()
    # ---- original_instrs
    for c in cases:
        if c["origin"] == "hand":
            continue
        exp = sub_block_expected(c)
        stats["original_instrs_compared"] += 1
        got = c["sfs"].get("original_instrs")
        if exp is None or got != exp:
            run.report({"check": "original_instrs"},
                       "original_instrs of %s is %r but the sub-block is %r" % (c["name"], got, exp),
                       {"kind": "block", "block": c["block"], "opts": c["opts"], "name": c["name"],
                        "original_instrs": got, "sub_block": exp, "cmd": "cd /verif && ./check C16 --replay <this file>"})
        if c["sub_index"] == 0 and c.get("to_optimize") is not None:
            stats["reassembly_compared"] += 1
            if not same_instructions(reassembled(c), c["to_optimize"]):
                run.report({"check": "sub_block_partition"},
                           "the sub-blocks do not re-assemble to the block's instructions",
                           {"kind": "block", "block": c["block"], "opts": c["opts"],
                            "sub_block_list": c["sub_block_list"], "instructions": c["to_optimize"]})
    # ---- candidate witnesses (Python side), then Coq decides
    t0 = time.time()
    search_jobs, search_idx = [], []
    for i, c in enumerate(cases):
        s = c["sfs"]
        c["cands"] = {}
        g = c["greedy"]
        if g["err"] == 0 and g["ids"] is not None:
            c["cands"]["g"] = g["ids"]
        if c["origin"] == "hand":
            continue
        o = orig_to_ids(s)
        if o is not None:
            c["cands"]["o"] = o
        L, SK = s["init_progr_len"], s["max_sk_sz"]
        c["witness"], c["witness_src"] = None, None
        for lab in ("o", "g"):
            q = c["cands"].get(lab)
            if q is not None and c04.sym_check(s, q, L, SK) is None:
                c["witness"], c["witness_src"] = q, {"o": "original", "g": "greedy"}[lab]
                break
        if c["witness"] is None:
            if L <= (14 if thorough else 10) and len(s["user_instrs"]) <= 14:
                search_jobs.append((s, L, SK, budget))
                search_idx.append(i)
            else:
                c["search"] = {"ids": None, "complete": False, "culprit": None, "skipped": True}
    rs = gasol.pmap(_search_worker, search_jobs, timeout=60 if thorough else 25, mem_gb=6)
    for i, (status, val) in zip(search_idx, rs):
        c = cases[i]
        if status == "ok":
            c["search"] = val
            if val["ids"] is not None:
                c["witness"], c["witness_src"] = val["ids"], "search"
        else:
            c["search"] = {"ids": None, "complete": False, "culprit": None, "status": status}
    run.log("witness candidates: %d searches (%.0fs)" % (len(search_jobs), time.time() - t0))
    # ---- a realizing sequence SHORTER than the published min_length?  Only the bounds component can be wrong (the
    # occurrence count minsize is a proved lower bound), so the search runs where it decides min_length.
    t0 = time.time()
    short_jobs, short_idx = [], []
    for i, c in enumerate(cases):
        s = c["sfs"]
        ml = s.get("min_length")
        if c["origin"] == "hand" or ml is None or not (s.get("min_length_bounds", 0) > s.get("min_length_instrs", 0)):
            continue
        if 1 <= ml <= (8 if thorough else 7) and len(s["user_instrs"]) <= 10:
            short_jobs.append((s, ml - 1, s["max_sk_sz"], budget))
            short_idx.append(i)
    rs = gasol.pmap(_short_worker, short_jobs, timeout=60 if thorough else 25, mem_gb=6)
    nshort = 0
    for i, (status, val) in zip(short_idx, rs):
        if status == "ok" and val.get("ids") is not None:
            cases[i]["cands"]["s"] = val["ids"]
            nshort += 1
    run.log("shorter-than-min_length searches: %d (found %d) (%.0fs)" % (len(short_jobs), nshort, time.time() - t0))
    # ---- Coq
    jobs = []
    for c in cases:
        s = c["sfs"]
        others = {lab: q for lab, q in c["cands"].items()}
        jobs.append({"sfs": s, "witness": c.get("witness"), "len": s["init_progr_len"], "sk": s["max_sk_sz"],
                     "others": others})
    t0 = time.time()
    res, broken = coq_eval("c16", jobs)
    run.log("Coq evaluated %d specifications (%.0fs)" % (len(jobs), time.time() - t0))
    for name, txt in broken:
        run.report({"kind": "cases-broken", "file": name}, "cases file %s did not evaluate: %s" % (name, txt[-300:]),
                   {"file": name, "output": txt}, found_input=False)
    dist = {"witness_source": collections.Counter(), "bounds": collections.Counter(),
            "min_length_component": collections.Counter(), "rules_applied": collections.Counter(),
            "ms_wf": collections.Counter(), "slack_init_len_minus_witness": collections.Counter()}
    nontrivial = 0
    for c, r in zip(cases, res):
        s = c["sfs"]
        hand = c["origin"] == "hand"
        if r is None or "format_error" in r or not r.get("evaluated"):
            stats["not_evaluated"] += 1
            if r is not None and "format_error" in r:
                run.report({"check": "format"}, "specification outside the modelled format: %s" % r["format_error"],
                           {"kind": "block", "block": c["block"], "opts": c["opts"], "sfs": s}, found_input=True)
            continue
        stats["evaluated"] += 1
        dist["ms_wf"][str(r["ms_wf"])] += 1
        dist["rules_applied"][str(bool(s.get("rules_applied")))] += 1
        # (a) model correspondence
        py_ms = s.get("min_length_instrs")
        if py_ms is not None:
            stats["minsize_compared"] += 1
            if r["minsize"] != py_ms:
                run.report({"check": "minsize-correspondence"},
                           "model minsize = %s but minsize_from_json = %s" % (r["minsize"], py_ms),
                           {"kind": "spec", "sfs": s, "model": r["minsize"], "python": py_ms}, found_input=True)
        # (b) min_length <= |q| for every realizing q found
        realizing = []
        if r.get("witness") is not None and r["witness"][0] is None:
            realizing.append(("witness:" + str(c.get("witness_src")), c["witness"], r["witness"][1]))
        for lab, (v, n) in r["others"].items():
            if v is None:
                realizing.append(({"g": "greedy", "o": "original", "s": "search below min_length"}[lab], c["cands"][lab], n))
        ml = s.get("min_length")
        if ml is not None and realizing:
            stats["min_length_compared"] += 1
            comp = "instrs" if s.get("min_length_instrs", 0) >= s.get("min_length_bounds", 0) else "bounds"
            dist["min_length_component"][comp] += 1
            for src, q, n in realizing:
                if ml > n:
                    bad = [x for x in ("min_length_instrs", "min_length_bounds") if s.get(x, 0) > n]
                    run.report({"check": "min_length", "component": "+".join(bad), "ms_wf": r["ms_wf"],
                                "origin": "hand" if hand else "frontend"},
                               "min_length = %d (instrs %s, bounds %s) but a realizing sequence of length %d exists (%s): %s"
                               % (ml, s.get("min_length_instrs"), s.get("min_length_bounds"), n, src, q),
                               {"kind": "spec" if hand else "block", "block": c["block"], "opts": c["opts"],
                                "name": c["name"], "sfs": s, "sequence": q, "length": n,
                                "cmd": "cd /verif && ./check C16 --replay <this file>"}, found_input=True)
                    break
        if hand:
            continue
        # (c) feasibility of (init_progr_len, max_sk_sz)
        L, SK = s["init_progr_len"], s["max_sk_sz"]
        if r.get("witness") is not None and r["witness"][0] is None:
            dist["witness_source"][c["witness_src"]] += 1
            dist["bounds"]["feasible"] += 1
            dist["slack_init_len_minus_witness"][c04.bucket(L - r["witness"][1], (0, 1, 2, 4, 8))] += 1
            if L >= 3:
                nontrivial += 1
            continue
        if r.get("witness") is not None:      # the mirror accepted what Coq rejects: harness bug
            run.report({"check": "mirror"}, "the Python mirror accepted a witness Coq rejects: %s" % (r["witness"],),
                       {"kind": "spec", "sfs": s, "witness": c["witness"]}, found_input=False)
            continue
        cert = None
        if r["minsize"] is not None and r["ms_wf"] and r["minsize"] > L:
            cert = "minsize>init_progr_len"
            culprit = "init_progr_len"
        elif c.get("search", {}).get("complete") and c["search"].get("culprit"):
            cert = "exhaustive-search"
            culprit = c["search"]["culprit"]
        if cert is None:
            dist["bounds"]["unknown"] += 1
            continue
        dist["bounds"]["infeasible:" + culprit] += 1
        present = set(i["disasm"] for i in s["user_instrs"])
        dropped3 = any(op in ("ADDMOD", "MULMOD") and op not in present
                       for op in str(s.get("original_instrs", "")).split())
        rules = [str(x) for x in (s.get("rules") or [])]
        rule_class = "none" if not rules else ("fold-only" if all(x.startswith("EVAL") for x in rules) else "rewrite")
        key = {"check": "bounds_feasible", "bound": culprit, "rules_applied": bool(s.get("rules_applied")),
               "dead_3ary_dropped": dropped3, "rule_class": rule_class}
        what = ("no sequence realizes the specification within init_progr_len=%d, max_sk_sz=%d (%s; min_length_instrs=%s); "
                "block %r opts %s rules %s" % (L, SK, cert, s.get("min_length_instrs"), s.get("original_instrs"),
                                               c["opts"], s.get("rules")))
        run.report(key, what,
                   {"kind": "block", "block": c["block"], "opts": c["opts"], "name": c["name"], "sfs": s,
                    "certificate": cert, "minsize_model": r["minsize"],
                    "cmd": "cd /verif && ./check C16 --replay <this file>"}, found_input=True)
    run.cov["evaluations"] = stats["evaluated"]
    run.cov["distinct_nontrivial"] = nontrivial
    run.cov["rule"] = ("one evaluation = one distinct specification (canonical JSON) on which Coq computed minsize, the "
                       "shape conditions and the verdicts of the candidate sequences; non-trivial = front-end "
                       "specification with init_progr_len >= 3 for which Coq accepted a witness within both bounds")
    d = c04.describe(cases)
    for k, v in dist.items():
        d[k] = dict(v)
    d["stats"] = dict(stats)
    d["frontend_status"] = st1["frontend_status"]
    run.cov["distribution"] = d
    for c in cases[:4]:
        run.add_sample({"block": c["block"], "opts": c["opts"], "init_progr_len": c["sfs"]["init_progr_len"],
                        "max_sk_sz": c["sfs"]["max_sk_sz"], "min_length": c["sfs"].get("min_length"),
                        "witness_src": c.get("witness_src"), "witness": c.get("witness")})
    run.log("bounds: %s; witness sources: %s; stats: %s" % (dict(dist["bounds"]), dict(dist["witness_source"]), dict(stats)))


def replay(run, path):
    with open(path) as fh:
        j = json.load(fh)
    rp = j.get("replay", j)
    c04.preload()
    if rp.get("kind") == "block" and rp.get("block"):
        rs = gasol.pmap(c04._frontend, [("text", rp["block"])], init=c04._init_frontend,
                        initargs=(tuple(rp.get("opts", [])),), timeout=60)
        status, val = rs[0]
        if status != "ok":
            print("front end:", status, val)
            return 2
        rc = 0
        for sub in val["subs"]:
            s = sub["sfs"]
            if rp.get("name") and sub["name"] != rp["name"]:
                continue
            print("sub-block %s: original_instrs=%r" % (sub["name"], s["original_instrs"]))
            print("  init_progr_len=%s max_progr_len=%s max_sk_sz=%s min_length=%s (instrs %s, bounds %s) rules=%s" %
                  (s["init_progr_len"], s["max_progr_len"], s["max_sk_sz"], s.get("min_length"),
                   s.get("min_length_instrs"), s.get("min_length_bounds"), s.get("rules")))
            print("  src_ws=%s tgt_ws=%s" % (s["src_ws"], s["tgt_ws"]))
            for i in s["user_instrs"]:
                print("   ", i["id"], i["inpt_sk"], "->", i["outpt_sk"])
            case = {"sub_block_list": val["sub_block_list"], "name": sub["name"]}
            exp = sub_block_expected(case)
            if exp != s["original_instrs"]:
                print("  original_instrs differs from the sub-block:", exp)
                rc = 1
            ids, complete = search_witness(s, s["init_progr_len"], s["max_sk_sz"], 500000)
            print("  exhaustive search within the bounds: witness=%s complete=%s" % (ids, complete))
            g = sub["greedy"]
            seqs = {}
            if g["err"] == 0:
                seqs["g"] = g["ids"]
            res, broken = coq_eval("c16r", [{"sfs": s, "witness": ids, "len": s["init_progr_len"],
                                             "sk": s["max_sk_sz"], "others": seqs}])
            r = res[0]
            print("  Coq: minsize=%s ms_wf=%s witness=%s greedy=%s" % (r.get("minsize"), r.get("ms_wf"),
                                                                      r.get("witness"), r.get("others")))
            if ids is None and complete:
                print("  => the published bounds admit no realizing sequence")
                rc = 1
            if r.get("minsize") is not None and r.get("ms_wf") and r["minsize"] > s["init_progr_len"]:
                print("  => minsize %d > init_progr_len %d: infeasible by theorem C16_min_length_lower_bound"
                      % (r["minsize"], s["init_progr_len"]))
                rc = 1
            for lab, (v, n) in r.get("others", {}).items():
                if v is None and s.get("min_length") is not None and s["min_length"] > n:
                    print("  => min_length %d exceeds the length %d of a realizing sequence" % (s["min_length"], n))
                    rc = 1
        return rc
    if rp.get("kind") == "spec" and rp.get("sfs"):
        s = rp["sfs"]
        seqs = {"g": rp["sequence"]} if rp.get("sequence") else {}
        res, broken = coq_eval("c16r", [{"sfs": s, "witness": None, "len": 0, "sk": 0, "others": seqs}])
        r = res[0]
        print("min_length=%s (instrs %s, bounds %s); Coq: minsize=%s ms_wf=%s sequence=%s" %
              (s.get("min_length"), s.get("min_length_instrs"), s.get("min_length_bounds"), r.get("minsize"),
               r.get("ms_wf"), r.get("others")))
        for lab, (v, n) in r.get("others", {}).items():
            if v is None and s.get("min_length") is not None and s["min_length"] > n:
                return 1
        if r.get("minsize") != s.get("min_length_instrs"):
            return 1
        return 0
    print("replay names a broken proof obligation:", rp.get("theorem") or rp.get("file"))
    ok = common.proof_stage(run, "Props/C16.v")
    return 0 if ok else 1
