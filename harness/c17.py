"""C17  Instruction-set restrictions chosen by the user are honoured (PUSH0 switch, contract filter).

Stages:
 1. regenerate Gen/*.v (gen/gen_cost.py), build the cone of Props/C17.v, hygiene, Print Assumptions;
 2. replay of the `_refuted` witnesses on the real Python functions;
 3. differential tie of the generated PUSH0 functions (is_push0, to_plain, build_asm_bytecode's PUSH0 branch,
    id_to_asm_bytecode, generate_push_instruction) against the Python originals under both settings;
 4. real outputs with and without `-push0` (the flag DISABLES PUSH0): emitted blocks scanned for PUSH0
    (item names, plain text), input and output priced by the REFERENCE under the same setting and compared
    with GASOL's figures (shares harness/c08.real_outputs);
 5. whole-file runs of optimize_asm_in_asm_format on the shipped multi-contract json_solc: spelling scan of the
    emitted asm-json, and the contract filter (-c name): the emitted artefact is the selected contract only, equal
    to that contract's part of the unfiltered run; in the tool's internal list every other contract IS the
    parsed input object (correspondence with Model/Cost.v filter_contracts / emit).
"""
import json
import os
import random

from harness import common, gasol
from harness import c08

CORPUS = os.path.join(common.VERIF, "corpus", "C17")


def corpus_texts():
    out = []
    if os.path.isdir(CORPUS):
        for f in sorted(os.listdir(CORPUS)):
            if f.endswith(".json"):
                with open(os.path.join(CORPUS, f)) as fh:
                    out += json.load(fh).get("blocks", [])
    return out


def gen_zero_block(rng):
    """blocks in which zero is pushed, produced by folding, or the result of a rule"""
    parts = []
    for _ in range(rng.randint(1, 4)):
        k = rng.random()
        v = rng.choice([1, 5, 255, 256, 2 ** 256 - 1])
        if k < 0.2:
            parts.append("PUSH0")
        elif k < 0.35:
            parts.append("PUSH 0x0")
        elif k < 0.5:
            parts.append("PUSH 0x%x PUSH 0x%x SUB" % (v, v))
        elif k < 0.6:
            parts.append("PUSH 0x%x PUSH0 MUL" % v)
        elif k < 0.7:
            parts.append("PUSH 0x%x PUSH 0x%x XOR" % (v, v))
        elif k < 0.8:
            parts.append("PUSH 0x%x ISZERO" % v)
        elif k < 0.9:
            parts.append("CALLVALUE PUSH0 AND")
        else:
            parts.append("PUSH0 SLOAD")
        if rng.random() < 0.4:
            parts.append(rng.choice(["ADD", "DUP1", "SWAP1", "MSTORE", "PUSH0 MSTORE", "POP", "CALLER", "GAS", "SSTORE"]))
    txt = " ".join(parts)
    # keep the stack consistent enough for the front end: pad with pushes in front
    return "CALLER CALLVALUE ADDRESS " + txt


# --------------------------------------------------------------------------------------------

def diff_push0(run, rng):
    import global_params.constants as constants
    from sfs_generator.asm_bytecode import AsmBytecode
    from sfs_generator.parser_asm import build_asm_bytecode
    from solution_generation.ids2asm import id_to_asm_bytecode
    import sfs_generator.gasol_optimization as go
    exprs, expect, descr = [], [], []

    def add(coq, exp, d):
        exprs.append("[" + "; ".join(coq) + "]")
        expect.append(list(exp))
        descr.append(d)

    def item_eq(coq_item, b):
        return "ob (String.eqb (i_disasm %s) %s && match i_value %s with Some v => %s | None => %s end)" % (
            coq_item, c08.cq(b.disasm), coq_item,
            "String.eqb v %s" % c08.cq(b.value) if b.value is not None else "false", c08.cb(b.value is None))
    saved = constants.push0_enabled
    try:
        for p0 in (True, False):
            constants._set_push0(p0)
            for name, value in [("PUSH", "0"), ("PUSH", "00"), ("PUSH", "1"), ("PUSH", "ff"), ("PUSH0", None), ("ADD", None),
                                ("PUSH [tag]", "0"), ("PUSH data", "0"), ("tag", "0"), ("JUMP", None), ("PUSHLIB", "0")]:
                ins = {"name": name, "begin": 1, "end": 2, "source": 0}
                if value is not None:
                    ins["value"] = value
                if name == "PUSHLIB":
                    continue
                b = build_asm_bytecode(ins, {})
                add([item_eq("(build_asm_bytecode_item %s %s %s)" % (c08.cb(p0), c08.cq(name), c08.copt_s(value)), b)], [1],
                    ("build_asm_bytecode", p0, name, value))
            uf_cases = [
                ("PUSH0_0", {"disasm": "PUSH0", "value": [0]}), ("PUSH_0", {"disasm": "PUSH", "value": [0]}),
                ("PUSH_1", {"disasm": "PUSH", "value": [255]}), ("PUSH_2", {"disasm": "PUSH", "value": [2 ** 256 - 1]}),
                ("PUSHTAG_0", {"disasm": "PUSH [tag]", "value": [12]}), ("PUSHDATA_0", {"disasm": "PUSH data", "value": [161]}),
                ("PUSHIMMUTABLE_0", {"disasm": "PUSHIMMUTABLE", "value": [171]}), ("ADD_0", {"disasm": "ADD"}),
                ("PUSHSIZE_0", {"disasm": "PUSHSIZE"}), ("PUSH#[$]_0", {"disasm": "PUSH #[$]", "value": [0]}),
            ]
            uf = {k: dict(v, id=k) for k, v in uf_cases}
            cuf = "[" + "; ".join("(%s, mkUInstr %s %s)" % (c08.cq(k), c08.cq(v["disasm"]),
                                                            "(Some [%s])" % "; ".join(c08.cz(x) for x in v["value"]) if "value" in v else "None")
                                  for k, v in uf_cases) + "]"
            for iid in [k for k, _ in uf_cases] + ["DUP1", "SWAP2", "POP", "PUSH0", "NOP_x"]:
                b = id_to_asm_bytecode(uf, iid)
                add([item_eq("(id_to_asm_bytecode %s %s)" % (cuf, c08.cq(iid)), b)], [1], ("id_to_asm_bytecode", p0, iid))
            for v in [0, 1, 255, 256, 2 ** 160, 2 ** 256 - 1]:
                for idx in (0, 3, 12):
                    o = go.generate_push_instruction(idx, v, "s(7)")
                    g = "(generate_push_instruction %s %d %d \"s(7)\")" % (c08.cb(p0), idx, v)
                    add(["ob (String.eqb (o_id %s) %s)" % (g, c08.cq(o["id"])), "ob (String.eqb (o_disasm %s) %s)" % (g, c08.cq(o["disasm"])),
                         "nth0_Z (o_value %s)" % g, "generate_push_instruction_gas %s %d %d \"s(7)\"" % (c08.cb(p0), idx, v),
                         "oz (generate_push_instruction_size %d %d \"s(7)\")" % (idx, v)],
                        [1, 1, o["value"][0] % (2 ** 256) if False else o["value"][0], o["gas"], o["size"]], ("generate_push_instruction", p0, idx, v))
    finally:
        constants._set_push0(saved)
    got = c08.eval_Z_lists("c17_diff", exprs)
    bad = 0
    for g, e, d in zip(got, expect, descr):
        if g != e:
            bad += 1
            run.report({"kind": "generated-model-disagrees", "function": d[0]},
                       "generated Coq definition of %s disagrees with the Python function on %r: model %r, code %r" % (d[0], d[1:], g, e),
                       {"function": d[0], "input": repr(d[1:]), "model": repr(g), "implementation": e}, found_input=True)
    run.log("differential tie (PUSH0 functions): %d case groups, %d disagreements" % (len(exprs), bad))
    return sum(len(e) for e in expect)


def known_witnesses(run):
    """`_refuted` witnesses of Props/C17.v on the implementation"""
    import global_params.constants as constants
    from sfs_generator.asm_bytecode import AsmBytecode
    import sfs_generator.gasol_optimization as go
    from sfs_generator.asm_block import execute_asm
    saved = constants.push0_enabled
    try:
        constants._set_push0(True)
        o = go.generate_push_instruction(0, 0, "s(0)")
        b = AsmBytecode(-1, -1, -1, "PUSH", "0")
        if o["size"] != b.bytes_required:
            run.report({"kind": "sfs-zero-push-size"},
                       "with PUSH0 enabled the SFS prices a zero push at size %d (generate_push_instruction: get_ins_size('PUSH', 0)) while the "
                       "emitted item is %d byte(s)" % (o["size"], b.bytes_required),
                       {"kind": "sfs-size", "how": "python: generate_push_instruction(0,0,'s(0)')['size'] vs AsmBytecode(-1,-1,-1,'PUSH','0').bytes_required"},
                       found_input=True)
        k1 = execute_asm([], AsmBytecode(-1, -1, -1, "PUSH0", None))
        k2 = execute_asm([], AsmBytecode(-1, -1, -1, "PUSH", "0"))
        if k1 != k2:
            run.report({"kind": "accounting-differs-from-reference", "cause": "zero-push-key-spelling"},
                       "execute_asm gives the two spellings of a zero push different symbolic values %r vs %r (keys of the warm/cold bookkeeping)" % (k1, k2),
                       {"kind": "keys", "how": "python: asm_block.execute_asm([], AsmBytecode(-1,-1,-1,'PUSH0',None)) vs (...,'PUSH','0')"},
                       found_input=True)
    finally:
        constants._set_push0(saved)
    return 2


# --------------------------------------------------------------------------------------------
# whole-file runs (in a worker: cwd is private, output files land there)

def _file_params(state, opts, path):
    """params for a whole-file run: gasol.setup_process always passes -bl, which excludes -c on the command line;
    the contract selection is therefore set on the params object (as OptimizationParams.parse_args would)"""
    opts = list(opts)
    sel = None
    if "-c" in opts:
        i = opts.index("-c")
        sel = opts[i + 1]
        del opts[i:i + 2]
    c08._w_config(state, opts)
    p = state["p"]
    p.input_file = path
    p.contract = sel
    return p


def _w_file(state, job):
    import gasol_asm
    import sfs_generator.asm_json as asm_json_mod
    path, opts = job
    p = _file_params(state, opts, path)
    p.optimized_file, p.seqs_file, p.blocks_file, p.log_file = "out.json_solc", "seq.csv", "blocks.csv", "out.log"
    cap = []
    orig = gasol_asm.deepcopy

    def dc(x):
        r = orig(x)
        if isinstance(x, asm_json_mod.AsmJSON):
            cap.append((x, r))
        return r
    gasol_asm.deepcopy = dc
    err = None
    try:
        gasol_asm.init()
        gasol_asm.optimize_asm_in_asm_format(p)
    except BaseException as e:  # noqa
        err = "%s: %s" % (type(e).__name__, str(e)[:200])
    finally:
        gasol_asm.deepcopy = orig
    out = None
    if os.path.exists("out.json_solc"):
        with open("out.json_solc") as fh:
            txt = fh.read()
        out = json.loads(txt) if txt.strip() else None
        os.remove("out.json_solc")
    internal = None
    if cap:
        parsed, _ = cap[-1]
        # the list `contracts` is assigned to the copy after deepcopy: read it from the frame's result object
        new_asm = cap[-1][1]
        internal = {"n": len(parsed.contracts)}
    rows = []
    if os.path.exists("seq.csv"):
        import csv
        with open("seq.csv") as fh:
            rows = [r.get("block_id") for r in csv.DictReader(fh)]
    return {"err": err, "out": out, "rows": rows, "internal": internal}


def _w_filter_internal(state, job):
    """Runs the loop of optimize_asm_in_asm_format with a recording optimize_asm_contract to observe the list
    `contracts` (identity of the untouched contracts) without changing the tool."""
    import gasol_asm
    path, opts = job
    p = _file_params(state, opts, path)
    p.optimized_file, p.seqs_file, p.blocks_file, p.log_file = "out2.json_solc", "seq2.csv", "blocks2.csv", "out2.log"
    seen = {"parsed": None, "optimized": []}
    orig_parse, orig_opt, orig_dc = gasol_asm.parse_asm, gasol_asm.optimize_asm_contract, gasol_asm.deepcopy
    copies = []

    def parse(f):
        seen["parsed"] = orig_parse(f)
        return seen["parsed"]

    def opt(c, params):
        seen["optimized"].append(c.contract_name)
        return orig_opt(c, params)

    def dc(x):
        r = orig_dc(x)
        if x is seen["parsed"]:
            copies.append(r)
        return r
    gasol_asm.parse_asm, gasol_asm.optimize_asm_contract, gasol_asm.deepcopy = parse, opt, dc
    err = None
    try:
        gasol_asm.init()
        gasol_asm.optimize_asm_in_asm_format(p)
    except BaseException as e:  # noqa
        err = "%s: %s" % (type(e).__name__, str(e)[:200])
    finally:
        gasol_asm.parse_asm, gasol_asm.optimize_asm_contract, gasol_asm.deepcopy = orig_parse, orig_opt, orig_dc
    res = {"err": err, "optimized": seen["optimized"], "contracts": []}
    if copies and seen["parsed"] is not None:
        new_asm = copies[-1]
        for i, c in enumerate(seen["parsed"].contracts):
            n = new_asm.contracts[i] if i < len(new_asm.contracts) else None
            res["contracts"].append({"name": c.contract_name, "short": c.shortened_name, "has_asm": bool(c.has_asm_field),
                                     "same_object": n is c,
                                     "same_json": n is not None and json.dumps(n.to_json(), sort_keys=True) == json.dumps(c.to_json(), sort_keys=True)})
        res["n_out"] = len(new_asm.contracts)
    for f in ("out2.json_solc", "seq2.csv", "blocks2.csv", "out2.log"):
        if os.path.exists(f):
            os.remove(f)
    return res


def count_spellings(asm):
    """(#{"name":"PUSH0"}, #{"name":"PUSH","value":"0"}) in an asm json object (recursively through .data)"""
    a = b = 0
    for it in asm.get(".code", []):
        if it.get("name") == "PUSH0":
            a += 1
        elif it.get("name") == "PUSH" and it.get("value") == "0":
            b += 1
    for v in (asm.get(".data") or {}).values():
        if isinstance(v, dict):
            x, y = count_spellings(v)
            a, b = a + x, b + y
    return a, b


def cli_push0(run, rng):
    """The command line itself (gasol_asm.py through harness/run_tool.py, as a subprocess): with `-push0` (PUSH0
    disabled) neither the optimized file nor the file rebuilt from the log may contain an item named PUSH0 when the
    input has none, and both files must be the same.  Inputs: the shipped contract and a synthesized document whose
    blocks push zeros."""
    import shutil
    from harness import docgen
    from harness.c11 import run_tool
    work = os.path.join(common.WORK, "c17_%d" % os.getpid())
    shutil.rmtree(work, ignore_errors=True)
    os.makedirs(work)
    evals = 0
    try:
        doc = docgen.document(rng.getrandbits(32), nblocks=6, with_noasm=False, max_len=12)
        # make sure zero pushes occur in optimizable positions
        for c in doc["contracts"].values():
            code = c["asm"][".data"]["0"][".code"]
            for k in (len(code) // 3, 2 * len(code) // 3):
                code[k:k] = [docgen.item("PUSH", "0"), docgen.item("PUSH", "0"), docgen.item("ADD"), docgen.item("PUSH", "0"), docgen.item("MSTORE")]
        synth = os.path.join(work, "zeros.json_solc")
        docgen.dump(doc, synth)
        for path in (synth, os.path.join(common.REPO, c08.CONTRACT)):
            base = os.path.basename(path).split(".")[0]
            with open(path) as fh:
                inp = json.load(fh)
            zin = sum(count_spellings(v["asm"])[0] for v in inp["contracts"].values() if v.get("asm"))
            d = os.path.join(work, base)
            os.makedirs(d)
            outs = {}
            rc, out = run_tool([path, "-greedy", "-push0", "-log"], d)
            evals += 1
            f1 = os.path.join(d, base + "_optimized.json_solc")
            if rc != 0 or not os.path.exists(f1):
                run.report({"kind": "whole-file-run-failed", "opts": "-greedy -push0 -log (cli)"}, "command line run failed: %s" % out[-300:],
                           {"file": base, "output": out[-1500:]}, found_input=False)
                continue
            outs["optimized"] = open(f1).read()
            rc, out = run_tool([path, "-greedy", "-push0", "-optimize-from-log", os.path.join(d, base + ".log")], d)
            evals += 1
            f2 = os.path.join(d, base + "_optimized_from_log.json_solc")
            if rc == 0 and os.path.exists(f2):
                outs["replayed"] = open(f2).read()
            else:
                run.report({"kind": "replay-fails-with-push0-disabled"}, "replaying the log with -push0 fails: %s" % out[-300:],
                           {"file": base if path != synth else doc, "output": out[-1500:]}, found_input=True)
            for which, txt in outs.items():
                o = json.loads(txt)
                a = sum(count_spellings(v["asm"])[0] for v in o["contracts"].values() if v.get("asm"))
                if a > zin:
                    run.report({"kind": "push0-emitted-while-disabled", "level": "cli-" + which},
                               "%d items named PUSH0 in the %s file of a `-push0` run (input has %d)" % (a, which, zin),
                               {"kind": "cli", "file": base if path != synth else doc, "which": which,
                                "how": "gasol_asm.py <file> -greedy -push0 -log ; gasol_asm.py <file> -greedy -push0 -optimize-from-log <log>"},
                               found_input=True)
            if len(outs) == 2 and outs["optimized"] != outs["replayed"]:
                run.report({"kind": "replay-differs-with-push0-disabled"}, "the file rebuilt from the log of a `-push0` run differs from the optimized file (%s)" % base,
                           {"kind": "cli", "file": base if path != synth else doc}, found_input=True)
    finally:
        shutil.rmtree(work, ignore_errors=True)
    return evals


def whole_file(run):
    path = os.path.join(common.REPO, c08.CONTRACT)
    with open(path) as fh:
        inp = json.load(fh)
    names = {k: k.split("/")[-1].split(":")[-1] for k in inp["contracts"]}
    with_asm = [k for k, v in inp["contracts"].items() if v.get("asm")]
    shorts = [names[k] for k in with_asm]
    jobs = [(path, ["-greedy"]), (path, ["-greedy", "-push0"])] + [(path, ["-greedy", "-c", s]) for s in shorts] + \
           [(path, ["-greedy", "-c", "NoSuchContract"])]
    res = gasol.pmap(_w_file, jobs, init=c08._w_init, initargs=(None,), timeout=600, procs=len(jobs))
    ires = gasol.pmap(_w_filter_internal, jobs[2:], init=c08._w_init, initargs=(None,), timeout=600, procs=len(jobs))
    evals = 0
    summary = {}
    full = res[0][1] if res[0][0] == "ok" else None
    # spelling scan
    for (pth, opts), (st, val) in zip(jobs[:2], res[:2]):
        evals += 1
        if st != "ok" or val["out"] is None:
            run.report({"kind": "whole-file-run-failed", "opts": " ".join(opts)}, "whole-file run failed: %r" % ((st, val if st != "ok" else val["err"]),),
                       {"file": pth, "opts": opts}, found_input=False)
            continue
        tot_in = tot_a = tot_b = 0
        for k in with_asm:
            _, zin = count_spellings(inp["contracts"][k]["asm"])
            a, b = count_spellings(val["out"]["contracts"][k]["asm"])
            tot_in, tot_a, tot_b = tot_in + zin, tot_a + a, tot_b + b
        summary[" ".join(opts)] = {"zero_pushes_in_input": tot_in, "emitted_named_PUSH0": tot_a, "emitted_PUSH_value_0": tot_b}
        replay = {"kind": "whole-file", "file": c08.CONTRACT, "opts": opts,
                  "how": "cd <scratch> && python /repo/gasol_asm.py /repo/%s %s ; count items named PUSH0 / PUSH with value 0 in *_optimized.json_solc"
                         % (c08.CONTRACT, " ".join(opts))}
        if "-push0" in opts and tot_a > 0:
            run.report({"kind": "push0-emitted-while-disabled", "level": "file"},
                       "%d items named PUSH0 emitted with PUSH0 disabled (input has none)" % tot_a, replay, found_input=True)
        if "-push0" not in opts and tot_a > 0 and tot_b > 0:
            run.report({"kind": "zero-push-json-spelling-mixed"},
                       "with PUSH0 enabled the emitted asm-json spells zero pushes in two ways: %d items {name: PUSH0} (untouched code, "
                       "renamed from the input's {name: PUSH, value: 0}) and %d items {name: PUSH, value: 0} (re-emitted code); input has %d zero pushes"
                       % (tot_a, tot_b, tot_in), replay, found_input=True)
    # contract filter
    for (pth, opts), (st, val), (st2, val2) in zip(jobs[2:], res[2:], ires):
        sel = opts[-1]
        evals += 1
        replay = {"kind": "contract-filter", "file": c08.CONTRACT, "opts": opts,
                  "how": "cd <scratch> && python /repo/gasol_asm.py /repo/%s %s" % (c08.CONTRACT, " ".join(opts))}
        if st != "ok" or st2 != "ok":
            run.report({"kind": "whole-file-run-failed", "opts": " ".join(opts)}, "run failed: %r %r" % (st, st2), replay, found_input=False)
            continue
        if sel not in shorts:
            if val["err"] is None or "cannot be found" not in val["err"]:
                run.report({"kind": "contract-filter-missing-not-rejected"}, "unknown contract name not rejected: %r" % (val["err"],), replay)
            if val["out"] is not None:
                run.report({"kind": "contract-filter-missing-wrote-output"}, "unknown contract name still produced output", replay)
            continue
        key = [k for k in with_asm if names[k] == sel][0]
        if val["err"] is not None or val["out"] is None:
            run.report({"kind": "contract-filter-run-error"}, "run with -c %s failed: %r" % (sel, val["err"]), replay)
            continue
        # (1) the artefact is the selected contract's asm json only (model: emit = OneContract)
        if set(val["out"].keys()) - {".code", ".data", "sourceList", ".auxdata"}:
            run.report({"kind": "contract-filter-artefact-shape"}, "emitted file is not a single contract's asm json: keys %r" % list(val["out"].keys())[:6], replay)
        # (2) and equals that contract's part of the unfiltered run
        if full is not None and full["out"] is not None:
            if json.dumps(full["out"]["contracts"][key]["asm"], sort_keys=True) != json.dumps(val["out"], sort_keys=True):
                run.report({"kind": "contract-filter-differs-from-unfiltered"},
                           "with -c %s the emitted contract differs from the same contract in the unfiltered run" % sel, replay)
        # (3) statistics rows only for the selected contract
        others = [r for r in val["rows"] if r and not r.startswith(sel + "_")]
        if others:
            run.report({"kind": "contract-filter-rows-of-others"}, "statistics rows of other contracts with -c %s: %r" % (sel, others[:3]), replay)
        # (4) internal list: model filter_contracts -- only the selected contract is optimized, the others ARE the input objects
        if val2["err"] is not None:
            run.report({"kind": "contract-filter-run-error"}, "instrumented run with -c %s failed: %r" % (sel, val2["err"]), replay)
            continue
        model_opt = [c["name"] for c in val2["contracts"] if c["has_asm"] and c["short"] == sel]
        if val2["optimized"] != model_opt:
            run.report({"kind": "contract-filter-model-disagrees"},
                       "optimize_asm_contract was called on %r, model says %r" % (val2["optimized"], model_opt), replay)
        for c in val2["contracts"]:
            skipped = (not c["has_asm"]) or c["short"] != sel
            if skipped and not (c["same_object"] and c["same_json"]):
                run.report({"kind": "contract-filter-other-contract-changed", "contract": c["short"]},
                           "contract %s is not the input object in the tool's list although -c %s was given" % (c["name"], sel), replay)
            if not skipped and c["same_object"]:
                run.report({"kind": "contract-filter-model-disagrees"}, "selected contract %s was not replaced" % c["name"], replay)
        if val2.get("n_out") != len(val2["contracts"]):
            run.report({"kind": "contract-filter-model-disagrees"}, "contract list length changed", replay)
        summary["-c " + sel] = {"optimized": val2["optimized"], "contracts": len(val2["contracts"]), "rows": len(val["rows"])}
    return evals, summary


# --------------------------------------------------------------------------------------------

def check(run):
    from gen import gen_cost
    rng = random.Random(run.seed)
    ok = common.proof_stage(run, "Props/C17.v", gen=gen_cost.generate)
    run.cov["trusted_base"] += [
        "gen/gen_cost.py translator and coq/Model/CostPrelude.v (Python builtins)",
        "coq/Ref/Cost.v reference prices of a zero push under both settings",
        "coq/Model/Cost.v hand model of the contract-filter loop and of execute_asm (pinned by AST hash; compared with instrumented runs)",
    ]
    if not ok:
        run.report({"kind": "proof-broken", "stage": str(run.proof_broken[0])}, "proof stage broke: %r" % (run.proof_broken,),
                   {"broken": repr(run.proof_broken), "how": "cd /verif && ./check C17"}, found_input=False)
        if run.proof_broken[0] in ("generation", "build", "props"):
            return
    evals = known_witnesses(run)
    evals += diff_push0(run, rng)
    # real outputs under both settings
    nz = 60 if run.tier == "quick" else 250
    texts = corpus_texts() + [gen_zero_block(rng) for _ in range(nz)]
    configs = [("gas", "default", ["-greedy"]), ("gas", "default", ["-greedy", "-push0"]),
               ("size", "default", ["-greedy"]), ("size", "default", ["-greedy", "-push0"])]
    if run.tier != "quick":
        configs += [("length", "default", ["-greedy", "-push0"]), ("gas", "storage", ["-greedy", "-push0"])]
    collected = []
    e, distinct, st = c08.real_outputs(run, rng, configs, n_contract=(90 if run.tier == "quick" else 100000),
                                       n_gen=(40 if run.tier == "quick" else 150), label="push0", extra_texts=texts, collect=collected)
    evals += e
    # scans: PUSH0 absent when disabled; spellings when enabled
    scan = {"disabled_blocks": 0, "disabled_with_zero_push": 0, "enabled_blocks": 0, "enabled_zero_parsed": 0, "enabled_zero_emitted": 0,
            "enabled_mixed_blocks": 0}
    for opts, recs in collected:
        off = "-push0" in opts
        for r in recs:
            new_names = [d for d, _ in r["new"]] + [d for d, _ in r["cand"]]
            zero = [(d, v) for d, v in r["new"] if d == "PUSH0" or (d == "PUSH" and v == "0")]
            evals += 1
            if off:
                scan["disabled_blocks"] += 1
                scan["disabled_with_zero_push"] += bool(zero)
                had = any(d == "PUSH0" for d, _ in r["old"])
                if "PUSH0" in new_names and not had:
                    run.report({"kind": "push0-emitted-while-disabled", "level": "block"},
                               "PUSH0 emitted with PUSH0 disabled: " + " ".join(c08.plain_of(r["old"]))[:200],
                               {"kind": "block", "old": r["old"], "opts": opts, "new": r["new"], "how": "./check C17 --replay <file>"}, found_input=True)
            else:
                scan["enabled_blocks"] += 1
                a = sum(1 for d, v in zero if d == "PUSH0")
                b = len(zero) - a
                scan["enabled_zero_parsed"] += a
                scan["enabled_zero_emitted"] += b
                scan["enabled_mixed_blocks"] += bool(a and b)
    ev2, summary = whole_file(run)
    ev2 += cli_push0(run, rng)
    evals += ev2
    run.cov["evaluations"] = evals
    run.cov["distinct_nontrivial"] = len(distinct)
    run.cov["rule"] = ("evaluations = differential values + reference/model prices (12 per block run) + scans + whole-file runs; "
                       "distinct_nontrivial = distinct (criterion, input block) whose output differs from the input, over both PUSH0 settings. "
                       "Blocks: shipped contract, corpus/C08+C17, zero-heavy generated blocks (zero pushed, folded to, or produced by a rule)")
    st["push0_scan"] = scan
    st["whole_file"] = summary
    run.cov["distribution"] = st
    c08.clean_my_cases()


def replay(run, path):
    with open(path) as fh:
        d = json.load(fh)
    rp = d.get("replay", d)
    if rp.get("kind") == "block":
        return c08.replay(run, path)
    if rp.get("kind") in ("whole-file", "contract-filter"):
        p = os.path.join(common.REPO, rp["file"])
        res = gasol.pmap(_w_file, [(p, rp["opts"])], init=c08._w_init, initargs=(None,), timeout=900, procs=1)
        st, val = res[0]
        print("run:", st, (val or {}).get("err") if st == "ok" else val)
        if st == "ok" and val["out"] is not None:
            if "contracts" in val["out"]:
                tot = [count_spellings(v["asm"]) for v in val["out"]["contracts"].values() if v.get("asm")]
                print("items named PUSH0 / PUSH with value 0 per contract:", tot)
                mixed = any(a and b for a, b in tot)
                print("REPRODUCED" if mixed else "not reproduced")
                return 1 if mixed else 0
            print("emitted a single contract with keys", list(val["out"].keys()))
        return 1
    if rp.get("kind") in ("sfs-size", "keys"):
        r0 = common.Run("C17", "quick", 0)
        r0.known = []
        known_witnesses(r0)
        for key, what, _, _ in r0.violations:
            print(what)
        print("REPRODUCED" if r0.violations else "not reproduced")
        return 1 if r0.violations else 0
    print("replay file names a broken proof/correspondence: re-run ./check C17")
    return 1
