"""C18: formula constructors preserve truth value; emitted text matches the formula.

Proof: coq/Props/C18.v over the hand-written model coq/Model/Formula.v.
Tie: bounded-exhaustive + sampled correspondence between the model (run by the Coq kernel with
vm_compute) and the implementation (smt_encoding.constraints.*, translate_formula), comparing the
constructed object structurally, the rendered text byte for byte, the model's reader on the text
the implementation printed, and Python `==` against the model's py_eq.
An independent Python evaluator (testing only) searches for failing inputs:
eval(constructed) != eval(raw), f1 == f2 with different truth value, text that a strict SMT-LIB
reader does not read back.

The model has two variants of two code sites (see Model/Formula.v): literal comparison
Loose/Strict and negative literal printing NegRaw/NegSmt.  The variant is detected from the
checkout; the full theorems hold for Strict/NegSmt, the `_partial` ones for Loose/NegRaw, whose
`_refuted` witnesses are replayed on the implementation and reported."""
import itertools
import json
import os
import random
import re
import sys
import time
from collections import Counter

from harness import common

PID = "C18"
CORPUS = os.path.join(common.VERIF, "corpus", PID)

# --------------------------------------------------------------------------
# trees.  ('b', bool) | ('i', int) | ('app', name, sig, [children]) | ('conn', name, [children])

CONNS = {"=>": "CImp", "and": "CAnd", "or": "COr", "not": "CNot", "=": "CEq", "<": "CLt", "<=": "CLe",
         "distinct": "CDistinct"}
ARITY = {"=>": 2, "and": -1, "or": -1, "not": 1, "=": 2, "<": 2, "<=": 2, "distinct": -1}
SORTS = {"Bool": "SBool", "Int": "SInt", "S": "SU", "T": "ST"}

# declared functions (name -> type tuple); two names are declared twice with different types
# only in the malformed stream (never printed)
DECLS = {"p": ("Bool",), "q": ("Bool",), "r": ("Bool",), "s": ("Bool",), "a": ("Int",), "b": ("Int",),
         "f": ("Int", "Int"), "g": ("Int", "Bool", "Bool"), "c": ("S",), "t": ("T",), "h": ("S", "Int")}


def B(x): return ("b", x)
def I(x): return ("i", x)
def A(name, *ch, sig=None): return ("app", name, tuple(DECLS[name] if sig is None else sig), list(ch))
def C(name, *ch): return ("conn", name, list(ch))


def tree_json(t):
    if t[0] in "bi":
        return [t[0], t[1]]
    if t[0] == "app":
        return ["app", t[1], list(t[2]), [tree_json(c) for c in t[3]]]
    return ["conn", t[1], [tree_json(c) for c in t[2]]]


def tree_of_json(j):
    if j[0] == "b":
        return ("b", bool(j[1]))
    if j[0] == "i":
        return ("i", int(j[1]))
    if j[0] == "app":
        return ("app", j[1], tuple(j[2]), [tree_of_json(c) for c in j[3]])
    return ("conn", j[1], [tree_of_json(c) for c in j[2]])


def tree_str(t):
    """Python expression that rebuilds the construction (for humans / replays)."""
    if t[0] == "b":
        return "True" if t[1] else "False"
    if t[0] == "i":
        return str(t[1])
    if t[0] == "app":
        fn = "Function(%r, %s)" % (t[1], ", ".join("Sort." + {"Bool": "boolean", "Int": "integer", "S": "uninterpreted",
                                                                "T": "uninterpreted_theta"}[s] for s in t[2]))
        return "%s(%s)" % (fn, ", ".join(tree_str(c) for c in t[3]))
    nm = {"=>": "add_implies", "and": "add_and", "or": "add_or", "not": "add_not", "=": "add_eq", "<": "add_lt",
          "<=": "add_leq", "distinct": "add_distinct"}[t[1]]
    return "%s(%s)" % (nm, ", ".join(tree_str(c) for c in t[2]))


def children(t):
    return t[3] if t[0] == "app" else t[2] if t[0] == "conn" else []


def depth(t):
    """connector depth: literals and applications of leaves are 0, a connector adds 1"""
    ch = children(t)
    if t[0] == "conn":
        return 1 + max([depth(c) for c in ch], default=0)
    return max([depth(c) for c in ch], default=0)


def subtrees(t):
    yield t
    for c in children(t):
        yield from subtrees(c)


def size(t):
    return 1 + sum(size(c) for c in children(t))


def coq_z(n):
    return "(%d)%%Z" % n


def coq_tree(t):
    if t[0] == "b":
        return "FBool true" if t[1] else "FBool false"
    if t[0] == "i":
        return "FInt " + coq_z(t[1])
    if t[0] == "app":
        return 'FApp "%s" [%s] [%s]' % (t[1], "; ".join(SORTS[s] for s in t[2]), "; ".join(coq_tree(c) for c in t[3]))
    return "FConn %s [%s]" % (CONNS[t[1]], "; ".join(coq_tree(c) for c in t[2]))


def coq_str(s):
    return '"' + s.replace('"', '""') + '"'


# --------------------------------------------------------------------------
# implementation side

class Impl:
    def __init__(self):
        from smt_encoding.constraints import connector_factory as cf
        from smt_encoding.constraints.connector import Connector
        from smt_encoding.constraints.function import Function, Sort, ExpressionReference
        from smt_encoding.solver.solver_from_executable import translate_formula
        self.cf, self.Connector, self.Function, self.Sort, self.ER = cf, Connector, Function, Sort, ExpressionReference
        self.translate = translate_formula
        self.sort = {"Bool": Sort.boolean, "Int": Sort.integer, "S": Sort.uninterpreted, "T": Sort.uninterpreted_theta}
        self.sort_name = {v: k for k, v in self.sort.items()}
        self.entry = {"=>": cf.add_implies, "and": cf.add_and, "or": cf.add_or, "not": cf.add_not, "=": cf.add_eq,
                      "<": cf.add_lt, "<=": cf.add_leq, "distinct": cf.add_distinct}

    def construct(self, t):
        """Runs the real constructors bottom-up; exceptions propagate."""
        if t[0] in "bi":
            return t[1]
        if t[0] == "app":
            args = [self.construct(c) for c in t[3]]
            return self.Function(t[1], *[self.sort[s] for s in t[2]])(*args)
        args = [self.construct(c) for c in t[2]]
        name = t[1]
        if ARITY[name] == -1 or ARITY[name] == len(args):
            return self.entry[name](*args)
        # a wrong number of arguments cannot be passed to the fixed-arity entry points (Python
        # TypeError); go through the registry method they all call
        return self.cf._connectors.create_connector_and_simplify(name, *args)

    def construct_r(self, t):
        try:
            return ("ok", self.construct(t))
        except (AssertionError, ValueError, AttributeError, IndexError) as e:
            return ("err", type(e).__name__)

    def show(self, o):
        if type(o) == bool:
            return "T" if o else "F"
        if type(o) == int:
            return "i%d" % o
        if type(o) == self.ER:
            return "A[%s:%s](%s)" % (o.func.name, " ".join(self.sort_name[s] for s in o.func.type),
                                     " ".join(self.show(a) for a in o.arguments))
        if type(o) == self.Connector:
            return "C[%s](%s)" % (o.connector_name, " ".join(self.show(a) for a in o.arguments))
        raise TypeError("unexpected object %r" % (o,))

    def width(self, o):
        if type(o) in (bool, int):
            return 0
        return max([len(o.arguments)] + [self.width(a) for a in o.arguments])

    def detect_variant(self):
        """Which model variant does this checkout implement?"""
        cf = self.cf
        a = self.Function("a", self.Sort.integer)()
        probes = [cf.add_eq(True, 1), cf.add_eq(0, False), cf.add_eq(a, 1) == cf.add_eq(a, True),
                  self.Function("k", self.Sort.integer, self.Sort.integer)(1) ==
                  self.ER(self.Function("k", self.Sort.integer, self.Sort.integer), True)]
        if all(x is True for x in probes):
            lit = "Loose"
        elif all(x is False for x in probes):
            lit = "Strict"
        else:
            lit = "Mixed:%s" % probes
        txt = self.translate(-5)
        neg = "NegRaw" if txt == "-5" else "NegSmt" if txt == "(- 5)" else "Other:%r" % txt
        return lit, neg


# --------------------------------------------------------------------------
# independent evaluator (testing only): raw trees and implementation objects

class Undef(Exception):
    pass


def veq(x, y):
    return type(x) == type(y) and x == y


def conn_sem(name, vs):
    if name in ("and", "or"):
        if any(type(v) != bool for v in vs):
            raise Undef()
        return all(vs) if name == "and" else any(vs)
    if name == "not":
        if len(vs) != 1 or type(vs[0]) != bool:
            raise Undef()
        return not vs[0]
    if name == "=>":
        if len(vs) != 2 or type(vs[0]) != bool or type(vs[1]) != bool:
            raise Undef()
        return (not vs[0]) or vs[1]
    if name == "=":
        if len(vs) != 2:
            raise Undef()
        return veq(vs[0], vs[1])
    if name in ("<", "<="):
        if len(vs) != 2 or type(vs[0]) != int or type(vs[1]) != int:
            raise Undef()
        return vs[0] < vs[1] if name == "<" else vs[0] <= vs[1]
    if name == "distinct":
        return all(not veq(vs[i], vs[j]) for i in range(len(vs)) for j in range(i + 1, len(vs)))
    raise Undef()


def make_valuations():
    vals = []
    int_envs = [
        {"a": 0, "b": 0, "f": lambda x: x},
        {"a": 1, "b": 0, "f": lambda x: x + 1},
        {"a": 1, "b": 2, "f": lambda x: 1},
        {"a": -1, "b": 1, "f": lambda x: -x},
    ]
    for bits in itertools.product([False, True], repeat=4):
        for k, ie in enumerate(int_envs):
            env = dict(zip("pqrs", bits))
            env.update(ie)
            env["k"] = k
            vals.append(env)
    return vals


def apply_fn(env, name, sig, args):
    """Interpretation of (name, sig) on argument values."""
    if name in env and len(sig) == 1 and ((sig[0] == "Bool" and name in "pqrs") or (sig[0] == "Int" and name in "ab")):
        return env[name]
    if name == "f" and sig == ("Int", "Int") and type(args[0]) == int:
        return env["f"](args[0])
    h = hash((name, sig, tuple((type(a).__name__, a) for a in args), env["k"])) & 0xffff
    rng = sig[-1]
    if rng == "Bool":
        return bool(h & 1)
    if rng == "Int":
        return h % 3
    return ("u", rng, h % 2)


def eval_tree(env, t):
    if t[0] in "bi":
        return t[1]
    if t[0] == "app":
        return apply_fn(env, t[1], tuple(t[2]), [eval_tree(env, c) for c in t[3]])
    return conn_sem(t[1], [eval_tree(env, c) for c in t[2]])


def eval_obj(impl, env, o):
    if type(o) in (bool, int):
        return o
    if type(o) == impl.ER:
        return apply_fn(env, o.func.name, tuple(impl.sort_name[s] for s in o.func.type),
                        [eval_obj(impl, env, a) for a in o.arguments])
    return conn_sem(o.connector_name, [eval_obj(impl, env, a) for a in o.arguments])


def ev(fn, *a):
    try:
        return ("v", fn(*a))
    except Undef:
        return None


def strict_eq(impl, x, y):
    """Type-aware structural equality (reference for classifying witnesses)."""
    if type(x) != type(y):
        return False
    if type(x) in (bool, int):
        return x == y
    if type(x) == impl.ER:
        return x.func == y.func and len(x.arguments) == len(y.arguments) and \
            all(strict_eq(impl, u, v) for u, v in zip(x.arguments, y.arguments))
    if x.connector_name != y.connector_name or len(x.arguments) != len(y.arguments):
        return False
    if not x.is_commutative:
        return all(strict_eq(impl, u, v) for u, v in zip(x.arguments, y.arguments))
    return any(all(strict_eq(impl, u, v) for u, v in zip(pm, y.arguments)) for pm in itertools.permutations(x.arguments))


# strict SMT-LIB reader (independent of the model's): numerals are digit strings, everything else
# a symbol that must be declared
TOK = re.compile(r"\(|\)|[^\s()]+")


def smt_read(impl, text):
    toks = TOK.findall(text)
    pos = [0]

    def term():
        if pos[0] >= len(toks):
            raise ValueError("eof")
        tk = toks[pos[0]]
        pos[0] += 1
        if tk == ")":
            raise ValueError("unexpected )")
        if tk != "(":
            if tk == "true":
                return ("b", True)
            if tk == "false":
                return ("b", False)
            if re.fullmatch(r"[0-9]+", tk):
                return ("i", int(tk))
            if tk in DECLS and len(DECLS[tk]) == 1:
                return ("app", tk, DECLS[tk], [])
            raise ValueError("undeclared symbol %s" % tk)
        if pos[0] >= len(toks):
            raise ValueError("eof")
        head = toks[pos[0]]
        pos[0] += 1
        args = []
        while pos[0] < len(toks) and toks[pos[0]] != ")":
            args.append(term())
        if pos[0] >= len(toks):
            raise ValueError("eof")
        pos[0] += 1
        if head == "-" and len(args) == 1 and args[0][0] == "i":
            return ("i", -args[0][1])
        if head in CONNS:
            return ("conn", head, args)
        if head in DECLS and args:
            return ("app", head, DECLS[head], args)
        raise ValueError("undeclared symbol %s" % head)

    r = term()
    if pos[0] != len(toks):
        raise ValueError("trailing tokens")
    return r


def obj_tree(impl, o):
    if type(o) == bool:
        return ("b", o)
    if type(o) == int:
        return ("i", o)
    if type(o) == impl.ER:
        return ("app", o.func.name, tuple(impl.sort_name[s] for s in o.func.type), [obj_tree(impl, a) for a in o.arguments])
    return ("conn", o.connector_name, [obj_tree(impl, a) for a in o.arguments])


def printable(t):
    """declared names with the declared type (the hypothesis of the print/parse theorem)"""
    for s in subtrees(t):
        if s[0] == "app" and DECLS.get(s[1]) != tuple(s[2]):
            return False
    return True


# --------------------------------------------------------------------------
# generators

BOOL_LEAVES = [A("p"), A("q"), A("r"), A("s"), B(True), B(False)]
INT_LEAVES = [I(0), I(1), I(2), I(-1), A("a"), A("b"), A("f", A("a")), A("f", I(1)), A("g", A("a"), A("p"))]
OTHER_LEAVES = [A("c"), A("h", A("c")), I(2 ** 256)]
ALL_LEAVES = BOOL_LEAVES + INT_LEAVES + OTHER_LEAVES


def exhaustive(leaves, conns_ar, d):
    """all trees of connector depth <= d over the leaves; conns_ar: list of (name, arity)"""
    level = list(leaves)
    allt = list(leaves)
    for _ in range(d):
        new = []
        for name, ar in conns_ar:
            for ch in itertools.product(allt, repeat=ar):
                new.append(C(name, *ch))
        # keep only trees that use at least one tree of the previous level (exact depth)
        prev = set(map(repr, level))
        new = [t for t in new if any(repr(c) in prev for c in t[2])]
        level = new
        allt = allt + new
    return allt


def conns_with_arities(maxar):
    out = []
    for name, ar in ARITY.items():
        if ar == -1:
            out += [(name, k) for k in range(1, maxar + 1)]
        else:
            out.append((name, ar))
    return out


def shuffle_comm(rng, t):
    """a variant of t with arguments of commutative connectors permuted at random nodes"""
    if t[0] != "conn":
        return t
    ch = [shuffle_comm(rng, c) for c in t[2]]
    if t[1] in ("and", "or", "=", "distinct") and rng.random() < 0.7:
        rng.shuffle(ch)
    return C(t[1], *ch)


def mutate_lits(rng, t):
    """swap some literals for their Python-equal literal of the other type (True<->1, False<->0)"""
    if t[0] == "b" and rng.random() < 0.5:
        return I(1 if t[1] else 0)
    if t[0] == "i" and t[1] in (0, 1) and rng.random() < 0.5:
        return B(bool(t[1]))
    if t[0] == "app":
        return t
    if t[0] == "conn":
        return C(t[1], *[mutate_lits(rng, c) for c in t[2]])
    return t


def rand_tree(rng, d, want=None):
    """random construction tree of connector depth <= d; want in {None,'Bool','Int'}: sort-directed"""
    if d == 0 or rng.random() < 0.12:
        if want == "Bool":
            return rng.choice(BOOL_LEAVES)
        if want == "Int":
            return rng.choice(INT_LEAVES)
        return rng.choice(ALL_LEAVES)
    if want == "Int":
        r = rng.random()
        if r < 0.25:
            return A("f", rand_tree(rng, d - 1, "Int"))
        return rng.choice(INT_LEAVES)
    directed = rng.random() < 0.85
    name = rng.choice(["=>", "and", "and", "or", "or", "not", "=", "=", "<", "<=", "distinct"])
    ar = ARITY[name]
    if ar == -1:
        ar = rng.choice([1, 2, 2, 3, 3])
    elif rng.random() < 0.01:
        ar = rng.choice([0, 1, 2, 3])          # wrong arity -> AssertionError path
    if rng.random() < 0.01:
        ar = 0
    if not directed:
        cw = [None] * ar
    elif name in ("and", "or", "not", "=>"):
        cw = ["Bool"] * ar
    elif name in ("<", "<="):
        cw = ["Int"] * ar
    else:
        cw = [rng.choice(["Bool", "Bool", "Int"])] * ar
    ch = [rand_tree(rng, d - 1, w) for w in cw]
    if name in ("=", "distinct") and ar >= 2 and rng.random() < 0.35:
        k = rng.randrange(1, ar)
        ch[k] = shuffle_comm(rng, ch[0])
        if rng.random() < 0.3:
            ch[k] = mutate_lits(rng, ch[k])
    if rng.random() < 0.03 and ch:
        # malformed application stream: wrong sorts / connector arguments / wrong arity / empty type
        kind = rng.randrange(4)
        if kind == 0:
            return A("f", ch[0])
        if kind == 1:
            return A("g", *ch[:2])
        if kind == 2:
            return A("e", sig=())
        return A("f", ch[0], sig=("Bool", "Int"))
    return C(name, *ch)


# --------------------------------------------------------------------------
# model side (Coq cases)

HEADER = """From Coq Require Import ZArith List String Bool.
From GV Require Import Model.Formula.
Import ListNotations.
Local Open Scope string_scope.
Set Printing Width 1000000.
Definition D : decls := [%s].
Definition M := %s.
Definition NM := %s.
Definition same (a b : form) : bool := String.eqb (show a) (show b).
(* one construction: (canonical text of the result, rendered text, code); code 10: the formula is
   printable and the model's reader reads the text back to it; 3: printable but not read back;
   0: not printable (undeclared name / negative literal in NegRaw mode) or an exception *)
Definition o (t : form) : string * string * nat :=
  let r := build M t in
  match r with
  | Err _ => (show_result r, "", 0)
  | Ok f => (show_result r, render NM f,
      if printable NM D f then
        match read D (render NM f) with
        | Some f' => if same f f' then 10 else 3
        | None => 3
        end
      else 0)
  end%%nat.
(* Python == on two constructed formulas; 0 agree, 1 differ, 2 a construction failed *)
Definition e (t1 t2 : form) (exp : bool) : nat :=
  match build M t1, build M t2 with
  | Ok f1, Ok f2 => if Bool.eqb (py_eq M f1 f2) exp then 0 else 1
  | _, _ => 2
  end%%nat.
Definition p := FApp "p" [SBool] [].
Definition q := FApp "q" [SBool] [].
Definition r := FApp "r" [SBool] [].
Definition s := FApp "s" [SBool] [].
Definition a := FApp "a" [SInt] [].
Definition b := FApp "b" [SInt] [].
Definition f x := FApp "f" [SInt; SInt] [x].
Notation T := (FBool true).
Notation F := (FBool false).
"""


def header(lit, neg):
    d = "; ".join('("%s", [%s])' % (n, "; ".join(SORTS[s] for s in sig)) for n, sig in DECLS.items())
    return HEADER % (d, lit, neg)


def ct(t):
    """Coq term of a tree, with the abbreviations of HEADER (short terms elaborate much faster)"""
    if t[0] == "b":
        return "T" if t[1] else "F"
    if t[0] == "i":
        return "FInt " + coq_z(t[1])
    if t[0] == "app":
        if t[1] in "pqrsab" and tuple(t[2]) == DECLS[t[1]] and not t[3]:
            return t[1]
        if t[1] == "f" and tuple(t[2]) == ("Int", "Int") and len(t[3]) == 1:
            return "f (%s)" % ct(t[3][0])
        return 'FApp "%s" [%s] [%s]' % (t[1], "; ".join(SORTS[s] for s in t[2]), "; ".join(ct(c) for c in t[3]))
    return "FConn %s [%s]" % (CONNS[t[1]], "; ".join(ct(c) for c in t[2]))


def coq_run_files(named_bodies, timeout=900):
    """Like common.run_cases_parallel but in a private directory (coq/Cases is shared between
    concurrently running checks and may be removed by another one).  Returns {name: (ok, out)}."""
    import concurrent.futures as cfut
    import shutil
    d = os.path.join(common.WORK, "c18_cases_%d" % os.getpid())
    os.makedirs(d, exist_ok=True)
    for n, b in named_bodies:
        with open(os.path.join(d, n + ".v"), "w") as fh:
            fh.write(b)

    def one(n):
        rc, out = common.sh("ulimit -s unlimited 2>/dev/null; timeout %d coqc -Q %s GV %s.v" % (timeout, common.COQ, n),
                            cwd=d, timeout=timeout + 30)
        return n, (rc == 0, out)
    res = {}
    try:
        with cfut.ThreadPoolExecutor(max_workers=common.NCPU) as ex:
            for n, r in ex.map(one, [n for n, _ in named_bodies]):
                res[n] = r
    finally:
        shutil.rmtree(d, ignore_errors=True)
    return res


TRIPLE = re.compile(r'\("((?:[^"]|"")*)",\s*"((?:[^"]|"")*)",\s*(\d+)\)')


def run_model(run, lit, neg, cases, pairs, tag):
    """cases: list of trees; pairs: list of (t1, t2, expbool).
    Returns ([(show, text, code)] for cases, codes for pairs) or raises RuntimeError when Coq fails."""
    per = 500
    bodies = []
    hd = header(lit, neg)
    chunks = []
    for i in range(0, len(cases), per):
        chunks.append(("c", cases[i:i + per]))
    for i in range(0, len(pairs), per):
        chunks.append(("e", pairs[i:i + per]))
    for k, (kind, ch) in enumerate(chunks):
        if kind == "c":
            items = ["o (%s)" % ct(t) for t in ch]
        else:
            items = ["e (%s) (%s) %s" % (ct(a), ct(b), "true" if x else "false") for a, b, x in ch]
        body = hd + "Eval vm_compute in [\n " + ";\n ".join(items) + "\n]%list.\n"
        bodies.append(("c18_%s_%04d" % (tag, k), body))
    res = coq_run_files(bodies, timeout=900)
    cres, pcodes = [], []
    for (name, _), (kind, ch) in zip(bodies, chunks):
        ok, out = res[name]
        if not ok:
            raise RuntimeError("Coq failed on %s: %s" % (name, out[-600:]))
        if kind == "c":
            got = [(m.group(1).replace('""', '"'), m.group(2).replace('""', '"'), int(m.group(3)))
                   for m in TRIPLE.finditer(out)]
            if len(got) != len(ch):
                raise RuntimeError("%s: %d results for %d cases" % (name, len(got), len(ch)))
            cres.extend(got)
        else:
            lst = common.parse_eval_list(out)
            if len(lst) != 1:
                raise RuntimeError("cannot parse output of %s: %s" % (name, out[-300:]))
            codes = [int(x) for x in re.findall(r"\d+", lst[0])]
            if len(codes) != len(ch):
                raise RuntimeError("%s: %d results for %d cases" % (name, len(codes), len(ch)))
            pcodes.extend(codes)
    return cres, pcodes


def model_answer(lit, neg, t):
    """what the model computes for one tree (diagnostics for a disagreement)"""
    body = header(lit, neg) + "Eval vm_compute in [o (%s)]%%list.\n" % ct(t)
    ok, out = coq_run_files([("c18_diag", body)], timeout=120)["c18_diag"]
    return out.strip()[-400:]


# --------------------------------------------------------------------------
# failing-input search on the implementation (independent evaluator)

def classify_eq(impl, x, y):
    return "bool-int-literal-confusion" if (x == y) and not strict_eq(impl, x, y) else "other"


def find_construct_witness(impl, vals, t):
    """smallest subtree s of t and valuation with eval(raw s) defined and != eval(construct s)"""
    best = None
    for s in sorted(subtrees(t), key=size):
        if s[0] != "conn":
            continue
        r = impl.construct_r(s)
        if r[0] != "ok":
            continue
        for env in vals:
            a = ev(eval_tree, env, s)
            if a is None:
                continue
            b = ev(eval_obj, impl, env, r[1])
            if b is None or not veq(a[1], b[1]):
                best = (s, env, a[1], None if b is None else b[1], r[1])
                break
        if best:
            break
    return best


def env_json(env):
    return {k: v for k, v in env.items() if k in ("p", "q", "r", "s", "a", "b", "k")}


def construct_key(impl, w):
    s = w[0]
    cause = "other"
    if s[1] == "=":
        kids = [impl.construct(c) for c in s[2]]
        if len(kids) == 2:
            cause = classify_eq(impl, kids[0], kids[1])
    return {"kind": "construct", "entry": s[1], "cause": cause}


def report_construct(run, impl, t, w):
    s, env, exp, got, obj = w
    key = construct_key(impl, w)
    what = ("%s = %s but the unsimplified formula evaluates to %r (valuation %s)"
            % (tree_str(s), impl.show(obj), exp, env_json(env)))
    return run.report(key, what, {"kind": "construct", "tree": tree_json(s), "valuation": env_json(env),
                                  "expected_value": repr(exp), "observed_value": repr(got),
                                  "constructed": impl.show(obj),
                                  "cmd": "cd /verif && ./check C18 --replay <this file>",
                                  "python": tree_str(s)}, found_input=True)


def check_pair_truth(impl, vals, o1, o2):
    """o1 == o2 (Python) but different values under some valuation -> (env, v1, v2)"""
    for env in vals:
        a, b = ev(eval_obj, impl, env, o1), ev(eval_obj, impl, env, o2)
        if (a is None) != (b is None) or (a is not None and not veq(a[1], b[1])):
            return env, a, b
    return None


def report_pair(run, impl, t1, t2, o1, o2, w):
    env, a, b = w
    key = {"kind": "struct_eq", "cause": classify_eq(impl, o1, o2)}
    what = "%s == %s is True but they evaluate to %r and %r (valuation %s)" % (impl.show(o1), impl.show(o2), a, b, env_json(env))
    return run.report(key, what, {"kind": "struct_eq", "tree1": tree_json(t1), "tree2": tree_json(t2),
                                  "valuation": env_json(env), "values": [repr(a), repr(b)],
                                  "cmd": "cd /verif && ./check C18 --replay <this file>",
                                  "python": "%s == %s" % (tree_str(t1), tree_str(t2))}, found_input=True)


def check_text(impl, obj, txt):
    """strict SMT-LIB reading of the emitted text gives the formula back? returns cause or None"""
    t = obj_tree(impl, obj)
    if not printable(t):
        return None
    try:
        back = smt_read(impl, txt)
    except ValueError as e:
        neg = any(s[0] == "i" and s[1] < 0 for s in subtrees(t))
        return "negative-int-literal" if neg else "unreadable: %s" % e
    if back != t:
        return "reads back as a different formula"
    return None


def report_text(run, impl, t, obj, txt, cause):
    # minimize: the smallest printable subformula whose text does not read back
    best = (obj, txt)
    stack = [obj]
    while stack:
        o = stack.pop()
        if type(o) in (bool, int):
            kids = []
        else:
            kids = list(o.arguments)
        stack += kids
        tx = impl.translate(o)
        if check_text(impl, o, tx) is not None and len(tx) < len(best[1]):
            best = (o, tx)
    o, tx = best
    key = {"kind": "print_parse", "cause": cause}
    what = "translate_formula(%s) = %r is not read back by an SMT-LIB reader as that formula (%s)" % (impl.show(o), tx, cause)
    return run.report(key, what, {"kind": "print_parse", "tree": tree_json(obj_tree(impl, o)), "text": tx,
                                  "cmd": "cd /verif && ./check C18 --replay <this file>"}, found_input=True)


# --------------------------------------------------------------------------

def load_corpus():
    out = []
    if os.path.isdir(CORPUS):
        for f in sorted(os.listdir(CORPUS)):
            if f.endswith(".json"):
                with open(os.path.join(CORPUS, f)) as fh:
                    d = json.load(fh)
                out += d.get("cases", [])
    return out


def gen_inputs(run, impl):
    rng = random.Random(run.seed)
    quick = run.tier == "quick"
    trees, origin = [], []

    def add(ts, tag):
        for t in ts:
            trees.append(t)
            origin.append(tag)

    corpus = load_corpus()
    add([tree_of_json(c["tree"]) for c in corpus if "tree" in c], "corpus")
    pairs_in = [(tree_of_json(c["tree1"]), tree_of_json(c["tree2"])) for c in corpus if "tree1" in c]
    # exhaustive depth 1 over the full leaf alphabet, arities 0..3
    ex1 = exhaustive(ALL_LEAVES, conns_with_arities(3), 1)
    if quick:
        # all unary/binary ones, a sample of the ternary ones
        small = [t for t in ex1 if len(children(t)) <= 2]
        big = [t for t in ex1 if len(children(t)) > 2]
        add(small, "exh-d1")
        add(rng.sample(big, 2000), "exh-d1-sample")
    else:
        add(ex1, "exh-d1")
    # exhaustive depth 2 over a reduced alphabet, arity <= 2
    small_leaves = [A("p"), B(True), B(False), I(1), A("a")]
    ex2 = exhaustive(small_leaves, conns_with_arities(2), 2)
    if quick:
        add(rng.sample(ex2, 6000), "exh-d2-sample")
    else:
        add(rng.sample(ex2, 120000), "exh-d2-sample")
    # sampled depth 2..4
    n_samp = 9000 if quick else 120000
    for i in range(n_samp):
        d = rng.choice([2, 3, 3, 4, 4])
        add([rand_tree(rng, d, rng.choice(["Bool", "Bool", None]))], "rand-d%d" % d)
    return trees, origin, pairs_in, rng


def check(run):
    t_start = time.time()
    impl = Impl()
    lit, neg = impl.detect_variant()
    run.cov["variant"] = {"literal_equality": lit, "negative_literals": neg}
    run.log("implementation matches model variant: literal equality %s, negative literals %s" % (lit, neg))
    ok = common.proof_stage(run, "Props/C18.v")
    run.cov["trusted_base"] += [
        "hand-written model coq/Model/Formula.v of connector_factory.py, connector.py, function.py, translate_formula "
        "(tied by the correspondence below, not verified against the Python source)",
        "semantics of formulas (eval in Model/Formula.v): and/or/not/=> on booleans, </<= on integers, "
        "= and distinct total heterogeneous (in)equality",
        "SMT-LIB reader of the model (lex/parse_sexp/elab in Model/Formula.v) as the meaning of 'parses back'",
        "harness/c18.py canonicalisation of Python objects (Impl.show) and generation of Coq terms",
    ]
    if lit not in ("Loose", "Strict") or neg not in ("NegRaw", "NegSmt"):
        run.report({"kind": "variant", "lit": lit, "neg": neg},
                   "the checkout implements neither model variant consistently: %s %s" % (lit, neg),
                   {"theorem": "correspondence Model/Formula.v <-> smt_encoding.constraints", "probes": [lit, neg]},
                   found_input=False)
        lit = "Loose" if lit not in ("Loose", "Strict") else lit
        neg = "NegRaw" if neg not in ("NegRaw", "NegSmt") else neg
    full = {"Strict": ["add_sound_strict", "construct_sound_strict", "struct_eq_sound_strict", "py_eq_sound_strict"],
            "Loose": ["add_sound_partial", "construct_sound_partial", "struct_eq_sound_partial", "py_eq_sound_partial",
                      "add_eq_refuted", "construct_sound_refuted", "struct_eq_sound_refuted"],
            "NegSmt": ["print_parse_smt", "read_render_smt"],
            "NegRaw": ["print_parse_partial", "read_render_partial", "print_parse_refuted"]}
    both = ["lex_render_tokens", "add_and_error_exact", "add_or_error_exact", "add_and_error_literals",
            "add_distinct_error_exact", "add_fixed_error_exact", "build_respects_arities"]
    combined = ["c18_strict"] if (lit, neg) == ("Strict", "NegSmt") else ["c18_partial"] if (lit, neg) == ("Loose", "NegRaw") else []
    run.cov["applicable_theorems"] = full[lit] + full[neg] + combined + both
    run.cov["full_theorems_apply"] = {"construct_sound/struct_eq_sound": lit == "Strict", "print_parse": neg == "NegSmt"}

    vals = make_valuations()
    trees, origin, pairs_in, rng = gen_inputs(run, impl)
    run.log("generated %d construction trees (%.1fs)" % (len(trees), time.time() - t_start))

    # ---- implementation: construct, render, evaluate
    dist = {"origin": Counter(origin), "depth": Counter(), "top": Counter(), "result_kind": Counter(),
            "errors": Counter(), "size": Counter(), "simplified": Counter(), "nodes": Counter()}
    cases, objs, keep_trees = [], [], []
    seen = set()
    skipped_wide = 0
    n_eval = 0
    construct_best, text_reported = {}, set()
    for t, org in zip(trees, origin):
        kr = repr(t)
        if kr in seen:
            continue
        seen.add(kr)
        r = impl.construct_r(t)
        if r[0] == "ok":
            o = r[1]
            if impl.width(o) > 6:
                skipped_wide += 1
                continue
            exp, txt = impl.show(o), impl.translate(o)
            kind = "literal" if type(o) in (bool, int) else "atom/application" if type(o) == impl.ER else "connector:" + o.connector_name
            dist["result_kind"][kind] += 1
        else:
            o, exp, txt = None, "!" + r[1], ""
            dist["errors"][r[1]] += 1
            dist["result_kind"]["error"] += 1
        dist["depth"][depth(t)] += 1
        dist["size"][min(size(t), 40) // 5 * 5] += 1
        dist["top"][t[1] if t[0] in ("conn", "app") else "literal"] += 1
        for st in subtrees(t):
            dist["nodes"][st[1] if st[0] == "conn" else "app:" + st[1] if st[0] == "app" else "lit:" + str(st[1])[:6]] += 1
        cases.append((t, exp, txt))
        objs.append(o)
        keep_trees.append(t)
        if o is None:
            continue
        if t[0] == "conn" and exp != impl.show(_raw_obj(impl, t)):
            dist["simplified"]["changed"] += 1
        else:
            dist["simplified"]["unchanged"] += 1
        # oracle 1: truth value of constructed vs raw
        bad = False
        for env in vals:
            a = ev(eval_tree, env, t)
            if a is None:
                continue
            n_eval += 1
            b = ev(eval_obj, impl, env, o)
            if b is None or not veq(a[1], b[1]):
                bad = True
                break
        if bad:
            w = find_construct_witness(impl, vals, t)
            if w is not None:
                k = construct_key(impl, w)
                kk = json.dumps(k, sort_keys=True)
                if kk not in construct_best or size(w[0]) < size(construct_best[kk][1][0]):
                    construct_best[kk] = (t, w)      # the smallest witness of each class is reported
        # oracle 2: the text reads back (strict SMT-LIB reader)
        cause = check_text(impl, o, txt)
        if cause is not None and cause not in text_reported:
            text_reported.add(cause)
            report_text(run, impl, t, o, txt, cause)
    for kk in sorted(construct_best):
        report_construct(run, impl, *construct_best[kk])
    run.log("implementation ran on %d distinct trees, %d valuations each (%.1fs); %d skipped (connector wider than 6)"
            % (len(cases), len(vals), time.time() - t_start, skipped_wide))

    # ---- pairs for ==
    okidx = [i for i, o in enumerate(objs) if o is not None]
    pairs = []
    n_pairs = 4000 if run.tier == "quick" else 30000
    for (t1, t2) in pairs_in:
        pairs.append((t1, t2))
    bykind = {}
    for i in okidx:
        bykind.setdefault(cases[i][1][:6], []).append(i)
    while len(pairs) < n_pairs and okidx:
        i = rng.choice(okidx)
        t1 = keep_trees[i]
        m = rng.random()
        if m < 0.35:
            t2 = shuffle_comm(rng, t1)
        elif m < 0.55:
            t2 = mutate_lits(rng, shuffle_comm(rng, t1))
        elif m < 0.85:
            t2 = keep_trees[rng.choice(bykind[cases[i][1][:6]])]
        else:
            t2 = keep_trees[rng.choice(okidx)]
        pairs.append((t1, t2))
    pcases = []
    eqdist = Counter()
    pair_best = {}
    for t1, t2 in pairs:
        r1, r2 = impl.construct_r(t1), impl.construct_r(t2)
        if r1[0] != "ok" or r2[0] != "ok" or impl.width(r1[1]) > 6 or impl.width(r2[1]) > 6:
            continue
        res = (r1[1] == r2[1])
        if res not in (True, False):
            raise RuntimeError("== returned %r" % (res,))
        pcases.append((t1, t2, res))
        ident = impl.show(r1[1]) == impl.show(r2[1])
        eqdist["equal-identical" if res and ident else "equal-modulo-permutation/literals" if res else "different"] += 1
        both_lits = type(r1[1]) in (bool, int) and type(r2[1]) in (bool, int)
        if res and not both_lits:       # between two bare literals == is Python's builtin, not project code
            w = check_pair_truth(impl, vals, r1[1], r2[1])
            if w is not None:
                k = classify_eq(impl, r1[1], r2[1])
                if k not in pair_best or size(t1) + size(t2) < size(pair_best[k][0]) + size(pair_best[k][1]):
                    pair_best[k] = (t1, t2, r1[1], r2[1], w)
    for k in sorted(pair_best):
        report_pair(run, impl, *pair_best[k])
    dist["eq_pairs"] = eqdist

    # ---- model
    try:
        cres, pcodes = run_model(run, lit, neg, [t for t, _, _ in cases], pcases, run.tier[0])
    except RuntimeError as e:
        run.report({"kind": "model-run"}, "the model could not be evaluated: %s" % e,
                   {"theorem": "correspondence Model/Formula.v", "error": str(e)}, found_input=False)
        cres, pcodes = [], []
    run.log("model evaluated %d construction cases and %d == pairs in Coq (%.1fs)" % (len(cres), len(pcodes), time.time() - t_start))
    names = {1: "constructed object differs", 2: "rendered text differs", 3: "model reader does not read the text back"}
    ccodes = []
    for (t, exp, txt), (mshow, mtxt, code) in zip(cases, cres):
        ccodes.append(1 if mshow != exp else 2 if mtxt != txt else code)
    mism = [(i, cd) for i, cd in enumerate(ccodes) if cd not in (0, 10)]
    for i, cd in sorted(mism, key=lambda x: size(cases[x[0]][0]))[:3]:
        t, exp, txt = cases[i]
        run.report({"kind": "correspondence", "what": names.get(cd, str(cd)), "top": t[1] if t[0] != "b" else "lit"},
                   "model and implementation disagree (%s) on %s: implementation %s / %r, model %s / %r"
                   % (names.get(cd), tree_str(t), exp, txt, cres[i][0], cres[i][1]),
                   {"kind": "correspondence", "tree": tree_json(t), "implementation": [exp, txt],
                    "model": list(cres[i]), "variant": [lit, neg],
                    "theorem": "correspondence of Model/Formula.v (build/render/read) with the implementation"},
                   found_input=True)
    pm = [i for i, cd in enumerate(pcodes) if cd != 0]
    for i in sorted(pm, key=lambda j: size(pcases[j][0]) + size(pcases[j][1]))[:3]:
        t1, t2, res = pcases[i]
        run.report({"kind": "correspondence", "what": "py_eq differs"},
                   "model py_eq and Python == disagree on %s == %s: Python %s" % (tree_str(t1), tree_str(t2), res),
                   {"kind": "correspondence-eq", "tree1": tree_json(t1), "tree2": tree_json(t2), "python": res,
                    "theorem": "correspondence of Model/Formula.v (py_eq) with Connector.__eq__/ExpressionReference.__eq__"},
                   found_input=True)

    # ---- proof stage broke: say which theorem, after the search above
    if not ok:
        found = bool(run.violations) or bool(run.known_hits)
        run.report({"kind": "proof-broken", "stage": run.proof_broken[0] if run.proof_broken else "?"},
                   "the proofs of Props/C18.v no longer check: %s" % (run.proof_broken,),
                   {"theorem": "Props/C18.v", "detail": str(run.proof_broken)[:1500],
                    "search": "correspondence and evaluator search ran; see other violations" if found else
                              "no failing input found by the bounded search"},
                   found_input=False)

    # ---- evidence
    n_read = sum(1 for cd in ccodes if cd == 10)
    run.cov["evaluations"] = len(ccodes) + len(pcodes)
    nontriv = set()
    for (t, exp, txt), o in zip(cases, objs):
        if t[0] == "conn":
            nontriv.add(exp + "|" + t[1] + "|" + str(len(t[2])))
    run.cov["distinct_nontrivial"] = len(nontriv)
    run.cov["rule"] = ("construction trees: corpus, exhaustive connector-depth 1 over %d leaves with all 8 entry points "
                       "(arity 1-3 for and/or/distinct; ternary ones sampled in the quick tier), depth 2 over 5 leaves with arity<=2 "
                       "(280805 trees, 6000 / 120000 of them sampled in the quick / thorough tier), "
                       "random sort-directed trees of depth 2-4 with shared/permuted/literal-swapped subtrees and a malformed "
                       "stream; a case = one distinct tree (model result, rendered text and read-back compared); "
                       "distinct_nontrivial = distinct (constructed result, entry point, arity) classes; "
                       "pairs: permuted/literal-swapped/same-shape/random pairs of constructed formulas for ==" % len(ALL_LEAVES))
    run.cov["construction_cases"] = len(ccodes)
    run.cov["eq_pairs"] = len(pcodes)
    run.cov["texts_read_back_by_model_reader"] = n_read
    run.cov["oracle_evaluations"] = n_eval
    run.cov["skipped_wide"] = skipped_wide
    run.cov["distribution"] = {k: dict(sorted((str(a), b) for a, b in v.items())) for k, v in dist.items()}
    for i in list(range(0, len(cases), max(1, len(cases) // 6)))[:6]:
        t, exp, txt = cases[i]
        run.add_sample({"construction": tree_str(t), "result": exp, "text": txt})
    run.log("correspondence: %d cases (%d read back), %d pairs, %d mismatches" % (len(ccodes), n_read, len(pcodes), len(mism) + len(pm)))


def _raw_obj(impl, t):
    """the unsimplified object (for the 'simplified' statistic only)"""
    class R:
        pass
    if t[0] in "bi":
        return t[1]
    if t[0] == "app":
        return impl.ER(impl.Function(t[1], *[impl.sort[s] for s in t[2]]), *[_raw_obj(impl, c) for c in t[3]])
    return impl.Connector(t[1], True, *[_raw_obj(impl, c) for c in t[2]])


# --------------------------------------------------------------------------

def replay(run, path):
    """Re-runs one replay file on the implementation alone. Exit code 1 when it still fails."""
    with open(path) as fh:
        d = json.load(fh)
    rp = d.get("replay", d)
    impl = Impl()
    kind = rp.get("kind")
    vals = make_valuations()

    def env_of(j):
        for env in vals:
            if all(env[k] == v for k, v in j.items()):
                return env
        raise SystemExit("valuation not found")
    if kind == "construct":
        t = tree_of_json(rp["tree"])
        env = env_of(rp["valuation"])
        o = impl.construct(t)
        a, b = ev(eval_tree, env, t), ev(eval_obj, impl, env, o)
        print("construction :", tree_str(t))
        print("constructed  :", impl.show(o))
        print("valuation    :", rp["valuation"])
        print("raw value    :", a, " constructed value:", b)
        bad = a is not None and (b is None or not veq(a[1], b[1]))
    elif kind == "struct_eq":
        t1, t2 = tree_of_json(rp["tree1"]), tree_of_json(rp["tree2"])
        env = env_of(rp["valuation"])
        o1, o2 = impl.construct(t1), impl.construct(t2)
        a, b = ev(eval_obj, impl, env, o1), ev(eval_obj, impl, env, o2)
        print("f1 =", impl.show(o1), " f2 =", impl.show(o2), " f1 == f2:", o1 == o2)
        print("valuation:", rp["valuation"], " values:", a, b)
        bad = (o1 == o2) and ((a is None) != (b is None) or (a is not None and not veq(a[1], b[1])))
    elif kind == "print_parse":
        t = tree_of_json(rp["tree"])
        o = impl.construct(t)
        txt = impl.translate(o)
        cause = check_text(impl, o, txt)
        print("formula:", impl.show(o), " text:", repr(txt), " strict SMT-LIB reading:", cause or "ok")
        bad = cause is not None
    elif kind in ("correspondence", "correspondence-eq"):
        lit, neg = impl.detect_variant()
        if kind == "correspondence":
            t = tree_of_json(rp["tree"])
            r = impl.construct_r(t)
            exp, txt = (impl.show(r[1]), impl.translate(r[1])) if r[0] == "ok" else ("!" + r[1], "")
            cc, _ = run_model(run, lit, neg, [t], [], "rp")
            print("implementation:", exp, repr(txt), " model:", cc[0])
            bad = cc[0][0] != exp or cc[0][1] != txt or cc[0][2] == 3
        else:
            t1, t2 = tree_of_json(rp["tree1"]), tree_of_json(rp["tree2"])
            res = impl.construct(t1) == impl.construct(t2)
            _, pc = run_model(run, lit, neg, [], [(t1, t2, res)], "rp")
            print("python ==:", res, " model code:", pc)
            bad = pc[0] != 0
    else:
        print("nothing to replay on the implementation:", rp.get("theorem"))
        return 2
    print("STILL FAILING" if bad else "passes now")
    return 1 if bad else 0
