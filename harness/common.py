"""Shared machinery of the checks: Coq build, hygiene gate, Print Assumptions
parsing, cases.v evaluation with vm_compute, evidence and replay files,
known-findings matching."""
import hashlib
import json
import os
import re
import shutil
import subprocess
import sys
import time

VERIF = os.path.dirname(os.path.dirname(os.path.abspath(__file__)))
REPO = os.environ.get("GASOL_REPO", "/repo")
COQ = os.path.join(VERIF, "coq")
WORK = os.path.join(VERIF, ".work")
EVID = os.environ.get("VERIF_EVIDENCE_DIR") or os.path.join(VERIF, "evidence")  # redirected for runs against seeded changes
REPLAYS = os.path.join(VERIF, "replays")
KNOWN = os.path.join(VERIF, "known")
NCPU = os.cpu_count() or 4

COQ_TRUSTED = [
    "Coq 8.16.1 kernel (coqc), vm_compute for case evaluation; no native_compute",
    "Coq standard library (ZArith, List, Bool, Lia, String, Ascii, Permutation)",
]

BANNED = re.compile(
    r"\b(Admitted|admit|Axiom|Axioms|Parameter|Parameters|Conjecture|Hypothesis|Variable|Variables|Hypotheses)\b"
    r"|Unset\s+Guard|bypass_check|type-in-type|impredicative-set|Admit\s+Obligations|Unset\s+Universe|Unset\s+Positivity")


def sh(cmd, timeout=600, cwd=None, env=None, inp=None):
    """Run a command under a shell timeout; returns (rc, stdout+stderr)."""
    try:
        p = subprocess.run(cmd, shell=isinstance(cmd, str), cwd=cwd, env=env, input=inp,
                           stdout=subprocess.PIPE, stderr=subprocess.STDOUT, timeout=timeout, text=True)
        return p.returncode, p.stdout
    except subprocess.TimeoutExpired as e:
        out = e.stdout if isinstance(e.stdout, str) else (e.stdout or b"").decode(errors="replace")
        return 124, out + "\n[timeout after %ss]" % timeout


# --------------------------------------------------------------------------
# Coq build

SRC_DIRS = ["Ref", "Sym", "Val", "Model", "Gen", "Props"]


def write_coqproject():
    """_CoqProject is derived from the files present (Cases/ excluded), so that generated
    models are always part of the build."""
    files = []
    for d in SRC_DIRS:
        dd = os.path.join(COQ, d)
        if os.path.isdir(dd):
            files += sorted(os.path.join(d, f) for f in os.listdir(dd) if f.endswith(".v") and not f.startswith("."))
    txt = "-Q . GV\n" + "\n".join(files) + "\n"
    p = os.path.join(COQ, "_CoqProject")
    old = open(p).read() if os.path.exists(p) else None
    if old != txt:
        with open(p, "w") as fh:
            fh.write(txt)


def coq_make(targets, timeout=1500):
    """Full .vo build (never -vos) of the given targets with their dependencies.
    Serialised with a file lock so that concurrent checks do not race on the Makefile."""
    import fcntl
    with open(os.path.join(COQ, ".lock"), "w") as lk:
        fcntl.flock(lk, fcntl.LOCK_EX)
        write_coqproject()
        rc, out = sh("coq_makefile -f _CoqProject -o Makefile", cwd=COQ, timeout=60)
        if rc != 0:
            return False, "coq_makefile failed: " + out
        tg = " ".join(targets)
        rc, out = sh("timeout %d make -j%d %s" % (timeout, NCPU, tg), cwd=COQ, timeout=timeout + 30)
    return rc == 0, out


def cone_of(vfile):
    """Files (relative to coq/) in the dependency cone of vfile, via coqdep."""
    seen, todo = [], [vfile]
    while todo:
        f = todo.pop()
        if f in seen:
            continue
        seen.append(f)
        rc, out = sh("coqdep -Q . GV %s" % f, cwd=COQ, timeout=60)
        for line in out.splitlines():
            if ":" not in line:
                continue
            lhs, rhs = line.split(":", 1)
            if not lhs.strip().startswith(f[:-2] + ".vo"):
                continue
            for d in rhs.split():
                if d.endswith(".vo") and not d.startswith("/"):
                    v = d[:-1]
                    if os.path.exists(os.path.join(COQ, v)) and v not in seen:
                        todo.append(v)
    return sorted(seen)


STMT = re.compile(r"^\s*(?:Local\s+|Global\s+|#\[[^\]]*\]\s*)*(Lemma|Theorem|Corollary|Example|Fact|Remark|Proposition)\s+([A-Za-z0-9_']+)", re.M)


def count_obligations(files):
    """Number of stated lemmas/theorems/examples and number of Qed/Defined-closed proofs in files."""
    stated, closed, names = 0, 0, []
    for f in files:
        with open(os.path.join(COQ, f)) as fh:
            txt = strip_comments(fh.read())
        ms = STMT.findall(txt)
        stated += len(ms)
        names += [f + ":" + m[1] for m in ms]
        closed += len(re.findall(r"\b(Qed|Defined)\s*\.", txt))
    return stated, closed, names


def strip_comments(txt):
    out, depth, i = [], 0, 0
    while i < len(txt):
        if txt.startswith("(*", i):
            depth += 1
            i += 2
        elif txt.startswith("*)", i) and depth > 0:
            depth -= 1
            i += 2
        else:
            if depth == 0:
                out.append(txt[i])
            i += 1
    return "".join(out)


def hygiene(files):
    """Hygiene gate: no Admitted/admit/Axiom/Parameter/... outside comments in the given files.
    `Variable`/`Hypothesis` are allowed only inside a Section."""
    bad = []
    for f in files:
        with open(os.path.join(COQ, f)) as fh:
            txt = strip_comments(fh.read())
        depth = 0
        for ln, line in enumerate(txt.splitlines(), 1):
            s = line.strip()
            if re.match(r"Section\s+\w+", s):
                depth += 1
            elif re.match(r"End\s+\w+", s) and depth > 0:
                depth -= 1
            for m in BANNED.finditer(line):
                w = m.group(0)
                if w.split()[0] in ("Variable", "Variables", "Hypothesis", "Hypotheses", "Context") and depth > 0:
                    continue
                bad.append("%s:%d: %s" % (f, ln, s[:100]))
    return bad


def print_assumptions(props_file, timeout=600):
    """Re-compile Props/<f>.v and parse the output of its Print Assumptions commands.
    Returns (ok, {theorem: [axioms]}, raw)."""
    rc, out = sh("timeout %d coqc -Q . GV %s" % (timeout, props_file), cwd=COQ, timeout=timeout + 30)
    if rc != 0:
        return False, {}, out
    with open(os.path.join(COQ, props_file)) as fh:
        names = re.findall(r"Print\s+Assumptions\s+([A-Za-z0-9_'.]+)\s*\.", strip_comments(fh.read()))
    blocks = re.split(r"(?m)^(?=Closed under the global context|Axioms:)", out)
    blocks = [b for b in blocks if b.startswith("Closed under") or b.startswith("Axioms:")]
    res = {}
    for i, n in enumerate(names):
        if i >= len(blocks):
            res[n] = ["<missing output>"]
        elif blocks[i].startswith("Closed"):
            res[n] = []
        else:
            ax = re.findall(r"(?m)^([A-Za-z0-9_'.]+)\s*:", blocks[i][len("Axioms:"):])
            res[n] = ax or ["<unparsed>"]
    return True, res, out


# --------------------------------------------------------------------------
# cases.v evaluation (the Coq kernel's vm_compute runs the model)

def _private(name):
    """On-disk name of a cases file: private to this process, so that overlapping runs of checks never share a file."""
    suf = "_p%d" % os.getpid()
    return name if name.endswith(suf) else name + suf


def _remove_case(n):
    for ext in (".v", ".vo", ".glob", ".vos", ".vok"):
        try:
            os.remove(os.path.join(COQ, "Cases", n + ext))
        except OSError:
            pass
    try:
        os.remove(os.path.join(COQ, "Cases", "." + n + ".aux"))
    except OSError:
        pass


def run_cases(name, body, timeout=600):
    """Write coq/Cases/<name>_p<pid>.v with `body`, compile it, return (ok, stdout); the files are removed afterwards."""
    d = os.path.join(COQ, "Cases")
    os.makedirs(d, exist_ok=True)
    n = _private(name)
    path = os.path.join(d, n + ".v")
    with open(path, "w") as fh:
        fh.write(body)
    rc, out = sh("ulimit -s unlimited 2>/dev/null; timeout %d coqc -Q . GV Cases/%s.v" % (timeout, n),
                 cwd=COQ, timeout=timeout + 30)
    _remove_case(n)
    return rc == 0, out


def run_cases_parallel(named_bodies, timeout=900):
    """named_bodies: list of (name, body). Compiles them concurrently. Returns {name: (ok, out)} (keys are the caller's
    names; on disk every file carries the process id and is removed afterwards)."""
    d = os.path.join(COQ, "Cases")
    os.makedirs(d, exist_ok=True)
    disk = {n: _private(n) for n, _ in named_bodies}
    for n, b in named_bodies:
        with open(os.path.join(d, disk[n] + ".v"), "w") as fh:
            fh.write(b)
    import concurrent.futures as cf
    res = {}

    def one(n):
        rc, out = sh("ulimit -s unlimited 2>/dev/null; timeout %d coqc -Q . GV Cases/%s.v" % (timeout, disk[n]),
                     cwd=COQ, timeout=timeout + 30)
        _remove_case(disk[n])
        return n, (rc == 0, out)
    with cf.ThreadPoolExecutor(max_workers=NCPU) as ex:
        for n, r in ex.map(one, [n for n, _ in named_bodies]):
            res[n] = r
    return res


def parse_eval_list(out):
    """Results of successive `Eval vm_compute in ...` commands, printed by coqc as
         = <value (possibly several lines)>
         : <type (possibly several lines)>
    Returns the list of values with whitespace collapsed."""
    res, cur, mode = [], None, None
    for line in out.splitlines():
        if re.match(r"^\s*= ", line) or line.strip() == "=":
            if cur is not None:
                res.append(re.sub(r"\s+", " ", " ".join(cur)).strip())
            cur, mode = [re.sub(r"^\s*=\s?", "", line)], "val"
        elif re.match(r"^\s*: ", line) and mode == "val":
            mode = "type"
        elif mode == "val":
            cur.append(line)
    if cur is not None:
        res.append(re.sub(r"\s+", " ", " ".join(cur)).strip())
    return res


def clean_cases():
    shutil.rmtree(os.path.join(COQ, "Cases"), ignore_errors=True)


# --------------------------------------------------------------------------
# evidence, replays, known findings

class Run:
    def __init__(self, pid, tier, seed):
        self.pid, self.tier, self.seed = pid, tier, seed
        self.t0 = time.time()
        self.violations = []          # list of (key, description, replay_path, found_input)
        self.known_hits = []
        self.cov = {"obligations": 0, "discharged": 0, "checker_cmd": "", "trusted_base": list(COQ_TRUSTED),
                    "evaluations": 0, "distinct_nontrivial": 0, "rule": "", "samples": []}
        self.assumptions = []
        self.notes = []
        self.known = load_known()

    def log(self, *a):
        print("[%s %6.1fs]" % (self.pid, time.time() - self.t0), *a, flush=True)

    def add_sample(self, s, cap=8):
        if len(self.cov["samples"]) < cap:
            self.cov["samples"].append(s)

    def report(self, key, what, replay, found_input=True):
        """Report a property failure. key: dict identifying the witness class (matched against known findings)."""
        kf = match_known(self.known, self.pid, key)
        if kf is not None:
            if kf["id"] not in [k["id"] for k in self.known_hits]:
                self.known_hits.append(kf)
                print("KNOWN-FINDING: property=%s %s [%s]" % (self.pid, kf["what"], kf["id"]), flush=True)
            return False
        os.makedirs(os.path.join(REPLAYS, self.pid), exist_ok=True)
        blob = json.dumps({"property": self.pid, "key": key, "what": what, "replay": replay,
                           "found_failing_input": found_input}, indent=1, sort_keys=True, default=str)
        h = hashlib.sha1(blob.encode()).hexdigest()[:12]
        path = os.path.join(REPLAYS, self.pid, h + ".json")
        with open(path, "w") as fh:
            fh.write(blob)
        self.violations.append((key, what, path, found_input))
        return True

    def finish(self):
        wall = time.time() - self.t0
        ev = {"property_id": self.pid, "tier": self.tier, "seed": self.seed, "level": "proof",
              "coverage": self.cov, "assumptions": self.assumptions, "wall_s": round(wall, 2),
              "violations": len(self.violations),
              "known_findings_hit": [k["id"] for k in self.known_hits], "notes": self.notes}
        # keep the evidence file schema-valid whatever a check put into coverage
        cov = ev["coverage"]
        if "exhaustive" in cov and not isinstance(cov["exhaustive"], bool):
            cov["exhaustive_part"] = cov.pop("exhaustive")
        for k in ("evaluations", "distinct_nontrivial", "states", "transitions", "traces_validated_against_impl",
                  "obligations", "discharged", "programs", "disagreements_checked"):
            if k in cov and not (isinstance(cov[k], int) and not isinstance(cov[k], bool) and cov[k] >= 0):
                cov[k + "_detail"] = cov.pop(k)
        for k in ("rule", "checker_cmd", "explanation"):
            if k in cov and not isinstance(cov[k], str):
                cov[k] = json.dumps(cov[k], default=str)
        if "samples" in cov and not isinstance(cov["samples"], list):
            cov["samples"] = [cov["samples"]]
        if "trusted_base" in cov:
            cov["trusted_base"] = [str(x) for x in cov["trusted_base"]]
        os.makedirs(EVID, exist_ok=True)
        with open(os.path.join(EVID, self.pid + ".json"), "w") as fh:
            json.dump(ev, fh, indent=1, default=str)
        seen = set()
        for key, what, path, found in self.violations:
            if path in seen:
                continue
            seen.add(path)
            tail = "" if found else " no-failing-input-found"
            print("VIOLATION property=%s replay=%s%s" % (self.pid, path, tail), flush=True)
            print("   " + what[:300], flush=True)
        self.log("done: %d violation(s), %d known finding(s), wall %.1fs" %
                 (len(self.violations), len(self.known_hits), wall))
        return 1 if self.violations else 0


def load_known():
    """Known findings live in /verif/known/<property>.json (committed, never written at run time):
    {"findings": [{"id":..., "property": "Cxx", "status": "open"|"fixed", "match": {...}, "what": ...}]}.
    Only `open` entries suppress a violation; `fixed` entries suppress nothing."""
    out = []
    if not os.path.isdir(KNOWN):
        return out
    for f in sorted(os.listdir(KNOWN)):
        if f.endswith(".json"):
            with open(os.path.join(KNOWN, f)) as fh:
                d = json.load(fh)
            out += [k for k in d.get("findings", []) if k.get("status") == "open"]
    return out


def match_known(known, pid, key):
    """A known finding matches when it is for this property and every item of its `match` dict
    equals the corresponding item of the violation key."""
    for k in known:
        if k["property"] != pid:
            continue
        m = k.get("match", {})
        if m and all(key.get(a) == b for a, b in m.items()):
            return k
    return None


# --------------------------------------------------------------------------
# standard proof stage shared by every check

def proof_stage(run, props_file, gen=None, extra_targets=()):
    """(re)generate models, build the cone of Props/<pid>.v, hygiene gate, Print Assumptions.
    Returns True when every obligation of the cone is discharged."""
    if gen is not None:
        try:
            gen(run)
        except Exception as e:  # translator failed closed
            run.log("model generation failed closed:", e)
            run.proof_broken = ("generation", str(e))
            return False
    target = props_file[:-2] + ".vo"
    ok, out = coq_make([target] + list(extra_targets))
    cone = cone_of(props_file)
    stated, closed, names = count_obligations(cone)
    run.cov["obligations"] += stated
    run.cov["checker_cmd"] = "cd /verif/coq && coq_makefile -f _CoqProject -o Makefile && make %s && coqc -Q . GV %s" % (target, props_file)
    run.cov["cone_files"] = cone
    if not ok:
        tail = "\n".join(out.splitlines()[-25:])
        run.log("Coq build FAILED:\n" + tail)
        m = re.search(r'File "\./([^"]+)", line (\d+)', out)
        run.proof_broken = ("build", (m.group(1) + ":" + m.group(2)) if m else "?", tail)
        return False
    bad = hygiene(cone)
    if bad:
        run.log("hygiene gate FAILED:", bad[:5])
        run.proof_broken = ("hygiene", bad[:5])
        return False
    ok, ass, raw = print_assumptions(props_file)
    if not ok:
        run.log("Props file failed:\n" + "\n".join(raw.splitlines()[-20:]))
        run.proof_broken = ("props", raw[-2000:])
        return False
    run.cov["print_assumptions"] = ass
    allowed = set(getattr(run, "allowed_axioms", ()))
    for th, axs in ass.items():
        for a in axs:
            if a not in allowed:
                run.log("unexpected axiom", a, "under", th)
                run.proof_broken = ("axiom", th, a)
                return False
    run.cov["discharged"] += stated
    run.log("proof stage ok: %d statements in %d files, %d property theorems closed (%s)" %
            (stated, len(cone), len(ass), "no axioms" if not any(ass.values()) else "axioms: %s" % sorted({a for v in ass.values() for a in v})))
    return True
