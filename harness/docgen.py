"""Synthesis of solc combined-json asm documents from generated blocks: blocks are spliced
between tags and jumps, with nested .data, contracts without asm, pseudo pushes."""
import json
import random

from harness import blockgen


def item(name, value=None, begin=0, end=0, source=0, jump=None):
    d = {"begin": begin, "end": end, "name": name, "source": source}
    if value is not None:
        d["value"] = value
    if jump is not None:
        d["jumpType"] = jump
    return d


def text_to_items(text, rng, loc=True):
    """Plain block text -> list of asm json items (upper-case hex as solc writes it)."""
    toks = text.split()
    out = []
    i = 0
    while i < len(toks):
        t = toks[i]
        b = rng.randint(0, 3000) if loc else 0
        e = b + rng.randint(0, 200) if loc else 0
        if t == "PUSH" and i + 1 < len(toks) and toks[i + 1] in ("[tag]", "data", "#[$]", "[$]"):
            kind, v = toks[i + 1], toks[i + 2]
            if kind in ("#[$]", "[$]"):
                v = "%064X" % int(v, 16)
            elif kind == "data":
                v = "%064X" % int(v, 16)
            out.append(item("PUSH " + kind, v, b, e)); i += 3
        elif t == "PUSH":
            out.append(item("PUSH", "%X" % int(toks[i + 1], 16), b, e)); i += 2
        elif t in ("PUSHIMMUTABLE", "PUSHLIB", "ASSIGNIMMUTABLE"):
            out.append(item(t, toks[i + 1], b, e)); i += 2
        elif t == "tag":
            out.append(item("tag", toks[i + 1], b, e)); i += 2
        elif t in ("JUMP", "JUMPI") and False:
            out.append(item(t, None, b, e)); i += 1
        else:
            out.append(item(t, None, b, e, jump=("[in]" if t == "JUMP" and rng.random() < 0.3 else None))); i += 1
    return out


def code_from_blocks(texts, rng, first_tag=1):
    """Each block gets a tag/JUMPDEST header (except the first) and ends with a jump/terminal."""
    code = []
    tag = first_tag
    for k, t in enumerate(texts):
        if k > 0:
            code.append(item("tag", str(tag), rng.randint(0, 3000), 0)); tag += 1
            code.append(item("JUMPDEST", None, rng.randint(0, 3000), 0))
        its = text_to_items(t, rng)
        last = its[-1]["name"] if its else ""
        code += its
        if last not in ("JUMP", "JUMPI", "STOP", "RETURN", "REVERT", "INVALID"):
            code.append(item("PUSH [tag]", str(rng.randint(1, max(1, len(texts)))), 0, 0))
            code.append(item("JUMP", None, 0, 0, jump="[out]" if rng.random() < 0.5 else None))
    return code, tag


def _twin_text(t):
    """A near copy of a block: every PUSH constant and tag number gets one more digit (PUSH 1 -> PUSH 10)."""
    toks = t.split()
    out = []
    i = 0
    while i < len(toks):
        if toks[i] == "PUSH" and i + 2 < len(toks) and toks[i + 1] == "[tag]":
            out += ["PUSH", "[tag]", toks[i + 2] + "1"]; i += 3
        elif toks[i] == "PUSH" and i + 1 < len(toks) and toks[i + 1] not in ("[tag]", "data", "#[$]", "[$]"):
            out += ["PUSH", (toks[i + 1] + "0")[-64:]]; i += 2
        else:
            out.append(toks[i]); i += 1
    return " ".join(out)


FAILING_BLOCKS = ["PC DUP1 ADD SWAP1 POP", "PC PUSH 1 ADD"]     # the front end raises on the value of PC


def document(seed, nblocks=6, ncontracts=1, with_noasm=True, max_len=14, multi_data=None, twin=False, failing=False, **kw):
    """multi_data: the creation assembly has two code-bearing entries under .data (a contract deploying another one);
    twin: a second contract with the same short name in another source file whose blocks are near copies;
    failing: one runtime block on which specification generation raises."""
    rng = random.Random(seed)
    contracts = {}
    first_blocks = None
    for c in range(ncontracts):
        init = blockgen.gen_blocks(rng.getrandbits(32), max(1, nblocks // 3), max_len=max_len, allow_terminal=False, **kw)
        runb = blockgen.gen_blocks(rng.getrandbits(32), nblocks, max_len=max_len, allow_terminal=False, **kw)
        # blocks GASOL improves (so they get a log entry) that contain a byte store, a word store and a storage write
        runb.insert(rng.randint(0, len(runb)), rng.choice([
            "PUSH 3 PUSH 4 ADD DUP2 MSTORE8", "PUSH 3 PUSH 4 ADD DUP2 MSTORE8 PUSH 0 PUSH 1 ADD POP",
            "DUP1 PUSH 0 ADD PUSH 1f MSTORE8 PUSH 2 PUSH 3 MUL DUP2 SSTORE", "PUSH 1 PUSH 2 ADD PUSH 40 MSTORE PUSH 5 PUSH 0 ADD DUP2 MSTORE8"]))
        if failing and c == 0:
            runb.insert(rng.randint(1, max(1, len(runb) - 1)), rng.choice(FAILING_BLOCKS))
        if first_blocks is None:
            first_blocks = (init, runb)
        icode, tag = code_from_blocks(init, rng)
        rcode, tag = code_from_blocks(runb, rng, tag)
        data = {"0": {".auxdata": "a264697066735822%040x" % rng.getrandbits(160), ".code": rcode}}
        if rng.random() < 0.4:
            sub, _ = code_from_blocks(blockgen.gen_blocks(rng.getrandbits(32), 2, max_len=8, allow_terminal=False), rng, 50)
            data["0"][".data"] = {"0": {".auxdata": "a2646970", ".code": sub}, "A1B2": "6080604052"}
        if multi_data if multi_data is not None else rng.random() < 0.35:
            sub, _ = code_from_blocks(blockgen.gen_blocks(rng.getrandbits(32), 3, max_len=10, allow_terminal=False), rng, 70)
            data["1"] = {".auxdata": "a264697066735822%040x" % rng.getrandbits(160), ".code": sub}
            if rng.random() < 0.5:
                data["1"][".data"] = {"C3D4": "60806040"}
        asm = {".code": icode, ".data": data}
        if rng.random() < 0.5:
            asm["sourceList"] = ["contracts/C%d.sol" % c, "#utility.yul"]
        contracts["contracts/C%d.sol:C%d" % (c, c)] = {"asm": asm}
    if twin and first_blocks:
        init, runb = first_blocks
        icode, tag = code_from_blocks([_twin_text(t) for t in init], rng)
        rcode, tag = code_from_blocks([_twin_text(t) for t in runb], rng, tag)
        contracts["v2/C0.sol:C0"] = {"asm": {".code": icode, ".data": {"0": {".auxdata": "a264697066735822%040x" % rng.getrandbits(160),
                                                                           ".code": rcode}}}}
    if with_noasm:
        contracts["contracts/I.sol:I"] = {"asm": None}
    return {"contracts": contracts, "version": "0.8.17+commit.8df45f5f.Linux.g++"}


def dump(doc, path):
    with open(path, "w") as fh:
        json.dump(doc, fh)
