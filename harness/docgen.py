"""Synthesis of solc combined-json asm documents from generated blocks: blocks are spliced
between tags and jumps, with nested .data, contracts without asm, pseudo pushes."""
import json
import random

from harness import blockgen


def item(name, value=None, begin=0, end=0, source=0, jump=None):
    d = {"begin": begin, "end": end, "name": name, "source": source}
    if value is not None:
        d["value"] = value
    if jump is not None:
        d["jumpType"] = jump
    return d


def text_to_items(text, rng, loc=True):
    """Plain block text -> list of asm json items (upper-case hex as solc writes it)."""
    toks = text.split()
    out = []
    i = 0
    while i < len(toks):
        t = toks[i]
        b = rng.randint(0, 3000) if loc else 0
        e = b + rng.randint(0, 200) if loc else 0
        if t == "PUSH" and i + 1 < len(toks) and toks[i + 1] in ("[tag]", "data", "#[$]", "[$]"):
            kind, v = toks[i + 1], toks[i + 2]
            if kind in ("#[$]", "[$]"):
                v = "%064X" % int(v, 16)
            elif kind == "data":
                v = "%064X" % int(v, 16)
            out.append(item("PUSH " + kind, v, b, e)); i += 3
        elif t == "PUSH":
            out.append(item("PUSH", "%X" % int(toks[i + 1], 16), b, e)); i += 2
        elif t in ("PUSHIMMUTABLE", "PUSHLIB", "ASSIGNIMMUTABLE"):
            out.append(item(t, toks[i + 1], b, e)); i += 2
        elif t == "tag":
            out.append(item("tag", toks[i + 1], b, e)); i += 2
        elif t in ("JUMP", "JUMPI") and False:
            out.append(item(t, None, b, e)); i += 1
        else:
            out.append(item(t, None, b, e, jump=("[in]" if t == "JUMP" and rng.random() < 0.3 else None))); i += 1
    return out


def code_from_blocks(texts, rng, first_tag=1):
    """Each block gets a tag/JUMPDEST header (except the first) and ends with a jump/terminal."""
    code = []
    tag = first_tag
    for k, t in enumerate(texts):
        if k > 0:
            code.append(item("tag", str(tag), rng.randint(0, 3000), 0)); tag += 1
            code.append(item("JUMPDEST", None, rng.randint(0, 3000), 0))
        its = text_to_items(t, rng)
        last = its[-1]["name"] if its else ""
        code += its
        if last not in ("JUMP", "JUMPI", "STOP", "RETURN", "REVERT", "INVALID"):
            code.append(item("PUSH [tag]", str(rng.randint(1, max(1, len(texts)))), 0, 0))
            code.append(item("JUMP", None, 0, 0, jump="[out]" if rng.random() < 0.5 else None))
    return code, tag


def document(seed, nblocks=6, ncontracts=1, with_noasm=True, max_len=14, **kw):
    rng = random.Random(seed)
    contracts = {}
    for c in range(ncontracts):
        init = blockgen.gen_blocks(rng.getrandbits(32), max(1, nblocks // 3), max_len=max_len, allow_terminal=False, **kw)
        runb = blockgen.gen_blocks(rng.getrandbits(32), nblocks, max_len=max_len, allow_terminal=False, **kw)
        icode, tag = code_from_blocks(init, rng)
        rcode, tag = code_from_blocks(runb, rng, tag)
        data = {"0": {".auxdata": "a264697066735822%040x" % rng.getrandbits(160), ".code": rcode}}
        if rng.random() < 0.4:
            sub, _ = code_from_blocks(blockgen.gen_blocks(rng.getrandbits(32), 2, max_len=8, allow_terminal=False), rng, 50)
            data["0"][".data"] = {"0": {".auxdata": "a2646970", ".code": sub}, "A1B2": "6080604052"}
        asm = {".code": icode, ".data": data}
        if rng.random() < 0.5:
            asm["sourceList"] = ["contracts/C%d.sol" % c, "#utility.yul"]
        contracts["contracts/C%d.sol:C%d" % (c, c)] = {"asm": asm}
    if with_noasm:
        contracts["contracts/I.sol:I"] = {"asm": None}
    return {"contracts": contracts, "version": "0.8.17+commit.8df45f5f.Linux.g++"}


def dump(doc, path):
    with open(path, "w") as fh:
        json.dump(doc, fh)
