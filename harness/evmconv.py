"""Conversion of GASOL assembly items (disasm, value) to the Coq instruction type
`GV.Ref.EVM.instr` (text), with deterministic interning of names.

This is trusted glue: it decides which opcode names mean which constructor."""

OP1 = {"ISZERO": "ISZERO", "NOT": "NOT"}
OP2 = {n: n for n in ["ADD", "MUL", "SUB", "DIV", "SDIV", "MOD", "SMOD", "EXP", "SIGNEXTEND", "LT", "GT", "SLT",
                      "SGT", "EQ", "AND", "OR", "XOR", "BYTE", "SHL", "SHR", "SAR"]}
OP3 = {"ADDMOD": "ADDMOD", "MULMOD": "MULMOD"}
# fixed ids (Ref/EVM.v): ADDRESS 1, ORIGIN 2, CALLER 3, COINBASE 4, SELFBALANCE 5; unary BALANCE 1
ENV0 = {"ADDRESS": 1, "ORIGIN": 2, "CALLER": 3, "COINBASE": 4, "SELFBALANCE": 5, "CALLVALUE": 6,
        "CALLDATASIZE": 7, "CODESIZE": 8, "GASPRICE": 9, "TIMESTAMP": 10, "NUMBER": 11, "DIFFICULTY": 12,
        "PREVRANDAO": 12, "GASLIMIT": 13, "CHAINID": 14, "BASEFEE": 15, "RETURNDATASIZE": 16}
ENV1 = {"BALANCE": 1, "CALLDATALOAD": 2, "EXTCODESIZE": 3, "EXTCODEHASH": 4, "BLOCKHASH": 5}
MEMOPS = {"MLOAD": "IMload", "MSTORE": "IMstore", "MSTORE8": "IMstore8", "SLOAD": "ISload", "SSTORE": "ISstore",
          "KECCAK256": "IKeccak", "SHA3": "IKeccak"}
# events: name -> (inputs, outputs); the instructions GASOL never optimizes across
EVENTS = {"LOG0": (2, 0), "LOG1": (3, 0), "LOG2": (4, 0), "LOG3": (5, 0), "LOG4": (6, 0),
          "CALLDATACOPY": (3, 0), "CODECOPY": (3, 0), "EXTCODECOPY": (4, 0), "RETURNDATACOPY": (3, 0),
          "CALL": (7, 1), "STATICCALL": (6, 1), "DELEGATECALL": (6, 1), "CREATE": (3, 1), "CREATE2": (4, 1),
          "ASSIGNIMMUTABLE": (2, 0), "GAS": (0, 1),
          "JUMP": (1, 0), "JUMPI": (2, 0), "STOP": (0, 0), "RETURN": (2, 0), "REVERT": (2, 0), "INVALID": (0, 0),
          "SELFDESTRUCT": (1, 0), "tag": (0, 0), "JUMPDEST": (0, 0)}
PSEUDO_PUSH = {"PUSH [tag]", "PUSH #[$]", "PUSH [$]", "PUSH data", "PUSHLIB", "PUSHIMMUTABLE", "PUSHDEPLOYADDRESS",
               "PUSHSIZE"}


HEX_VALUED_PSEUDO = {"PUSH data", "PUSH [$]", "PUSH #[$]"}


class Unsupported(Exception):
    pass


class Interner:
    """Stable ids for pseudo-push operands and event kinds within one comparison."""

    def __init__(self):
        self.sym, self.ev = {}, {}

    def sym_id(self, key):
        return self.sym.setdefault(key, 100 + len(self.sym))

    def ev_id(self, key):
        return self.ev.setdefault(key, 100 + len(self.ev))


def item_to_coq(disasm, value, it):
    """One assembly item -> Coq text of an `instr`."""
    d = disasm
    if d == "PUSH0":
        return "IPush 0"
    if d == "PUSH":
        v = int(str(value), 16)
        if not (0 <= v < 2 ** 256):
            raise Unsupported("PUSH constant out of range: %s" % value)
        return "IPush %d" % v
    if d in PSEUDO_PUSH:
        v = str(value)
        if d in HEX_VALUED_PSEUDO:
            # the operand is a hexadecimal number (data hash, sub-assembly index): GASOL re-emits it in lower case and
            # without leading zeros; it is the same real value
            v = v.lower().lstrip("0") or "0"
        return "IPushSym %d" % it.sym_id((d, v))
    if d == "POP":
        return "IPop"
    if d.startswith("DUP") and d[3:].isdigit():
        return "(IDup %d)" % int(d[3:])
    if d.startswith("SWAP") and d[4:].isdigit():
        return "(ISwap %d)" % int(d[4:])
    if d in OP1:
        return "(IOp1 %s)" % OP1[d]
    if d in OP2:
        return "(IOp2 %s)" % OP2[d]
    if d in OP3:
        return "(IOp3 %s)" % OP3[d]
    if d in ENV0:
        return "(IEnv0 %d)" % ENV0[d]
    if d in ENV1:
        return "(IEnv1 %d)" % ENV1[d]
    if d in MEMOPS:
        return MEMOPS[d]
    if d in EVENTS:
        nin, nout = EVENTS[d]
        key = (d, str(value)) if d in ("ASSIGNIMMUTABLE",) else (d, "")
        return "(IEvent %d %d %d)" % (it.ev_id(key), nin, nout)
    raise Unsupported("opcode outside the modelled vocabulary: %s" % d)


def fix(s):
    # constructors with arguments need parentheses inside a list
    return s if s.startswith("(") or " " not in s else "(" + s + ")"


def block_to_coq(items, it):
    """items: list of (disasm, value). Returns Coq text of `list instr`."""
    return "[" + "; ".join(fix(item_to_coq(d, v, it)) for d, v in items) + "]"


def items_of_block(asm_block):
    return [(i.disasm, i.value) for i in asm_block.instructions]


def split_events(items):
    """Cut a block at event instructions: returns (segments, events); len(segments) = len(events)+1."""
    segs, evs, cur = [], [], []
    for d, v in items:
        if d in EVENTS:
            segs.append(cur)
            evs.append((d, v))
            cur = []
        else:
            cur.append((d, v))
    segs.append(cur)
    return segs, evs
