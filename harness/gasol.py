"""Driving GASOL (the implementation under /repo or $GASOL_REPO) from the harness.

Everything runs in forked worker processes with stdout silenced, a private
scratch directory, an address-space limit and a hard per-case timeout (constant
folding of shifts with huge constants does not return; a single C-level big-int
operation cannot be interrupted by a signal)."""
import io
import multiprocessing as mp
import os
import resource
import select
import shutil
import sys
import time
import traceback
import uuid

from harness import common


def make_params(opts=(), input_file="verif_input.txt"):
    """OptimizationParams as main_gasol builds them; opts e.g. ["-greedy", "-size"]."""
    from argparse import ArgumentParser
    import gasol_asm
    from global_params.options import OptimizationParams
    import global_params.constants as constants
    ap = ArgumentParser()
    gasol_asm.options_gasol(ap)
    args = ap.parse_args([input_file, "-bl"] + list(opts))
    p = OptimizationParams()
    p.parse_args(args)
    return p


def setup_process(opts=(), input_file="verif_input.txt"):
    """Mimics main_gasol/execute_gasol initialisation in this process and returns params."""
    import gasol_asm
    import global_params.constants as constants
    import global_params.paths as paths
    p = make_params(opts, input_file)
    gasol_asm.init()
    if p.split_storage:
        constants.append_store_instructions_to_split()
    constants._set_push0(p.push0)
    gasol_asm.modify_file_names(p)
    # private temp dir (never /tmp): rebind the module attributes GASOL reads at use time
    base = os.path.join(common.WORK, "gasol_tmp") + "/"
    os.makedirs(base, exist_ok=True)
    paths.tmp_path = base
    paths.gasol_folder = "gasol_" + uuid.uuid4().hex
    paths.gasol_path = base + paths.gasol_folder + "/"
    paths.json_path = paths.gasol_path + "jsons"
    paths.smt_encoding_path = paths.gasol_path + "smt_encoding/"
    paths.solutions_path = paths.gasol_path + "solutions/"
    paths.dot_path = paths.gasol_path + "dot/"
    paths.csv_file = paths.gasol_path + "solutions/statistics.csv"
    if p.smt_solver == "z3":
        import smt_encoding.solver.z3_executable as z3e
        if hasattr(z3e, "z3_exec"):
            z3e.z3_exec = "/usr/bin/z3"
        paths.z3_exec = "/usr/bin/z3"
    return p


def cleanup_process():
    import global_params.paths as paths
    shutil.rmtree(paths.gasol_path, ignore_errors=True)


def parse_block(text, name="block0"):
    """Plain-text block -> AsmBlock (first block)."""
    from sfs_generator.parser_asm import parse_blocks_from_plain_instructions
    return parse_blocks_from_plain_instructions(text, name, "")[0]


def optimize_block_text(text, params):
    """Runs the per-block pipeline exactly as optimize_isolated_asm_block does:
    optimize, compare, keep or revert. Returns dict."""
    import gasol_asm
    from copy import deepcopy
    blocks = []
    from sfs_generator.parser_asm import parse_blocks_from_plain_instructions
    out = []
    for old in parse_blocks_from_plain_instructions(text, "block", ""):
        new, log, stats = gasol_asm.optimize_asm_block_asm_format(old, params)
        eq, reason = gasol_asm.compare_asm_block_asm_format(old, new, params)
        kept = new if eq else old
        out.append({"old": old.to_plain(), "cand": new.to_plain(), "eq": eq, "reason": reason,
                    "new": kept.to_plain(), "log": log,
                    "rules": [s.get("rules") for s in stats]})
    return out


# ---------------------------------------------------------------------------
# isolated parallel map

def _worker(conn, fn, init, initargs, workdir, mem_gb, quiet):
    os.makedirs(workdir, exist_ok=True)
    os.chdir(workdir)
    if quiet:
        dn = os.open(os.devnull, os.O_WRONLY)
        os.dup2(dn, 1)
        os.dup2(dn, 2)
    if mem_gb:
        lim = int(mem_gb * (1 << 30))
        try:
            resource.setrlimit(resource.RLIMIT_AS, (lim, lim))
        except Exception:
            pass
    sys.setrecursionlimit(10000)
    state = None
    try:
        if init is not None:
            state = init(*initargs)
    except Exception:
        conn.send(("init-failed", traceback.format_exc()))
        return
    conn.send(("ready", None))
    while True:
        try:
            msg = conn.recv()
        except EOFError:
            return
        if msg is None:
            return
        idx, item = msg
        try:
            r = fn(state, item)
            conn.send((idx, ("ok", r)))
        except MemoryError:
            conn.send((idx, ("memory", "MemoryError")))
        except BaseException as e:  # noqa
            conn.send((idx, ("exc", "%s: %s" % (type(e).__name__, str(e)[:300]),)))


def pmap(fn, items, init=None, initargs=(), timeout=30, procs=None, mem_gb=4, quiet=True, fresh_each=False):
    """Apply fn(state, item) to every item in forked workers.
    Returns a list of (status, value): status in ok | exc | memory | timeout | crash.
    fresh_each=True starts a new worker process per item (fresh module state)."""
    procs = procs or common.NCPU
    items = list(items)
    results = [None] * len(items)
    ctx = mp.get_context("fork")
    pending = list(range(len(items)))[::-1]
    workers = []
    base = os.path.join(common.WORK, "w_" + uuid.uuid4().hex[:8])

    def spawn(k):
        pa, ch = ctx.Pipe()
        pr = ctx.Process(target=_worker, args=(ch, fn, init, initargs, os.path.join(base, str(k)), mem_gb, quiet))
        pr.daemon = True
        pr.start()
        ch.close()
        return {"p": pr, "c": pa, "busy": None, "t": None, "ready": False, "k": k}

    for k in range(min(procs, max(1, len(items)))):
        workers.append(spawn(k))
    try:
        while pending or any(w["busy"] is not None for w in workers):
            for w in workers:
                if w["ready"] and w["busy"] is None and pending:
                    i = pending.pop()
                    w["c"].send((i, items[i]))
                    w["busy"], w["t"] = i, time.time()
            conns = [w["c"] for w in workers]
            rl, _, _ = select.select(conns, [], [], 0.2)
            now = time.time()
            for wi, w in enumerate(workers):
                if w["c"] in rl:
                    try:
                        msg = w["c"].recv()
                    except (EOFError, ConnectionResetError):
                        if w["busy"] is not None:
                            results[w["busy"]] = ("crash", "worker died")
                        w["p"].join(1)
                        workers[wi] = spawn(w["k"])
                        continue
                    if msg[0] == "ready":
                        w["ready"] = True
                    elif msg[0] == "init-failed":
                        raise RuntimeError("worker init failed: " + msg[1])
                    else:
                        results[msg[0]] = msg[1]
                        w["busy"] = None
                        if fresh_each:
                            w["c"].send(None)
                            w["p"].join(2)
                            workers[wi] = spawn(w["k"])
                elif w["busy"] is not None and now - w["t"] > timeout:
                    results[w["busy"]] = ("timeout", timeout)
                    w["p"].kill()
                    w["p"].join(1)
                    workers[wi] = spawn(w["k"])
    finally:
        for w in workers:
            try:
                w["c"].send(None)
            except Exception:
                pass
        for w in workers:
            w["p"].join(1)
            if w["p"].is_alive():
                w["p"].kill()
        shutil.rmtree(base, ignore_errors=True)
    return results
