"""./check <Cxx> [--tier quick|thorough] [--replay file]"""
import argparse
import importlib
import os
import sys
import traceback

from harness import common


def main():
    ap = argparse.ArgumentParser()
    ap.add_argument("pid")
    ap.add_argument("--tier", default=os.environ.get("VERIF_TIER", "quick"), choices=["quick", "thorough"])
    ap.add_argument("--replay", default=None)
    ap.add_argument("--seed", type=int, default=int(os.environ.get("VERIF_SEED", "20260923")))
    a = ap.parse_args()
    pid = a.pid.upper()
    run = common.Run(pid, a.tier, a.seed)
    run.proof_broken = None
    try:
        mod = importlib.import_module("harness." + pid.lower())
    except ImportError as e:
        print("no check for", pid, e)
        return 2
    try:
        if a.replay:
            return mod.replay(run, a.replay)
        mod.check(run)
    except Exception:
        traceback.print_exc()
        run.report({"kind": "check-crashed"}, "the check itself crashed: " + traceback.format_exc()[-400:],
                   {"traceback": traceback.format_exc()}, found_input=False)
    return run.finish()


if __name__ == "__main__":
    sys.exit(main())
