"""Shared driver: run GASOL's per-block pipeline on block texts under an option set and
judge the emitted blocks with the Coq validator `equiv_block` (vm_compute), searching a
distinguishing state with `Val.Search.differ` when the validator rejects."""
import os
import itertools
import json
import re

from harness import common, gasol, evmconv

COQ_HDR = ("From Coq Require Import ZArith List Bool.\nImport ListNotations.\n"
           "From GV Require Import Ref.Word Ref.EVM Sym.Term Sym.SymExec Val.Equiv Val.Search.\n"
           "Open Scope Z_scope.\n")


def _init(opts):
    return gasol.setup_process(opts)


def _opt_one(params, text):
    """Worker: the keep-or-revert pipeline of optimize_isolated_asm_block for every block in text."""
    import gasol_asm
    from sfs_generator.parser_asm import parse_blocks_from_plain_instructions
    out = []
    for old in parse_blocks_from_plain_instructions(text, "block", ""):
        new, log, stats = gasol_asm.optimize_asm_block_asm_format(old, params)
        eq, reason = gasol_asm.compare_asm_block_asm_format(old, new, params)
        kept = new if eq else old
        out.append({"old": evmconv.items_of_block(old), "cand": evmconv.items_of_block(new),
                    "new": evmconv.items_of_block(kept), "eq": bool(eq), "reason": str(reason),
                    "old_plain": old.to_plain(), "new_plain": kept.to_plain(), "cand_plain": new.to_plain(),
                    "log": log, "rules": [s.get("rules") for s in stats],
                    "costs": {"old": [old.gas_spent, old.bytes_required, old.length],
                              "new": [kept.gas_spent, kept.bytes_required, kept.length]}})
    gasol.cleanup_process()
    return out


def run_gasol(texts, opts, timeout=40):
    """Returns list of (status, value) per text."""
    return gasol.pmap(_opt_one, texts, init=_init, initargs=(list(opts),), timeout=timeout)


_BUILT = [False]


def ensure_built():
    """The validator and the search module must be compiled (consistently) before cases files use them."""
    if not _BUILT[0]:
        ok, out = common.coq_make(["Val/Search.vo", "Val/EquivProofs.vo"])
        if not ok:
            raise RuntimeError("cannot build the validator: " + out[-800:])
        _BUILT[0] = True


def coq_pairs(pairs, name, chunk=150):
    """pairs: list of (old_items, new_items). Returns list of verdicts: True/False/None(unsupported)."""
    name = "%s_%d" % (name, os.getpid())      # private file names: runs of the checks may overlap
    ensure_built()
    verdict = [None] * len(pairs)
    enc = []
    for i, (a, b) in enumerate(pairs):
        it = evmconv.Interner()
        try:
            enc.append((i, evmconv.block_to_coq(a, it), evmconv.block_to_coq(b, it)))
        except evmconv.Unsupported:
            pass
    files = []
    for c in range(0, len(enc), chunk):
        part = enc[c:c + chunk]
        body = COQ_HDR + "Definition cases : list (list instr * list instr) := [\n" + \
            ";\n".join("(%s, %s)" % (a, b) for _, a, b in part) + "].\n" + \
            "Eval vm_compute in map (fun p => equiv_block (fst p) (snd p)) cases.\n"
        files.append(("%s_%d" % (name, c // chunk), body, part))
    res = common.run_cases_parallel([(n, b) for n, b, _ in files])
    for n, _, part in files:
        ok, out = res[n]
        if not ok:
            raise RuntimeError("coqc failed on %s: %s" % (n, out[-600:]))
        vals = re.findall(r"\b(true|false)\b", common.parse_eval_list(out)[-1])
        if len(vals) != len(part):
            raise RuntimeError("unexpected coq output for %s" % n)
        for (i, _, _), v in zip(part, vals):
            verdict[i] = (v == "true")
    return verdict


GRID = [0, 1, 2, 31, 32, 33, 64, 255, 256, 2 ** 160 - 1, 2 ** 255 - 1, 2 ** 255, 2 ** 256 - 2, 2 ** 256 - 1]


def stacks_for(need, rng, n=40):
    """Stack grid: all-equal small values (aliasing), boundary values, mixed, random."""
    need = max(need, 0)
    st = []
    for v in [0, 1, 32, 0x40, 0x60, 0x80, 0xa0, 2 ** 255, 2 ** 256 - 1]:
        st.append([v] * need)
    for _ in range(n):
        k = rng.random()
        if k < 0.4:
            st.append([rng.choice([0, 1, 2, 0x10, 0x1f, 0x20, 0x21, 0x3f, 0x40, 0x41, 0x60, 0x80, 0xa0]) for _ in range(need)])
        elif k < 0.8:
            st.append([rng.choice(GRID) for _ in range(need)])
        else:
            st.append([rng.getrandbits(256) for _ in range(need)])
    return st


def search_witness(old_items, new_items, rng, name):
    """Search a concrete state on which the reference semantics tells the two blocks apart.
    Segment-wise (between events). Returns dict or None."""
    name = "%s_%d" % (name, os.getpid())      # private file names: runs of the checks may overlap
    ensure_built()
    segs1, ev1 = evmconv.split_events(old_items)
    segs2, ev2 = evmconv.split_events(new_items)
    if [(d, str(v)) for d, v in ev1] != [(d, str(v)) for d, v in ev2]:
        return {"kind": "events-differ", "old_events": ev1, "new_events": ev2}
    for si, (a, b) in enumerate(zip(segs1, segs2)):
        if a == b:
            continue
        it = evmconv.Interner()
        try:
            ca, cb = evmconv.block_to_coq(a, it), evmconv.block_to_coq(b, it)
        except evmconv.Unsupported:
            continue
        # first ask for the needed depth
        ok, out = common.run_cases(name + "_need", COQ_HDR + "Eval vm_compute in [Z.of_nat (need %s); Z.of_nat (need %s)]." % (ca, cb))
        nums = re.findall(r"-?\d+", common.parse_eval_list(out)[-1]) if ok else ["0", "0"]
        need = max(int(x) for x in nums) if nums else 0
        stacks = stacks_for(need, rng)
        tests = [(seed, s) for seed in (0, 1, 2, 3, 4) for s in stacks]
        body = COQ_HDR + "Definition b1 := %s.\nDefinition b2 := %s.\n" % (ca, cb) + \
            "Eval vm_compute in map (fun t => differ (fst t) (snd t) b1 b2) [\n" + \
            ";\n".join("(%d, [%s])" % (seed, "; ".join(str(x) for x in s)) for seed, s in tests) + "].\n"
        ok, out = common.run_cases(name + "_search", body, timeout=600)
        if not ok:
            continue
        codes = [int(x) for x in re.findall(r"-?\d+", common.parse_eval_list(out)[-1])]
        for (seed, s), c in zip(tests, codes):
            if c in (1, 2, 3, 4):
                return {"kind": {1: "candidate-underflows", 2: "stack-differs", 3: "memory-differs", 4: "storage-differs"}[c],
                        "segment": si, "old_segment": " ".join(_plain(a)), "new_segment": " ".join(_plain(b)),
                        "state": {"env_seed": seed, "stack_top_first": [hex(x) for x in s],
                                  "environment/memory/storage": "GV.Val.Search.test_env/test_mem/test_sto at this seed"}}
    return None


def _plain(items):
    out = []
    for d, v in items:
        out.append(d if v is None else "%s %s" % (d, v))
    return out
