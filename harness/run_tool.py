"""Run the whole GASOL tool exactly as `python gasol_asm.py <args>` does, except that its
temporary directory lives under /verif/.work (never /tmp) and that `-solver z3` finds the system
z3 (the bin/ executables shipped in the repository are empty files)."""
import os
import sys
import uuid


def main():
    from harness import common
    import global_params.paths as paths
    base = os.path.join(common.WORK, "gasol_tmp") + "/"
    os.makedirs(base, exist_ok=True)
    paths.tmp_path = base
    paths.gasol_folder = "gasol_" + uuid.uuid4().hex
    paths.gasol_path = base + paths.gasol_folder + "/"
    paths.json_path = paths.gasol_path + "jsons"
    paths.smt_encoding_path = paths.gasol_path + "smt_encoding/"
    paths.solutions_path = paths.gasol_path + "solutions/"
    paths.dot_path = paths.gasol_path + "dot/"
    paths.csv_file = paths.gasol_path + "solutions/statistics.csv"
    paths.z3_exec = "/usr/bin/z3"
    try:
        import smt_encoding.solver.z3_executable as z3e
        if hasattr(z3e, "z3_exec"):
            z3e.z3_exec = "/usr/bin/z3"
    except Exception:
        pass
    import gasol_asm
    if "--prefer-greedy" in sys.argv:
        # scenario injection (not a GASOL option): the solver's answer counts as worse than the greedy algorithm's
        # whenever the latter saves gas -- what happens by itself when the solver runs into its time limit
        sys.argv.remove("--prefer-greedy")
        orig = gasol_asm.compare_best_block

        def prefer(original_seq, optimized_superopt, optimized_greedy, criterion):
            seq, tag = orig(original_seq, optimized_superopt, optimized_greedy, criterion)
            if tag in ("tie", "superopt") and optimized_greedy is not None:
                if sum(i.gas_spent for i in original_seq) - sum(i.gas_spent for i in optimized_greedy) > 0:
                    return optimized_greedy, "greedy"
            return seq, tag
        gasol_asm.compare_best_block = prefer
    sys.argv = ["gasol_asm.py"] + sys.argv[1:]
    try:
        gasol_asm.main_gasol()
    finally:
        import shutil
        shutil.rmtree(paths.gasol_path, ignore_errors=True)


if __name__ == "__main__":
    main()
