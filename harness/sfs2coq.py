"""SFS JSON (the specification GASOL's front end produces) -> Coq term text for Sym/Spec.v.

Interning is deterministic:
  * stack variables "s(k)" -> k; any other variable name gets the next free number above the
    largest k, in order of first appearance (vars, src_ws, tgt_ws, user_instrs in order);
  * instruction ids -> position in "user_instrs";
  * integers (also strings of digits) -> OConst.
`Tables` keeps the reverse maps so a Coq verdict (positions, interned ids) can be printed
with the original names in a replay.

Fail closed: anything outside the format raises SfsFormatError.
"""
import re

VAR = re.compile(r"^s\((\d+)\)$")
PUSHLIT = re.compile(r"^PUSH(\d*) (0x)?([0-9a-fA-F]+)$")

HEADER = ("From Coq Require Import ZArith List String.\n"
          "From GV Require Import Sym.Spec Val.Realizes.\n"
          "Import ListNotations.\nOpen Scope string_scope.\n")


class SfsFormatError(Exception):
    pass


def _is_int(x):
    if isinstance(x, bool):
        return False
    if isinstance(x, int):
        return True
    return isinstance(x, str) and re.fullmatch(r"-?\d+", x) is not None


class Tables:
    def __init__(self):
        self.var = {}      # name -> number
        self.ins = {}      # id string -> number
        self.var_rev = {}
        self.ins_rev = {}

    def as_dict(self):
        return {"vars": {str(v): k for k, v in self.var.items()},
                "ids": {str(v): k for k, v in self.ins.items()}}


def build_tables(sfs):
    t = Tables()
    names = []

    def see(x):
        if _is_int(x):
            return
        if not isinstance(x, str):
            raise SfsFormatError("stack element of unexpected type: %r" % (x,))
        if x not in names:
            names.append(x)
    for x in sfs.get("vars", []):
        see(x)
    for x in sfs["src_ws"]:
        see(x)
    for x in sfs["tgt_ws"]:
        see(x)
    for ins in sfs["user_instrs"]:
        for x in ins["inpt_sk"]:
            see(x)
        for x in ins["outpt_sk"]:
            see(x)
    top = -1
    for n in names:
        m = VAR.match(n)
        if m:
            top = max(top, int(m.group(1)))
    nxt = top + 1
    for n in names:
        m = VAR.match(n)
        if m:
            k = int(m.group(1))
        else:
            k = nxt
            nxt += 1
        if k in t.var_rev and t.var_rev[k] != n:
            raise SfsFormatError("two variables intern to %d" % k)
        t.var[n] = k
        t.var_rev[k] = n
    for i, ins in enumerate(sfs["user_instrs"]):
        iid = ins["id"]
        if iid in t.ins:
            raise SfsFormatError("duplicate instruction id %s" % iid)
        t.ins[iid] = i
        t.ins_rev[i] = iid
    return t


def z(n):
    return "(%d)%%Z" % int(n)


def nat(n):
    """Bounds are naturals in the Coq record.  The front end has been seen to publish a negative
    init_progr_len (discount larger than the block); it is clamped to 0 here -- the validator
    `check` does not read the bounds, and C16 reads them from the JSON."""
    return max(0, int(n))


def operand(x, t):
    if _is_int(x):
        return "OConst %s" % z(x)
    return "OVar %d" % t.var[x]


def olist(xs, t):
    return "[" + "; ".join(operand(x, t) for x in xs) + "]"


def coq_string(s):
    if not all(32 <= ord(c) < 127 for c in s):
        raise SfsFormatError("non-printable character in %r" % s)
    return '"' + s.replace('"', '""') + '"'


def boolean(b):
    if b is True:
        return "true"
    if b is False:
        return "false"
    raise SfsFormatError("not a boolean: %r" % (b,))


def uinstr(ins, t):
    outs = []
    for o in ins["outpt_sk"]:
        if _is_int(o):
            raise SfsFormatError("constant in outpt_sk of %s" % ins["id"])
        outs.append(str(t.var[o]))
    val = "None"
    if "value" in ins and ins["value"] is not None and len(ins["value"]) > 0:
        v = ins["value"][0]
        if _is_int(v):
            val = "(Some %s)" % z(v)
        else:          # symbolic values (tags given as text) carry no number for the model
            val = "None"
    return "(mkUI %d %s %s [%s] %s %s %s %s %s %s)" % (
        t.ins[ins["id"]], coq_string(ins["disasm"]), olist(ins["inpt_sk"], t), "; ".join(outs),
        boolean(ins.get("commutative", False)), boolean(ins.get("storage", False)),
        boolean(ins.get("push", False)), val, z(ins.get("gas", 0)), z(ins.get("size", 0)))


def pairs(ps, t):
    out = []
    for p in ps:
        if len(p) != 2 or p[0] not in t.ins or p[1] not in t.ins:
            raise SfsFormatError("dependency pair over unknown ids: %r" % (p,))
        out.append("(%d, %d)" % (t.ins[p[0]], t.ins[p[1]]))
    return "[" + "; ".join(out) + "]"


def spec_term(sfs, t=None):
    """Returns (Coq text of a `spec`, Tables)."""
    t = t or build_tables(sfs)
    deps = sfs.get("dependencies")
    if deps is None:
        deps = list(sfs.get("storage_dependences", [])) + list(sfs.get("memory_dependences", []))
    txt = "(mkSpec %s %s\n  [%s]\n  %s %s %s %d %d %d %d)" % (
        olist(sfs["src_ws"], t), olist(sfs["tgt_ws"], t),
        ";\n   ".join(uinstr(i, t) for i in sfs["user_instrs"]),
        pairs(deps, t), pairs(sfs.get("memory_dependences", []), t), pairs(sfs.get("storage_dependences", []), t),
        nat(sfs["init_progr_len"]), nat(sfs.get("max_progr_len", sfs["init_progr_len"])),
        nat(sfs["max_sk_sz"]), nat(sfs.get("min_length", 0)))
    return txt, t


def step_term(i, t):
    if i in t.ins:
        return "SIns %d" % t.ins[i]
    if i == "POP":
        return "SPop"
    if i == "NOP":
        return "SNop"
    m = re.fullmatch(r"DUP(\d+)", i)
    if m:
        return "SDup %d" % int(m.group(1))
    m = re.fullmatch(r"SWAP(\d+)", i)
    if m:
        return "SSwap %d" % int(m.group(1))
    m = PUSHLIT.match(i)
    if m:
        return "SPushC %s" % z(int(m.group(3), 16))
    if i == "PUSH0":
        return "SPushC %s" % z(0)
    raise SfsFormatError("id of unknown kind: %r" % (i,))


def id_kind(i, t):
    if i in t.ins:
        return "instr"
    for k in ("POP", "NOP", "DUP", "SWAP", "PUSH"):
        if i.startswith(k):
            return k
    return "other"


def ids_term(ids, t):
    return "[" + "; ".join(step_term(i, t) for i in ids) + "]"


# --- parsing verdicts printed by Coq -------------------------------------------------------

ERR = re.compile(r"Some \((\d+), (E\w+)((?: \d+)*)\)")


def parse_verdict(txt):
    """'None' -> None ; 'Some (3, EOperands 2)' -> (3, 'EOperands', [2])"""
    txt = txt.strip()
    if txt == "None":
        return None
    m = ERR.search(txt)
    if not m:
        raise SfsFormatError("unparsed verdict: " + txt[:200])
    return (int(m.group(1)), m.group(2), [int(x) for x in m.group(3).split()])


def explain(verdict, ids, t):
    """Human-readable first failure for a replay."""
    if verdict is None:
        return "realizes"
    pos, kind, args = verdict
    at = ("at position %d (%s)" % (pos, ids[pos])) if pos < len(ids) else "after the whole sequence"
    names = [t.ins_rev.get(a, a) for a in args]
    msg = {"EUnderflow": "stack underflow", "EDepth": "DUP/SWAP depth %s outside 1..16" % args,
           "EUnknownId": "unknown instruction id", "EOperands": "operands on the stack differ from inpt_sk of %s" % names,
           "EFinalStack": "final stack differs from tgt_ws",
           "EStoreCount": "storage instruction %s occurs %s times" % (names[:1], args[1:] if len(args) > 1 else "?"),
           "EOrder": "dependency %s violated" % names, "ELength": "length %s exceeds the bound" % args,
           "EPeak": "stack height %s exceeds the bound" % args}.get(kind, kind)
    return "%s %s" % (msg, at)
