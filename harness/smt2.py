"""S-expression reader for the SMT-LIB text GASOL emits, and converters to Coq terms of
Model/Smt2.v (type `sexp`: SA atom | SL list).

Deliberately tiny (it is trusted): the reader only splits the text into atoms and lists;
commands, terms, numerals and symbols are recognised by the Coq side (Model/Smt2.v: cmd_of,
term_of).  Fail closed: quoted symbols |..|, string literals and unbalanced parentheses raise
Smt2ReadError (GASOL never emits the first two; if it starts to, the check reports it).
"""


class Smt2ReadError(Exception):
    pass


def tokens(text):
    out, i, n = [], 0, len(text)
    while i < n:
        c = text[i]
        if c in " \t\r\n":
            i += 1
        elif c == ";":                      # comment to end of line
            while i < n and text[i] != "\n":
                i += 1
        elif c in "()":
            out.append(c)
            i += 1
        elif c in "|\"":
            raise Smt2ReadError("quoted symbol or string literal at offset %d" % i)
        else:
            j = i
            while j < n and text[j] not in " \t\r\n();|\"":
                j += 1
            out.append(text[i:j])
            i = j
    return out


def read_all(text):
    """Text -> list of top-level s-expressions; an atom is a str, a list is a Python list."""
    stack, top = [], []
    for t in tokens(text):
        if t == "(":
            stack.append(top)
            top = []
        elif t == ")":
            if not stack:
                raise Smt2ReadError("unbalanced ')'")
            done, top = top, stack.pop()
            top.append(done)
        else:
            top.append(t)
    if stack:
        raise Smt2ReadError("unbalanced '('")
    return top


def coq_string(s):
    if not all(32 <= ord(c) < 127 for c in s):
        raise Smt2ReadError("non-printable character in atom %r" % s)
    return '"' + s.replace('"', '""') + '"'


def sexp_term(e):
    """Python s-expression -> Coq text of type Smt2.sexp."""
    if isinstance(e, str):
        return "SA " + coq_string(e)
    return "SL [" + "; ".join(sexp_term(x) for x in e) + "]"


def script_term(text):
    """Whole .smt2 text -> Coq text of type `list Smt2.sexp`."""
    es = read_all(text)
    return "[" + ";\n ".join(sexp_term(e) for e in es) + "]"


def show(e):
    """s-expression back to text (single spaces), used for replays and blocking clauses."""
    if isinstance(e, str):
        return e
    return "(" + " ".join(show(x) for x in e) + ")"


# ---------------------------------------------------------------------------------------------
# small helpers over read s-expressions (harness side statistics, not trusted)

def commands(text):
    return [e[0] if isinstance(e, list) and e and isinstance(e[0], str) else "?" for e in read_all(text)]


def strip_soft(text):
    """Lines of the script up to (check-sat), without assert-soft/minimize: the hard problem."""
    keep = []
    for e in read_all(text):
        head = e[0] if isinstance(e, list) and e else None
        if head in ("assert-soft", "minimize", "check-sat", "get-model", "get-objectives", "get-value"):
            continue
        keep.append(show(e))
    return keep


class CoqInterner:
    """Hash-consing writer: every distinct atom / list becomes one Coq Definition, so that the
    many repeated sub-expressions of an emitted script (x_i_j, (= t_j theta_k) ...) are parsed by
    Coq once.  `defs` is the list of Definition lines, `script(text)` returns the Coq term of the
    whole script (a list of names)."""

    def __init__(self):
        self.atoms, self.nodes, self.defs = {}, {}, []

    def term(self, e):
        if isinstance(e, str):
            if e not in self.atoms:
                self.atoms[e] = "a%d" % len(self.atoms)
                self.defs.append("Definition %s := SA %s." % (self.atoms[e], coq_string(e)))
            return self.atoms[e]
        key = tuple(self.term(x) for x in e)
        if key not in self.nodes:
            self.nodes[key] = "e%d" % len(self.nodes)
            self.defs.append("Definition %s := SL [%s]." % (self.nodes[key], "; ".join(key)))
        return self.nodes[key]

    def script(self, text):
        return "[" + "; ".join(self.term(e) for e in read_all(text)) + "]"
