"""Shared: compare specifications (SFS) produced by GASOL's front end with the sub-block they were
derived from, under enumerated admissible schedules, with the Coq validators
`spec_check` / `deps_complete` (Val/SpecCheck.v), and search distinguishing states."""
import os
import itertools
import json
import re

from harness import common, gasol, evmconv, sfs2coq, pipeline

HDR = ("From Coq Require Import ZArith List Bool String.\nImport ListNotations.\n"
       "From GV Require Import Ref.Word Ref.EVM Sym.Term Sym.SymExec Sym.Spec Sym.SpecSym Val.Equiv Val.SpecCheck Val.Search.\n"
       "Open Scope Z_scope.\n")

MEMOPS = {"MLOAD", "MSTORE", "MSTORE8", "SLOAD", "SSTORE", "KECCAK256", "SHA3"}


def _sfs_one(params, text):
    """Worker: specifications of every sub-block of the block `text`."""
    import gasol_asm
    b = gasol.parse_block(text, "blk")
    d, subs = gasol_asm.compute_original_sfs_with_simplifications(b, params)
    out = json.loads(json.dumps(d["syrup_contract"]))
    gasol.cleanup_process()
    return {"sfs": out, "sub_block_list": subs, "block": b.to_plain()}


def run_frontend(texts, opts, timeout=40):
    return gasol.pmap(_sfs_one, texts, init=pipeline._init, initargs=(list(opts),), timeout=timeout)


def items_of_text(text):
    from sfs_generator.parser_asm import plain_instructions_to_asm_representation
    return [(d["name"], d.get("value")) for d in plain_instructions_to_asm_representation(text)]


def opmap_text(sfs, tables, it):
    """Coq text of the list (id, instr) for every user instruction."""
    out = []
    for u in sfs["user_instrs"]:
        d = u["disasm"]
        val = None
        if "value" in u and u["value"] not in (None, []):
            v = u["value"][0] if isinstance(u["value"], list) else u["value"]
            # ir_block keeps the digits of a tag as they are and reads every other operand as hex
            val = str(int(v)) if d == "PUSH [tag]" else "%x" % int(v)
        if d == "PUSH0":
            d, val = "PUSH", "0"
        ins = evmconv.item_to_coq(d, val, it)
        out.append("(%d%%nat, %s)" % (tables.ins[u["id"]], ins))
    return "[" + "; ".join(out) + "]"


def linearizations(sfs, cap=24):
    """Admissible schedules of the memory/storage/hash operations: topological orders of the
    declared dependences plus data flow (a consumer after the load that produced its operand)."""
    uis = sfs["user_instrs"]
    mem = [u["id"] for u in uis if u["disasm"] in MEMOPS]
    if not mem:
        return [[]]
    definer = {}
    for u in uis:
        for o in u["outpt_sk"]:
            definer[o] = u
    memset = set(mem)

    def loads_used(u, seen=None):
        seen = seen if seen is not None else set()
        res = set()
        for x in u["inpt_sk"]:
            if isinstance(x, str) and x in definer:
                dv = definer[x]
                if dv["id"] in memset:
                    res.add(dv["id"])
                elif dv["id"] not in seen:
                    seen.add(dv["id"])
                    res |= loads_used(dv, seen)
        return res
    before = {m: set() for m in mem}
    for a, b in sfs.get("dependencies", []):
        if a in memset and b in memset:
            before[b].add(a)
    byid = {u["id"]: u for u in uis}
    for m in mem:
        before[m] |= loads_used(byid[m])
    res = []

    def rec(done, order):
        if len(res) >= cap:
            return
        if len(order) == len(mem):
            res.append(list(order))
            return
        for m in mem:
            if m not in done and before[m] <= done:
                done.add(m); order.append(m)
                rec(done, order)
                order.pop(); done.discard(m)
    rec(set(), [])
    # also the reversed exploration to diversify when capped
    if len(res) >= cap:
        mem.reverse()
        res2, res[:] = list(res), res[:cap // 2]
        rec(set(), [])
    return res


def check_specs(cases, name, chunk=60):
    """cases: list of dict(sfs=..., block_items=[(d,v)]).  Returns per case:
    {"schedules": n, "spec_check": [bool...], "deps_complete": bool} or {"unsupported": reason}."""
    name = "%s_%d" % (name, os.getpid())      # private file names: runs of the checks may overlap
    pipeline.ensure_built()
    ok, out = common.coq_make(["Val/SpecCheck.vo", "Val/Search.vo", "Val/Realizes.vo"])
    if not ok:
        raise RuntimeError("cannot build SpecCheck: " + out[-600:])
    enc = []
    results = [None] * len(cases)
    for ci, c in enumerate(cases):
        try:
            t = sfs2coq.build_tables(c["sfs"])
            it = evmconv.Interner()
            b = evmconv.block_to_coq([x for x in c["block_items"] if x[0] not in evmconv.EVENTS], it)
            om = opmap_text(c["sfs"], t, it)
            sp = sfs2coq.spec_term(c["sfs"], t)[0]
            Ls = linearizations(c["sfs"])
            if not Ls:
                results[ci] = {"unsupported": "no admissible schedule found (cyclic dependences?)"}
                continue
            ls = "[" + "; ".join("[" + "; ".join("%d%%nat" % t.ins[i] for i in L) + "]" for L in Ls) + "]"
            enc.append((ci, sp, om, ls, b, len(Ls)))
            c["_L"] = Ls
        except (evmconv.Unsupported, sfs2coq.SfsFormatError, KeyError, ValueError) as e:
            results[ci] = {"unsupported": "%s: %s" % (type(e).__name__, str(e)[:100])}
    files = []
    for k in range(0, len(enc), chunk):
        part = enc[k:k + chunk]
        body = [HDR]
        for j, (ci, sp, om, ls, b, n) in enumerate(part):
            body.append("Definition S%d := (%s)%%nat.\nDefinition O%d : list (nat * instr) := %s.\nDefinition B%d : list instr := %s.\n" % (j, sp, j, om, j, b))
            body.append("Eval vm_compute in (map (fun L => spec_check S%d O%d L B%d) %s, deps_complete S%d O%d (hd [] %s)).\n" % (j, j, j, ls, j, j, ls))
        files.append(("%s_%d" % (name, k // chunk), "".join(body), part))
    res = common.run_cases_parallel([(n, b) for n, b, _ in files])
    for n, _, part in files:
        ok, out = res[n]
        if not ok:
            raise RuntimeError("coqc failed on %s: %s" % (n, out[-800:]))
        vals = common.parse_eval_list(out)
        if len(vals) != len(part):
            raise RuntimeError("unexpected coq output for %s (%d vs %d)" % (n, len(vals), len(part)))
        for (ci, sp, om, ls, b, nL), v in zip(part, vals):
            bools = re.findall(r"\b(true|false)\b", v)
            results[ci] = {"schedules": nL, "spec_check": [x == "true" for x in bools[:-1]],
                           "deps_complete": bools[-1] == "true"}
    return results


def search_spec_witness(case, L, rng, name):
    """Concrete state on which the denotation of the spec under schedule L differs from the block."""
    name = "%s_%d" % (name, os.getpid())      # private file names: runs of the checks may overlap
    t = sfs2coq.build_tables(case["sfs"])
    it = evmconv.Interner()
    b = evmconv.block_to_coq([x for x in case["block_items"] if x[0] not in evmconv.EVENTS], it)
    om = opmap_text(case["sfs"], t, it)
    sp = sfs2coq.spec_term(case["sfs"], t)[0]
    l = "[" + "; ".join("%d%%nat" % t.ins[i] for i in L) + "]"
    need = len(case["sfs"]["src_ws"])
    stacks = pipeline.stacks_for(need, rng)
    tests = [(seed, s) for seed in (0, 1, 2, 3, 4) for s in stacks]
    body = HDR + "Definition S0 := (%s)%%nat.\nDefinition O0 : list (nat * instr) := %s.\nDefinition B0 : list instr := %s.\n" % (sp, om, b) + \
        "Eval vm_compute in match spec_sym S0 O0 %s with None => [99] | Some ss => map (fun t => differ_sym (fst t) (snd t) ss B0) [\n" % l + \
        ";\n".join("(%d, [%s])" % (seed, "; ".join(str(x) for x in s)) for seed, s in tests) + "] end.\n"
    ok, out = common.run_cases(name, body, timeout=600)
    if not ok:
        return None
    codes = [int(x) for x in re.findall(r"-?\d+", common.parse_eval_list(out)[-1])]
    for (seed, s), c in zip(tests, codes):
        if c in (2, 3, 4):
            return {"kind": {2: "stack-differs", 3: "memory-differs", 4: "storage-differs"}[c], "schedule": L,
                    "state": {"env_seed": seed, "stack_top_first": [hex(x) for x in s],
                              "environment/memory/storage": "GV.Val.Search.test_env/test_mem/test_sto at this seed"}}
    return None
