#!/bin/bash
# confirm_seed.sh <dir with patch.diff demo.py> <label>: demo passes on the clean tree, fails with the patch; test outcomes unchanged
# (scratch worktree under /tmp/seedchk, removed afterwards)
D=$1; L=$2; W=/tmp/seedchk/$L
mkdir -p /tmp/seedchk
git -C /repo worktree add -q --detach $W HEAD || exit 2
res="$L:"
( cd $W && mkdir -p scratch_demo && cd scratch_demo && PYTHONPATH=$W PYTHONHASHSEED=0 timeout 900 /venv/bin/python -W ignore $D/demo.py > /tmp/seedchk/$L.clean.out 2>&1 ); res="$res clean_demo_exit=$?"
if ! git -C $W apply $D/patch.diff; then res="$res PATCH_DOES_NOT_APPLY"; echo "$res"; git -C /repo worktree remove --force $W; exit 1; fi
( cd $W/scratch_demo && PYTHONPATH=$W PYTHONHASHSEED=0 timeout 900 /venv/bin/python -W ignore $D/demo.py > /tmp/seedchk/$L.patched.out 2>&1 ); res="$res patched_demo_exit=$?"
if [ "$3" != "notests" ]; then
( cd $W && timeout 3000 /venv/bin/python -m pytest -q -p no:cacheprovider --timeout=900 --continue-on-collection-errors -rA tests 2>&1 | grep -E '^(PASSED|FAILED|ERROR)' | sed 's/ - .*//' | sort > /tmp/seedchk/$L.tests.txt )
if [ -f /tmp/seedchk/clean.tests.txt ]; then if diff -q /tmp/seedchk/clean.tests.txt /tmp/seedchk/$L.tests.txt >/dev/null; then res="$res tests=same"; else res="$res tests=DIFFER"; fi; fi
fi
rm -rf /tmp/gasol_* 2>/dev/null
git -C /repo worktree remove --force $W
echo "$res"
