cd /verif
S=$1
for c in C01 C02 C03 C04 C05 C06 C07 C08 C09 C10 C11 C12 C13 C14 C15 C16 C17 C18; do
  if [ -n "$S" ]; then export VERIF_SEED=$S; fi
  VERIF_EVIDENCE_DIR=${SWEEP_EVID:-/verif/evidence} /usr/bin/time -f "$c wall %e" ./check $c --tier quick > .work/allq_${S:-d}_$c.log 2>&1
  echo "$c exit=$? viol=$(grep -c '^VIOLATION' .work/allq_${S:-d}_$c.log) known=$(grep -c '^KNOWN-FINDING' .work/allq_${S:-d}_$c.log) $(tail -1 .work/allq_${S:-d}_$c.log)"
done
echo ALLQUICK-DONE
