cd /verif
for c in C11 C01; do
  /usr/bin/time -f "$c wall %e" ./check $c --tier thorough > .work/allt_$c.log 2>&1
  echo "$c exit=$? viol=$(grep -c '^VIOLATION' .work/allt_$c.log) known=$(grep -c '^KNOWN-FINDING' .work/allt_$c.log) $(tail -1 .work/allt_$c.log)"
done
echo ALLTHOROUGH-DONE
