import sys
sys.path.insert(0,'/verif')
from harness import gasol, pipeline, c05
opts = sys.argv[1].split()
a, b = sys.argv[2], sys.argv[3]
res = gasol.pmap(c05._cmp_one, [(a, b)], init=pipeline._init, initargs=(opts,), timeout=60)
st, v = res[0]
print(st, {k: v[k] for k in ('eq','reason','raised')} if st=='ok' else v)
