import sys, json
sys.path.insert(0,'/verif')
from harness import pipeline
def items(text):
    toks=text.split(); out=[]; i=0
    while i<len(toks):
        t=toks[i]
        if t in ('PUSH','tag') or (t.startswith('PUSH') and t not in ('PUSH0',) and not t[4:].isdigit() and t!='PUSH'):
            out.append([t,toks[i+1]]); i+=2
        elif t=='[out]' or t=='[in]':
            out[-1]=[out[-1][0],t]; i+=1
        else:
            out.append([t,None]); i+=1
    return out
a=items(sys.argv[1]); b=items(sys.argv[2])
print(pipeline.coq_pairs([(a,b)],'dbg%d'%__import__('os').getpid()))
