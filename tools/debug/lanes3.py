import subprocess, sys, threading, queue
R='/verif/seeded'
items = """C01-1 Z_C01_1 C01 C02 C05
C01-2 Z_C01_2 C01 C03
C02-1 Z_C02_1 C02
C02-2 Z_C02_2 C02 C01
C03-1 Z_C03_1 C03 C01
C03-2 Z_C03_2 C01 C02 C03
C04-1 Z_C04_1 C04
C04-2 Z_C04_2 C04
C05-1 Z_C05_1 C05
C05-2 Z_C05_2 C05
C06-1 Z_C06_1 C06
C06-2 Z_C06_2 C06
C07-1 Z_C07_1 C07
C07-2 Z_C07_2 C07
C08-1 Z_C08_1 C08
C08-2 Z_C08_2 C08 C17
C09-1 Z_C09_1 C09 C15
C10-1 Z_C10_1 C10
C10-2 Z_C10_2 C11 C10
C11-1 Z_C11_1 C11 C09
C11-2 Z_C11_2 C11 C05
C12-1 Z_C12_1 C12
C12-2 Z_C12_2 C12
C13-1 Z_C13_1 C13
C13-2 Z_C13_2 C13
C14-1 Z_C14_1 C14
C14-2 Z_C14_2 C14 C01 C02
C15-1 Z_C15_1 C15
C15-2 Z_C15_2 C15
C16-1 Z_C16_1 C16
C16-2 Z_C16_2 C16 C07
C17-1 Z_C17_1 C17 C11
C17-2 Z_C17_2 C17
C18-1 Z_C18_1 C18
C18-2 Z_C18_2 C18""".splitlines()
q = queue.Queue()
for l in items: q.put(l.split())
lock = threading.Lock()
def lane(k):
    while True:
        try: it = q.get_nowait()
        except queue.Empty: return
        p = subprocess.run(['/verif/tools/seed_lane.sh', str(k), R + '/' + it[0], it[1]] + it[2:], stdout=subprocess.PIPE, stderr=subprocess.STDOUT, text=True)
        with lock:
            sys.stdout.write(p.stdout); sys.stdout.flush()
ts = [threading.Thread(target=lane, args=(k,)) for k in (1, 2, 3)]
[t.start() for t in ts]; [t.join() for t in ts]
print("LANES-DONE")
