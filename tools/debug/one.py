import sys, json
sys.path.insert(0,'/verif')
from harness import pipeline
opts = sys.argv[1].split()
for t in sys.argv[2:]:
    r = pipeline.run_gasol([t], opts)
    st, val = r[0]
    if st != 'ok': print(t, st, str(val)[:300]); continue
    for b in val:
        print(t, '=>', b['cand_plain'], '| eq', b['eq'], b['reason'][:80], '| rules', b['rules'])
        if b['old'] != b['new']:
            print('   equiv_block:', pipeline.coq_pairs([(b['old'], b['new'])], 'one')[0])
