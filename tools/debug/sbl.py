import sys
sys.path.insert(0,'/verif')
from harness import gasol, pipeline
def w(params, text):
    import gasol_asm
    b = gasol.parse_block(text, "blk")
    info, sbl = gasol_asm.compute_original_sfs_with_simplifications(b, params)
    gasol.cleanup_process()
    return {"sbl": sbl, "keys": list(info["syrup_contract"].keys())}
print(gasol.pmap(w, [sys.argv[2]], init=pipeline._init, initargs=(sys.argv[1].split(),), timeout=60))
