import sys, json
sys.path.insert(0,'/verif')
from harness import speccheck
opts = sys.argv[1].split()
for t in sys.argv[2:]:
    res = speccheck.run_frontend([t], opts)
    st, v = res[0]
    if st != 'ok': print(t, st, v); continue
    cases = [{"sfs": s, "block_items": speccheck.items_of_text(s["original_instrs"]), "text": t, "key": k, "opts": opts} for k, s in v["sfs"].items()]
    out = speccheck.check_specs(cases, "spec1")
    for c, r in zip(cases, out):
        print(c["sfs"]["original_instrs"], '| deps', c["sfs"]["dependencies"], '|', {k: r[k] for k in r if k in ('spec_check','deps_complete','schedules','unsupported')})
