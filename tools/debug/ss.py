import sys
sys.path.insert(0,'/verif')
from harness import gasol, pipeline
def w(params, text):
    import gasol_asm
    b = gasol.parse_block(text, "blk")
    try:
        info, sbl = gasol_asm.compute_original_sfs_with_simplifications(b, params)
        src = [len(v["src_ws"]) for v in info["syrup_contract"].values()]
    except Exception as e:
        src = str(e)
    gasol.cleanup_process()
    return {"source_stack": b.source_stack, "sfs_src": src}
print(gasol.pmap(w, sys.argv[2:], init=pipeline._init, initargs=(sys.argv[1].split(),), timeout=60))
