#!/bin/bash
# seed_lane.sh <lane> <dir with patch.diff> <label> <check ids...>
# Parallel lane for runs against seeded changes: a private copy of /verif (with its compiled Coq files) and a private
# worktree of /repo at HEAD with the change applied; the checks run there with GASOL_REPO pointing at the worktree.
# /repo itself is not touched.  Logs go to /verif/.work/seedlogs.
K=$1; D=$2; L=$3; shift 3
LD=/tmp/lane$K
mkdir -p $LD /verif/.work/seedlogs
rsync -a --delete --exclude=replays /tmp/verif_snap/ $LD/verif/
if [ ! -d $LD/repo ]; then git -C /repo worktree add -q --detach $LD/repo HEAD || exit 2; fi
git -C $LD/repo checkout -q --detach $(git -C /repo rev-parse HEAD) && git -C $LD/repo checkout -- . || exit 2
git -C $LD/repo apply $D/patch.diff || { echo "$L: patch does not apply"; exit 2; }
cd $LD/verif
for c in "$@"; do
  ( GASOL_REPO=$LD/repo VERIF_EVIDENCE_DIR=$LD/evidence timeout 3000 ./check $c --tier quick > /verif/.work/seedlogs/${L}_$c.log 2>&1
    rc=$?
    v=$(grep -c '^VIOLATION' /verif/.work/seedlogs/${L}_$c.log)
    echo "$L $c exit=$rc violations=$v $(grep '^VIOLATION' /verif/.work/seedlogs/${L}_$c.log | head -1 | cut -c1-150)" ) &
done
wait
git -C $LD/repo checkout -- .
