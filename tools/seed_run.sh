#!/bin/bash
# seed_run.sh <dir with patch.diff> <label> <check ids...>: apply a seeded change to /repo, run the checks (concurrently), undo it.
# Evidence goes to .work/seed_evidence so that the committed evidence keeps describing the unchanged tree.
D=$1; L=$2; shift 2
cd /verif
if [ -n "$(git -C /repo status --porcelain --untracked-files=no)" ]; then echo "$L: /repo not clean"; exit 2; fi
git -C /repo apply $D/patch.diff || { echo "$L: patch does not apply"; exit 2; }
mkdir -p .work/seed_evidence .work/seedlogs
for c in "$@"; do
  ( VERIF_EVIDENCE_DIR=/verif/.work/seed_evidence timeout 3000 ./check $c --tier quick > .work/seedlogs/${L}_$c.log 2>&1
    rc=$?
    v=$(grep -c '^VIOLATION' .work/seedlogs/${L}_$c.log)
    echo "$L $c exit=$rc violations=$v $(grep '^VIOLATION' .work/seedlogs/${L}_$c.log | head -1 | cut -c1-150)" ) &
done
wait
git -C /repo checkout -- .
