#!/usr/bin/env python3
"""Builds the table 'which check catches which seeded change' from the logs of the final lane run and writes
caught_by / missed_by into seeded/<id>/meta.json.  usage: seed_table.py <lanes log> [extra logs...]"""
import json, os, re, sys
res = {}
for f in sys.argv[1:]:
    for l in open(f):
        m = re.match(r"[A-Z]?_?(C\d\d)_(\d)\w* (C\d\d) exit=(\d+) violations=(\d+)(.*)", l)
        if not m:
            continue
        pid, n, chk, rc, v, rest = m.groups()
        noinput = "no-failing-input-found" in rest
        lab = l.split()[0]
        lf = "/verif/.work/seedlogs/%s_%s.log" % (lab, chk)
        if os.path.exists(lf):
            vl = [x for x in open(lf) if x.startswith("VIOLATION")]
            if vl:
                noinput = all("no-failing-input-found" in x for x in vl)
        res.setdefault("%s-%s" % (pid, n), {})[chk] = (int(v), noinput)
        m2 = re.search(r"replay=(\S+)", rest)
        if m2 and os.path.exists(m2.group(1)) and os.path.getsize(m2.group(1)) < 400000:
            import shutil
            dst = os.path.join("/verif/seeded", "%s-%s" % (pid, n), "replay-%s.json" % chk)
            if os.path.isdir(os.path.dirname(dst)):
                shutil.copyfile(m2.group(1), dst)
NOTES = json.load(open("/verif/seeded/notes.json")) if os.path.exists("/verif/seeded/notes.json") else {}
rows = []
for d in sorted(os.listdir("/verif/seeded")):
    p = os.path.join("/verif/seeded", d, "meta.json")
    if not os.path.exists(p):
        continue
    meta = json.load(open(p))
    r = res.get(d, {})
    caught = sorted(c for c, (v, nf) in r.items() if v > 0)
    missed = sorted(c for c, (v, nf) in r.items() if v == 0)
    meta["confirmed"] = ("demo exits 0 on the unchanged tree and non-zero with the patch applied; the pytest outcome list "
                         "(PASSED/FAILED/ERROR per test) is identical with and without the patch (tools/confirm_seed.sh, scratch worktree)")
    meta["caught_by"] = {c: {"violations": r[c][0], "with_failing_input": not r[c][1]} for c in caught}
    meta["not_caught_by"] = missed
    if d in NOTES:
        meta["note"] = NOTES[d]
    json.dump(meta, open(p, "w"), indent=1)
    summ = meta.get("summary", "")
    summ = re.sub(r"\s+", " ", summ)[:150]
    rows.append("| %s | %s | %s | %s | %s |" % (d, summ.replace("|", "/"),
                ", ".join("%s%s" % (c, "" if not r[c][1] else " (no input)") for c in caught) or "—",
                ", ".join(missed) or "—", NOTES.get(d, "")))
print("| seeded change | what it does | caught by (quick tier) | run but silent | note |\n|---|---|---|---|---|")
print("\n".join(rows))
